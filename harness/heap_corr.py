"""Identity correspondence for C16: the concrete heap model (lean/SCoda/Model/HeapOps.lean, driven by
lean/HeapDriver.lean) against the real objects.

For a history of public operations this module
  * runs the history on real scoda objects while RECORDING the value-dependent decisions of the library
    (what each conversion / normalisation / quantisation / split / pad / sort did, keyed by the message
    values the call read) — the model takes exactly these as its oracle;
  * prints the caller's objects with `id()` renamed to first-occurrence numbers in a pre-order walk;
  * sends the same history plus the recorded tables to the Lean driver and compares the two lines.
Equal lines mean: same sharing, same freshness, same message values, same flags.

Prototype written with the model (audit item A2); `python heap_corr.py [n_random]` runs a fixed set of
scenarios and `n_random` random histories.
"""
import os
import random
import subprocess
import sys

sys.path.insert(0, os.path.dirname(os.path.abspath(__file__)))
from protocol import (MT, KEYS, KEY_IDX, to_real, enc_msg, enc_msgs, p_int, LEAN_DIR,  # noqa: E402
                      pm, ON, OFF, WAIT, TIMESIG, KEYSIG, PC)
import protocol  # noqa: E402

from scoda.elements.message import Message  # noqa: E402
from scoda.elements.bar import Bar  # noqa: E402
from scoda.elements.track import Track  # noqa: E402
from scoda.elements.composition import Composition  # noqa: E402
from scoda.sequences.sequence import Sequence  # noqa: E402
from scoda.sequences.abstract_sequence import AbstractSequence  # noqa: E402
from scoda.sequences.absolute_sequence import AbsoluteSequence  # noqa: E402
from scoda.sequences.relative_sequence import RelativeSequence  # noqa: E402


def from_real(m):
    """plain message; `scale` with a factor below 1 leaves float ticks (24.0): this check is about identity, so
    integral floats are read as ints; a fractional tick is outside the Int-typed model (C11) and ends the case"""
    out = []
    for x in protocol.from_real(m):
        if isinstance(x, float):
            if not x.is_integer():
                raise Conflict("fractional tick")
            x = int(x)
        out.append(x)
    return tuple(out)


class Conflict(Exception):
    """the same values were treated in two different ways (different scalar arguments): the value-keyed
    oracle cannot replay this history"""


# ------------------------------------------------------------------------------------------ recording

def vals(msgs):
    return tuple(from_real(m) for m in msgs)


def items_of(before, after):
    """after list as items relative to the before list: ('K', position) / ('F', plain message)"""
    pos = {}
    for k, m in enumerate(before):
        pos.setdefault(id(m), k)
    return tuple(('K', pos[id(m)]) if id(m) in pos else ('F', from_real(m)) for m in after)


class Recorder:
    TABLES = ("toAbs", "toRel", "edit", "plan", "perm", "split", "pad", "barpad", "sig")

    def __init__(self):
        self.t = {k: {} for k in self.TABLES}
        self.saved = []
        self.stash = None
        self.in_bar = 0

    def put(self, table, key, value):
        if key in self.t[table] and self.t[table][key] != value:
            raise Conflict(f"{table}: {key}")
        self.t[table][key] = value

    def patch(self, cls, name, wrapper):
        orig = getattr(cls, name)
        self.saved.append((cls, name, orig))
        setattr(cls, name, wrapper(orig))

    def __enter__(self):
        rec = self

        def conv(table):
            def w(orig):
                def f(self_, *a, **k):
                    key = vals(self_._messages)
                    out = orig(self_, *a, **k)
                    rec.put(table, key, vals(out._messages))
                    return out
                return f
            return w

        def rebuild(edits):
            def w(orig):
                def f(self_, *a, **k):
                    before = list(self_._messages)
                    key = vals(before)
                    out = orig(self_, *a, **k)
                    edited = vals(before)
                    if edits:
                        rec.put("edit", key, edited)
                    elif edited != key:
                        raise Conflict("rebuilder edited a message")
                    rec.put("plan", edited, items_of(before, self_._messages))
                    return out
                return f
            return w

        def edit(orig):
            def f(self_, *a, **k):
                before = list(self_._messages)
                key = vals(before)
                out = orig(self_, *a, **k)
                if [id(m) for m in self_._messages] != [id(m) for m in before]:
                    raise Conflict("mutator changed the list")
                rec.put("edit", key, vals(before))
                return out
            return f

        def scale(orig):
            # factor >= 1: an in-place edit.  factor < 1: the messages of the bars that
            # `sequences_split_bars` returned (stashed by the wrapper below) are edited and become the content
            def f(self_, factor, *a, **k):
                before = list(self_._messages)
                key = vals(before)
                rec.stash = None
                out = orig(self_, factor, *a, **k)
                if factor >= 1:
                    if [id(m) for m in self_._messages] != [id(m) for m in before]:
                        raise Conflict("mutator changed the list")
                    rec.put("edit", key, vals(before))
                elif rec.stash is not None:
                    objs, old = rec.stash
                    rec.put("edit", old, vals(objs))
                return out
            return f

        def split_bars(orig):
            def f(sequences_input, meta_track_index=0, quantise_note_lengths=True):
                out = orig(sequences_input, meta_track_index, quantise_note_lengths)
                objs = [m for b in out[0] for m in b.sequence.rel._messages] if out else []
                rec.stash = (objs, vals(objs))
                return out
            return f

        def sort(orig):
            def f(self_, *a, **k):
                before = list(self_._messages)
                out = orig(self_, *a, **k)
                pos = {id(m): i for i, m in enumerate(before)}
                rec.put("perm", vals(before), tuple(pos[id(m)] for m in self_._messages))
                return out
            return f

        def split(orig):
            def f(self_, *a, **k):
                before = list(self_._messages)
                out = orig(self_, *a, **k)
                rec.put("split", vals(before), tuple(items_of(before, p._messages) for p in out))
                return out
            return f

        def pad(orig):
            def f(self_, *a, **k):
                before = list(self_._messages)
                out = orig(self_, *a, **k)
                extra = self_._messages[len(before):]
                rec.put("barpad" if rec.in_bar else "pad", vals(before), from_real(extra[0]) if extra else None)
                return out
            return f

        def bar_init(orig):
            def f(self_, sequence, numerator, denominator, key=None, *a, **k):
                rel = getattr(sequence, "_rel", None)
                kv = vals(rel._messages) if rel is not None else ()
                rec.put("sig", kv, (numerator, denominator, None if key is None else KEY_IDX[key]))
                rec.in_bar += 1
                try:
                    return orig(self_, sequence, numerator, denominator, key, *a, **k)
                finally:
                    rec.in_bar -= 1
            return f

        def ow_rel(orig):
            def f(self_, messages):
                rel = getattr(self_, "_rel", None)
                if rel is not None:
                    pos = {}
                    for i, m in enumerate(rel._messages):
                        pos.setdefault(id(m), i)
                    if all(id(m) in pos for m in messages):
                        rec.put("perm", vals(rel._messages), tuple(pos[id(m)] for m in messages))
                return orig(self_, messages)
            return f

        def ow_abs(orig):
            def f(self_, messages):
                given = list(messages)
                out = orig(self_, messages)
                pos = {}
                for i, m in enumerate(given):
                    pos.setdefault(id(m), i)
                rec.put("perm", vals(given), tuple(pos[id(m)] for m in self_._abs._messages))
                return out
            return f

        self.patch(RelativeSequence, "to_absolute_sequence", conv("toAbs"))
        self.patch(AbsoluteSequence, "to_relative_sequence", conv("toRel"))
        self.patch(RelativeSequence, "normalise_relative", rebuild(False))
        self.patch(AbsoluteSequence, "quantise", rebuild(True))
        self.patch(AbsoluteSequence, "quantise_note_lengths", rebuild(True))
        self.patch(AbsoluteSequence, "cutoff", rebuild(True))
        self.patch(RelativeSequence, "transpose", edit)
        self.patch(RelativeSequence, "scale", scale)
        orig_sb = Sequence.__dict__["sequences_split_bars"]
        self.saved.append((Sequence, "sequences_split_bars", orig_sb))
        Sequence.sequences_split_bars = staticmethod(split_bars(orig_sb.__func__))
        self.patch(AbsoluteSequence, "sort", sort)
        self.patch(RelativeSequence, "split", split)
        self.patch(RelativeSequence, "pad", pad)
        self.patch(Bar, "__init__", bar_init)
        self.patch(Sequence, "overwrite_relative_messages", ow_rel)
        self.patch(Sequence, "overwrite_absolute_messages", ow_abs)
        return self

    def __exit__(self, *exc):
        for cls, name, orig in reversed(self.saved):
            setattr(cls, name, orig)
        return False

    # ---- request words
    def words(self):
        def items(its):
            out = [str(len(its))]
            for kind, x in its:
                out += ["K", str(x)] if kind == 'K' else ["F"] + enc_msg(x)
            return out

        out = []
        for tb in ("toAbs", "toRel", "edit"):
            out.append(str(len(self.t[tb])))
            for k, v in self.t[tb].items():
                out += enc_msgs(list(k)) + enc_msgs(list(v))
        out.append(str(len(self.t["plan"])))
        for k, v in self.t["plan"].items():
            out += enc_msgs(list(k)) + items(v)
        out.append(str(len(self.t["perm"])))
        for k, v in self.t["perm"].items():
            out += enc_msgs(list(k)) + [str(len(v))] + [str(x) for x in v]
        out.append(str(len(self.t["split"])))
        for k, v in self.t["split"].items():
            out += enc_msgs(list(k)) + [str(len(v))]
            for piece in v:
                out += items(piece)
        for tb in ("pad", "barpad"):
            out.append(str(len(self.t[tb])))
            for k, v in self.t[tb].items():
                out += enc_msgs(list(k)) + (["0"] if v is None else ["1"] + enc_msg(v))
        out.append(str(len(self.t["sig"])))
        for k, v in self.t["sig"].items():
            out += enc_msgs(list(k)) + [p_int(x) for x in v]
        return out


# ------------------------------------------------------------------------------------------ dumping

def kind_of(o):
    if isinstance(o, Message):
        return "M"
    if isinstance(o, AbstractSequence):
        return "L"
    if isinstance(o, Sequence):
        return "S"
    if isinstance(o, Bar):
        return "B"
    if isinstance(o, Track):
        return "T"
    if isinstance(o, Composition):
        return "C"
    raise TypeError(type(o))


def ptrs(o):
    k = kind_of(o)
    if k == "M":
        return []
    if k == "L":
        return list(o._messages)
    if k == "S":
        return [v for v in (getattr(o, "_abs", None), getattr(o, "_rel", None)) if v is not None]
    if k == "B":
        return [o.sequence]
    if k == "T":
        return list(o.bars)
    return list(o.tracks)


def walk(o, out):
    out.append(o)
    for p in ptrs(o):
        walk(p, out)


def dump(env):
    cells = []
    for r in env:
        walk(r, cells)
    names, order, count = {}, [], {}
    for c in cells:
        if id(c) not in names:
            k = kind_of(c)
            names[id(c)] = f"{k}{count.get(k, 0)}"
            count[k] = count.get(k, 0) + 1
            order.append(c)

    def nm(o):
        return "-" if o is None else names[id(o)]

    def content(c):
        k = kind_of(c)
        if k == "M":
            return "(" + ",".join(p_int(x) for x in from_real(c)) + ")"
        if k == "L":
            return "[" + ",".join(nm(m) for m in c._messages) + "]"
        if k == "S":
            return "{" + ",".join([nm(getattr(c, "_abs", None)), nm(getattr(c, "_rel", None)),
                                   "1" if c._abs_stale else "0", "1" if c._rel_stale else "0"]) + "}"
        if k == "B":
            key = c.key_signature
            return "{" + ",".join([nm(c.sequence), p_int(c.time_signature_numerator), p_int(c.time_signature_denominator),
                                   p_int(None if key is None else KEY_IDX[key])]) + "}"
        if k == "T":
            return "[" + ",".join(nm(b) for b in c.bars) + "]"
        return "[" + ",".join(nm(t) for t in c.tracks) + "]"

    return ";".join(nm(r) for r in env) + "|" + " ".join(f"{nm(c)}={content(c)}" for c in order)


# ------------------------------------------------------------------------------------------ operations

def nats(xs):
    return [str(len(xs))] + [str(x) for x in xs]


def apply(env, op):
    """run one operation on the real objects; returns the request words of the corresponding `HOp`"""
    name, a = op[0], op[1:]
    if name in ("seqCopy", "barCopy", "trkCopy", "cmpCopy", "msgCopy"):
        env.append(env[a[0]].copy())
        return [name, str(a[0])]
    if name == "split":
        env.extend(env[a[0]].split(list(a[1])))
        return ["split", str(a[0])]
    if name == "splitBars":
        tb = Sequence.sequences_split_bars([env[i] for i in a[0]], a[1], quantise_note_lengths=a[2])
        env.extend(b for bars in tb for b in bars)
        return ["splitBars"] + nats(a[0]) + [str(a[1]), "1" if a[2] else "0", "100000"]
    if name == "cmpFromSequences":
        env.append(Composition.from_sequences([env[i] for i in a[0]], a[1]))
        return ["cmpFromSequences"] + nats(a[0]) + [str(a[1]), "100000"]
    if name == "barSeq":
        env.append(env[a[0]].sequence)
        return ["barSeq", str(a[0])]
    if name == "trkBars":
        env.extend(env[a[0]].bars)
        return ["trkBars", str(a[0])]
    if name == "cmpTrks":
        env.extend(env[a[0]].tracks)
        return ["cmpTrks", str(a[0])]
    if name == "relMsgs":
        env.extend(list(env[a[0]].messages_rel()))
        return ["relMsgs", str(a[0])]
    if name == "absMsgs":
        env.extend(list(env[a[0]].messages_abs()))
        return ["absMsgs", str(a[0])]
    if name == "newMsg":
        env.append(to_real(a[0]))
        return ["newMsg"] + enc_msg(a[0])
    if name == "newSeq":
        env.append(Sequence())
        return ["newSeq"]
    if name == "mkBar":
        env.append(Bar(env[a[0]], a[1], a[2], None if a[3] is None else KEYS[a[3]]))
        return ["mkBar", str(a[0]), str(a[1]), str(a[2]), p_int(a[3])]
    if name == "mkTrk":
        env.append(Track([env[i] for i in a[0]], None))
        return ["mkTrk"] + nats(a[0]) + ["N"]
    if name == "mkCmp":
        env.append(Composition([env[i] for i in a[0]]))
        return ["mkCmp"] + nats(a[0])
    if name == "readAbs":
        env[a[0]].abs
        return ["readAbs", str(a[0])]
    if name == "readRel":
        env[a[0]].rel
        return ["readRel", str(a[0])]
    if name == "refresh":
        env[a[0]].refresh()
        return ["refresh", str(a[0])]
    if name == "pairings":
        env[a[0]].get_message_pairings()
        return ["pairings", str(a[0])]
    if name == "equals":
        env[a[0]].equals(env[a[1]])
        return ["equals", str(a[0]), str(a[1])]
    if name == "setChannel":
        env[a[0]].set_channel(a[1])
        return ["setChannel", str(a[0]), str(a[1])]
    if name == "transpose":
        sh = env[a[0]].transpose(a[1])
        return ["transpose", str(a[0]), "1" if sh else "0"]
    if name == "scaleUp":
        env[a[0]].scale(a[1], quantise_afterwards=a[2])
        return ["scaleUp", str(a[0]), "1" if a[2] else "0"]
    if name == "scaleDown":
        env[a[0]].scale(a[1], None if a[2] is None else env[a[2]], quantise_afterwards=a[3])
        return ["scaleDown", str(a[0]), "-1" if a[2] is None else str(a[2]), "100000", "1" if a[3] else "0"]
    if name == "quantise":
        env[a[0]].quantise()
        return ["quantise", str(a[0])]
    if name == "quantiseNoteLengths":
        env[a[0]].quantise_note_lengths()
        return ["quantiseNoteLengths", str(a[0])]
    if name == "cutoff":
        env[a[0]].cutoff(a[1], a[2])
        return ["cutoff", str(a[0])]
    if name == "quantiseAndNormalise":
        env[a[0]].quantise_and_normalise()
        return ["quantiseAndNormalise", str(a[0])]
    if name == "normalise":
        env[a[0]].normalise()
        return ["normalise", str(a[0])]
    if name == "pad":
        env[a[0]].pad(a[1])
        return ["pad", str(a[0])]
    if name == "addRel":
        env[a[0]].add_relative_message(env[a[1]], index=a[2])
        return ["addRel", str(a[0]), str(a[1]), "-1" if a[2] is None else str(a[2])]
    if name == "addAbs":
        env[a[0]].add_absolute_message(env[a[1]])
        idx = [id(m) for m in env[a[0]]._abs._messages].index(id(env[a[1]]))
        return ["addAbs", str(a[0]), str(a[1]), str(idx)]
    if name == "overwriteRel":
        env[a[0]].overwrite_relative_messages([env[j] for j in a[1]])
        return ["overwriteRel", str(a[0])] + nats(a[1])
    if name == "overwriteAbs":
        env[a[0]].overwrite_absolute_messages([env[j] for j in a[1]])
        return ["overwriteAbs", str(a[0])] + nats(a[1])
    if name == "concatenate":
        env[a[0]].concatenate([env[j] for j in a[1]])
        return ["concatenate", str(a[0])] + nats(a[1])
    if name == "merge":
        env[a[0]].merge([env[j] for j in a[1]])
        return ["merge", str(a[0])] + nats(a[1])
    if name == "barsToSequence":
        env.append(Bar.to_sequence([env[j] for j in a[0]]))
        return ["barsToSequence"] + nats(a[0])
    if name == "trkToSequence":
        env.append(env[a[0]].to_sequence())
        return ["trkToSequence", str(a[0])]
    if name == "barTranspose":
        b = env[a[0]]
        sh = b.transpose(a[1])
        return ["barTranspose", str(a[0]), "1" if sh else "0", p_int(None if b.key_signature is None else KEY_IDX[b.key_signature])]
    raise ValueError(name)


def build(spec):
    kind, *lists = spec
    if kind == "R":
        return Sequence(relative_sequence=RelativeSequence(messages=[to_real(p) for p in lists[0]]))
    if kind == "A":
        return Sequence(absolute_sequence=AbsoluteSequence(messages=[to_real(p) for p in lists[0]]))
    return Sequence(AbsoluteSequence(messages=[to_real(p) for p in lists[0]]),
                    RelativeSequence(messages=[to_real(p) for p in lists[1]]))


def scenario(specs, ops):
    """returns (request line, expected answer line)"""
    env = [build(s) for s in specs]
    words = ["hist", str(len(specs))]
    for s in specs:
        words.append(s[0])
        for lst in s[1:]:
            words += enc_msgs(lst)
    opwords = []
    with Recorder() as rec:
        for op in ops:
            opwords.append(apply(env, op))
    words += rec.words()
    words.append(str(len(opwords)))
    for w_ in opwords:
        words += w_
    return " ".join(words), "OK " + dump(env)


def ask(lines):
    exe = os.path.join(LEAN_DIR, ".lake", "build", "bin", "heapdriver")
    cmd = [exe] if os.path.exists(exe) else ["lake", "env", "lean", "--run", "HeapDriver.lean"]
    p = subprocess.run(cmd, cwd=LEAN_DIR, input="\n".join(lines) + "\n", capture_output=True, text=True)
    if p.returncode != 0:
        raise RuntimeError(p.stderr[-2000:])
    return [ln for ln in p.stdout.split("\n") if ln.startswith(("OK", "ERR"))]


# ------------------------------------------------------------------------------------------ scenarios

def note_seq(rng, n, ch=0):
    out, open_ = [], []
    for _ in range(n):
        r = rng.random()
        if r < 0.4:
            p = rng.choice([60, 62, 64, 65])
            out.append(pm(ON, ch, None, p, rng.choice([64, 100])))
            open_.append(p)
        elif r < 0.7 and open_:
            p = open_.pop(rng.randrange(len(open_)))
            out.append(pm(OFF, ch, None, p))
        else:
            out.append(pm(WAIT, ch, rng.choice([6, 12, 24, 36, 48])))
    return out


BASE = [pm(ON, 0, None, 60, 64), pm(WAIT, 0, 24), pm(OFF, 0, None, 60), pm(WAIT, 0, 72),
        pm(ON, 0, None, 62, 64), pm(WAIT, 0, 48), pm(OFF, 0, None, 62), pm(WAIT, 0, 48)]

FIXED = [
    ([("R", BASE)], [("seqCopy", 0), ("setChannel", 1, 5), ("concatenate", 0, [1])]),
    ([("R", BASE)], [("split", 0, [48]), ("transpose", 1, 3), ("setChannel", 2, 7)]),
    ([("R", BASE)], [("readAbs", 0), ("split", 0, [96, 96]), ("quantise", 1), ("normalise", 2)]),
    ([("R", BASE)], [("splitBars", [0], 0, True), ("barCopy", 1), ("barSeq", 3), ("transpose", 4, 2)]),
    ([("R", BASE)], [("splitBars", [0], 0, False), ("mkTrk", [1, 2]), ("trkCopy", 3), ("trkBars", 4),
                     ("barTranspose", 5, 40)]),
    # second repair of D37: Bar.copy reads self.sequence.rel first — a bar whose relative view an absolute-level operation left stale
    # is copied (the copy regenerates the relative view of the ORIGINAL), alone and inside a track
    ([("R", BASE)], [("splitBars", [0], 0, False), ("barSeq", 1), ("quantise", 3), ("barCopy", 1), ("readAbs", 3)]),
    ([("R", BASE)], [("splitBars", [0], 0, False), ("barSeq", 2), ("cutoff", 3, 24, 12), ("mkTrk", [1, 2]), ("trkCopy", 4),
                     ("mkCmp", [4, 5]), ("cmpCopy", 6)]),
    ([("R", BASE), ("R", BASE[:4])], [("splitBars", [0, 1], 0, True), ("readAbs", 0)]),
    ([("R", BASE), ("R", BASE[4:])], [("merge", 0, [1]), ("setChannel", 1, 3), ("readRel", 0)]),
    ([("R", BASE)], [("cmpFromSequences", [0], 0), ("cmpCopy", 1), ("cmpTrks", 2), ("trkToSequence", 3),
                     ("setChannel", 4, 9)]),
    ([("R", BASE)], [("newMsg", pm(ON, 1, 0, 70, 90)), ("addAbs", 0, 1), ("newMsg", pm(WAIT, 0, 12)),
                     ("addRel", 0, 2, 0), ("pairings", 0), ("equals", 0, 0), ("pad", 0, 500), ("refresh", 0)]),
    ([("R", BASE)], [("relMsgs", 0), ("overwriteRel", 0, [3, 2, 1]), ("readAbs", 0), ("absMsgs", 0),
                     ("quantiseAndNormalise", 0), ("cutoff", 0, 12, 6), ("scaleUp", 0, 2, True)]),
    ([("R", BASE)], [("scaleDown", 0, 0.5, None, False), ("readAbs", 0)]),
    ([("R", BASE), ("R", [pm(TIMESIG, 0, None, num=3, den=4), pm(WAIT, 0, 144)])],
     [("seqCopy", 0), ("scaleDown", 0, 0.5, 1, True), ("setChannel", 2, 4)]),
]


def random_history(rng):
    """a random history; the operations are chosen while running them on throw-away real objects, so that the
    kinds of the results (number of pieces, bars) are known"""
    specs = [("R", note_seq(rng, rng.randrange(2, 9))) for _ in range(rng.randrange(1, 3))]
    env = [build(s) for s in specs]
    ops = []
    for _ in range(rng.randrange(1, 9)):
        seqs = [i for i, o in enumerate(env) if isinstance(o, Sequence)]
        bars = [i for i, o in enumerate(env) if isinstance(o, Bar)]
        trks = [i for i, o in enumerate(env) if isinstance(o, Track)]
        c = rng.choice(["seqCopy", "split", "splitBars", "setChannel", "transpose", "normalise", "quantise",
                        "quantiseNoteLengths", "concatenate", "merge", "readAbs", "readRel", "pad", "barCopy", "barSeq",
                        "pairings", "quantiseAndNormalise", "mkTrk", "trkCopy", "trkBars", "barsToSequence",
                        "barTranspose", "equals", "refresh", "scaleUp", "cutoff", "relMsgs", "scaleDown"])
        if c in ("barCopy", "barSeq"):
            if not bars:
                continue
            op = (c, rng.choice(bars))
        elif c == "barTranspose":
            if not bars:
                continue
            op = (c, rng.choice(bars), rng.choice([-2, 5, 70]))
        elif c in ("mkTrk", "barsToSequence"):
            if not bars:
                continue
            op = (c, [rng.choice(bars) for _ in range(rng.randrange(1, 3))])
        elif c in ("trkCopy", "trkBars"):
            if not trks:
                continue
            op = (c, rng.choice(trks))
        elif c == "split":
            op = (c, rng.choice(seqs), [rng.choice([12, 24, 48]) for _ in range(rng.randrange(1, 3))])
        elif c == "splitBars":
            op = (c, [rng.choice(seqs) for _ in range(rng.randrange(1, 3))], 0, rng.random() < 0.5)
        elif c == "setChannel":
            op = (c, rng.choice(seqs), rng.randrange(0, 16))
        elif c == "transpose":
            op = (c, rng.choice(seqs), rng.choice([-50, -3, 2, 12, 60]))
        elif c == "pad":
            op = (c, rng.choice(seqs), rng.choice([24, 96, 400]))
        elif c == "scaleUp":
            op = (c, rng.choice(seqs), rng.choice([1, 2, 3]), rng.random() < 0.5)
        elif c == "scaleDown":
            op = (c, rng.choice(seqs), 0.5, rng.choice([None] + seqs), rng.random() < 0.5)
        elif c == "cutoff":
            op = (c, rng.choice(seqs), rng.choice([12, 24]), rng.choice([6, 12]))
        elif c in ("concatenate", "merge"):
            op = (c, rng.choice(seqs), [rng.choice(seqs) for _ in range(rng.randrange(1, 3))])
        elif c == "equals":
            op = (c, rng.choice(seqs), rng.choice(seqs))
        else:
            op = (c, rng.choice(seqs))
        try:
            apply(env, op)
        except Exception:
            break                       # the real operation raised: end the history before it
        ops.append(op)
    return specs, ops


def run_cases(n_random, seed):
    """for ./check C16: compare the fixed scenarios and `n_random` random histories; returns (compared, skipped, mismatches)"""
    rng = random.Random(seed)
    cases = list(FIXED) + [random_history(rng) for _ in range(n_random)]
    reqs, want, kept, skipped = [], [], [], 0
    for specs, ops in cases:
        try:
            r, w_ = scenario(specs, ops)
        except Conflict:
            skipped += 1
            continue
        except Exception:               # the real operation raised for value reasons: outside the identity model
            skipped += 1
            continue
        reqs.append(r)
        want.append(w_)
        kept.append((specs, ops))
    got = ask(reqs) if reqs else []
    bad = []
    if len(got) != len(want):
        bad.append({"op": "heap-history", "request": "*", "implementation": f"{len(want)} answers expected", "model": f"{len(got)} answers", "meta": None})
    for (specs, ops), r, w_, g in zip(kept, reqs, want, got):
        if w_ != g:
            bad.append({"op": "heap-history", "request": r[:2000], "implementation": w_, "model": g, "meta": {"ops": repr(ops)[:1500]}})
    return len(kept), skipped, bad


def main():
    n_random = int(sys.argv[1]) if len(sys.argv) > 1 else 0
    rng = random.Random(16)
    cases = list(FIXED) + [random_history(rng) for _ in range(n_random)]
    reqs, want, kept, skipped = [], [], [], 0
    for specs, ops in cases:
        try:
            r, w_ = scenario(specs, ops)
        except Conflict:
            skipped += 1
            continue
        except Exception as e:          # the real operation raised (value reasons): outside the identity model
            skipped += 1
            if (specs, ops) in FIXED:
                print("fixed scenario raised:", ops, repr(e))
            continue
        reqs.append(r)
        want.append(w_)
        kept.append(ops)
    got = ask(reqs)
    bad = 0
    for ops, w_, g in zip(kept, want, got):
        if w_ != g:
            bad += 1
            print("MISMATCH", ops)
            print("  real :", w_)
            print("  model:", g)
    print(f"{len(kept)} histories compared, {bad} mismatches, {skipped} skipped")
    return 1 if bad else 0


if __name__ == "__main__":
    sys.exit(main())
