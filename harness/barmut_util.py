"""Copy after mutation (audit round 4, D1 / D3): a bar is built from plain data (any `default_channel`), 0-2 public mutators are applied to it IN
PLACE (`bar.sequence.set_channel(c)`, `bar.sequence.transpose(k)`, `Bar.transpose(k)`), then the bar — or the track / composition holding it —
is copied, and the copy is judged against what the bar shows NOW.  Both sides are read through their own views (`<bar>.sequence.rel`), never
through `copy()`.  Shared by harness/props/C10.py (oracle `bar-copy-mut`) and harness/props/C16.py (oracle `copy-after-mutation`).
"""
from oracle_util import *  # noqa
from protocol import from_real
import h2bars_util as U2
import h4seq_util as U4

MUTATORS = ("set_channel", "transpose", "bar_transpose")


def apply_mut(bar, mut):
    """one public mutator on the BAR's own sequence, in place"""
    name, arg = mut[0], mut[1]
    if name == "set_channel":
        bar.sequence.set_channel(arg)
    elif name == "transpose":
        bar.sequence.transpose(arg)
    elif name == "bar_transpose":
        bar.transpose(arg)
    else:
        raise ValueError(name)


def gen_muts(rng, channels=(0,)):
    """0-2 mutators; channels drawn from the bar's own, 0, and two others; intervals small, an octave, and far enough to wrap"""
    out = []
    for _ in range(rng.choice([0, 1, 1, 1, 2, 2])):
        name = rng.choice(MUTATORS)
        if name == "set_channel":
            out.append([name, rng.choice([0, 0, channels[0], channels[-1], 1, 5, 15])])
        else:
            out.append([name, rng.choice([-14, -12, -7, -2, -1, 1, 2, 5, 7, 12, 14, 40, -40, 70, -70])])
    return out


def bar_state(bar):
    """what the bar shows NOW: its three attributes and the content of its sequence read through the bar's own relative view (the `rel`
    property of its own Sequence; nothing is copied)"""
    plain = [from_real(m) for m in bar.sequence.rel._messages]
    return {"attrs": (bar.time_signature_numerator, bar.time_signature_denominator, bar.key_signature),
            "content": U4.content_rel(plain), "plain": plain}


def unpaired(plain):
    """the (channel, pitch) keys whose note-ons / note-offs do not alternate in the plain relative list (harness-side, from the data only)"""
    return sorted({(k[0], k[1]) for (_, k, _) in wf_violations(rel_timed(plain)[0])})


def judge_copy(where, before, after, cpy, clause="copy-mut"):
    """`before` / `after`: bar_state of the ORIGINAL before and after the copy was taken; `cpy`: the copied Bar.  Returns clause failures."""
    fails = []
    got_attrs = (cpy.time_signature_numerator, cpy.time_signature_denominator, cpy.key_signature)
    if got_attrs != before["attrs"]:
        fails.append((clause, U2.Detail(f"{where}: the copy's signature / key attributes are {got_attrs}, the bar's {before['attrs']}", attrs=True)))
    got = U4.content_rel([from_real(m) for m in cpy.sequence.rel._messages])
    exp = before["content"]
    if got != exp:
        only_bar = [list(x) for x in exp[0] if x not in got[0]]
        only_copy = [list(x) for x in got[0] if x not in exp[0]]
        fails.append((clause, U2.Detail(
            f"{where}: the copy does not show the bar's CURRENT content: only in the bar {only_bar[:3]}, only in the copy {only_copy[:3]}, "
            f"durations {exp[1]} / {got[1]}", only_bar=only_bar, only_copy=only_copy, durs=(exp[1], got[1]),
            unpaired=[list(k) for k in unpaired(before["plain"])])))
    if after is not None and (after["attrs"], after["content"]) != (before["attrs"], before["content"]):
        fails.append((clause, U2.Detail(f"{where}: taking the copy changed the ORIGINAL bar's attributes or content", original_changed=True)))
    return fails


def is_merge_outcome(f):
    """the OUTCOME of finding D44, from the facts stored with the failure: the bar's current content (plain data recorded before the copy was
    taken) holds (channel, pitch) keys whose note-ons / note-offs do not alternate; attributes and duration agree; and every event that bar and
    copy do not share is a note-on / note-off of such a key"""
    d = U2.data_of(f)
    if "only_bar" not in d or not d.get("unpaired") or d["durs"][0] != d["durs"][1]:
        return False
    keys = {tuple(k) for k in d["unpaired"]}
    # an event is (tick, type, channel, note, velocity, ...) — h4seq_util.events / strip
    return all(e[1] in (ON, OFF) and (e[2], e[3]) in keys for e in d["only_bar"] + d["only_copy"])


def is_requantised_outcome(d, cap):
    """the OUTCOME of finding D45, from the facts stored with the failure (`d` = its data, `cap` = the bar's capacity in ticks from the input's
    signature): the bar's own content read before the copy is longer than the capacity and copy() raised BarException, or it is shorter, the
    copy lasts exactly the capacity and holds exactly the bar's events"""
    if d.get("raised") == "BarException":
        return d.get("dur", 0) > cap
    if "durs" in d:
        return d["durs"][0] < cap and d["durs"][1] == cap and d["only_bar"] == [] and d["only_copy"] == []
    return False
