"""Independent judges used when searching the real implementation for a failing input.
Everything here works on *plain messages* (10-tuples read off the real objects) and is
deliberately written without using any scoda pairing / conversion code."""
from protocol import from_real, INTERNAL, KEYSIG, TIMESIG, CC, PC, OFF, ON, WAIT

TY, CH, TIME, NOTE, VEL, CTL, PROG, NUM, DEN, KEY = range(10)


def plain_abs(seq):
    """plain messages of a real Sequence's absolute view"""
    return [from_real(m) for m in seq.abs._messages]


def plain_rel(seq):
    return [from_real(m) for m in seq.rel._messages]


def rel_timed(rel):
    """relative plain messages -> (list of (tick, msg) for non-wait messages, total duration)"""
    t = 0
    out = []
    for m in rel:
        if m[TY] == WAIT:
            t += m[TIME]
        else:
            out.append((t, m))
    return out, t


def abs_timed(a):
    """absolute plain messages -> (list of (tick, msg) for non-internal messages, duration)"""
    out = [(m[TIME], m) for m in a if m[TY] != INTERNAL]
    dur = max([m[TIME] for m in a], default=0)
    return out, dur


def is_int(x):
    return isinstance(x, int) and not isinstance(x, bool)


def all_int_times(msgs):
    return all(m[TIME] is None or is_int(m[TIME]) for m in msgs)


def intervals(timed, order_matters=True):
    """Sounding intervals per (channel, pitch) from timed note events, by a saturating depth
    counter: +1 at note-on, -1 (floor 0) at note-off.  `timed` must be in sequence order.
    Returns dict key -> list of [start, end) with end None if still sounding at the end."""
    depth = {}
    start = {}
    out = {}
    for t, m in timed:
        if m[TY] == ON:
            k = (m[CH], m[NOTE])
            d = depth.get(k, 0)
            if d == 0:
                start[k] = t
            depth[k] = d + 1
        elif m[TY] == OFF:
            k = (m[CH], m[NOTE])
            d = depth.get(k, 0)
            if d == 1:
                out.setdefault(k, []).append((start.pop(k), t))
            if d > 0:
                depth[k] = d - 1
    for k, s in start.items():
        out.setdefault(k, []).append((s, None))
    return out


def norm_intervals(iv):
    """merge touching/overlapping intervals and drop empty ones -> canonical sounding set"""
    out = {}
    for k, lst in iv.items():
        lst = sorted((s, e) for s, e in lst if e is None or e > s)
        merged = []
        for s, e in lst:
            if merged and (merged[-1][1] is None or s <= merged[-1][1]):
                ps, pe = merged[-1]
                merged[-1] = (ps, None if (pe is None or e is None) else max(pe, e))
            else:
                merged.append((s, e))
        if merged:
            out[k] = merged
    return out


def sounding(timed):
    return norm_intervals(intervals(timed))


def wf_violations(timed):
    """per key: note events must strictly alternate on/off, start with on, end with off"""
    state = {}
    bad = []
    for t, m in timed:
        if m[TY] == ON:
            k = (m[CH], m[NOTE])
            if state.get(k, False):
                bad.append(("retrigger", k, t))
            state[k] = True
        elif m[TY] == OFF:
            k = (m[CH], m[NOTE])
            if not state.get(k, False):
                bad.append(("orphan-off", k, t))
            state[k] = False
    for k, v in state.items():
        if v:
            bad.append(("unclosed", k, None))
    return bad


def notes_of(timed):
    """well-formed timed events -> sorted list of (ch, pitch, on, off, vel); pairs each on with the
    next off of the same key"""
    open_ = {}
    out = []
    for t, m in timed:
        if m[TY] == ON:
            open_[(m[CH], m[NOTE])] = (t, m[VEL])
        elif m[TY] == OFF:
            k = (m[CH], m[NOTE])
            if k in open_:
                s, v = open_.pop(k)
                out.append((k[0], k[1], s, t, v))
    return sorted(out, key=lambda x: tuple(-1 if y is None else y for y in x))


def non_note(timed):
    """(tick, type, payload) of non-note, non-wait, non-internal events, sorted"""
    out = []
    for t, m in timed:
        if m[TY] not in (ON, OFF, WAIT, INTERNAL):
            out.append((t, m[TY], m[CH]) + tuple(-1 if x is None else x for x in m[VEL:]))
    return sorted(out)


def non_note_nochan(timed):
    out = []
    for t, m in timed:
        if m[TY] not in (ON, OFF, WAIT, INTERNAL):
            out.append((t, m[TY]) + tuple(-1 if x is None else x for x in m[VEL:]))
    return sorted(out)


def sig_in_force(timed, ty, default):
    """list of (tick, value) change points of the signature of type `ty` in force"""
    cur = default
    pts = []
    for t, m in sorted(((t, m) for t, m in timed if m[TY] == ty), key=lambda x: x[0]):
        v = (m[NUM], m[DEN]) if ty == TIMESIG else m[KEY]
        pts.append((t, v))
    # collapse: value in force at each tick = last event at or before (later events at same tick win)
    force = {}
    for t, v in pts:
        force[t] = v
    out = []
    for t in sorted(force):
        if force[t] != cur:
            out.append((t, force[t]))
            cur = force[t]
    return out
