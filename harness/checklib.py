"""Shared machinery of `./check <id>`: regenerate + build + audit the Lean side, run the
correspondence and the oracle search, classify the outcome, write evidence (DESIGN §2.5)."""
import fcntl
import hashlib
import json
import os
import re
import shutil
import subprocess
import sys
import tempfile
import time

VERIF = os.path.dirname(os.path.dirname(os.path.abspath(__file__)))
LEAN_DIR = os.path.join(VERIF, "lean")
EVID_DIR = os.path.join(VERIF, "evidence")
REPLAY_DIR = os.path.join(EVID_DIR, "replay")
LOCK = os.path.join(VERIF, ".lock")
ALLOWED_AXIOMS = {"propext", "Classical.choice", "Quot.sound"}
FORBIDDEN = re.compile(r"\bsorry\b|\badmit\b|^\s*(private\s+|protected\s+)?axiom\s|native_decide|bv_decide|implemented_by|\bunsafe\s|maxHeartbeats\s+0\b|sorryAx"
                       r"|^\s*(private\s+|protected\s+)?opaque\s|\bpartial\s+def\b|@\[extern|skipKernelTC|\bextern\s+\"")

TRUSTED_BASE = [
    "Lean 4.33.0 kernel; every cited name must be a theorem with axioms within {propext, Classical.choice, Quot.sound} (audited per run); forbidden-construct grep; "
    "thorough tier: leanchecker replays every SCoda module the property's modules import",
    "the translators tools/py2lean*.py (wrap, view, elem, rel2, static, tok, abs2, util, heap, heap2, heap3, sort) and tools/gen_lean.py — everything under lean/SCoda/Gen is regenerated from "
    "/repo on every run; their conventions (a sequence object is its message list or a list of references into a heap of message objects; None = -1; int unbounded; "
    "a float is an exact rational, IEEE rounding not modelled; dicts as insertion-ordered association lists; iterators run to their end; proved fuel for while loops; "
    "logger calls dropped; exception classes the properties never distinguish share a constructor)",
    "tools/conventions.py + tools/conventions_baseline.json: special methods, class-level and module-level statements, every import, every signature with its default "
    "expressions, the bodies of linked and of untranslated methods, shadowing of imported modules and the settings values are fingerprinted and compared with the recorded "
    "baseline on every run (what the translators do not translate); harness/livecode.py: every function live in the imported package equals the one compiled from the source "
    "text (no import-time rebinding); trusted: that the baseline source means what the link tables say",
    "link tables Model/ViewLib, ElemLib, StaticLib, TokLib, TokLib2, UtilLib, SortLib, MidoCodec, HeapLib, HeapLib2 (hand-written Lean for Python called by name or for "
    "Python language features; most entries are proved equal to their translation: DESIGN 9.2e lists the exceptions: CPython's list.sort being a stable comparison sort, mido_open, "
    "int(str)/split/zfill, set/sorted on ints, numpy.digitize, the five view-level identity links of HeapLib); effects of a callee on its non-receiver arguments are dropped; "
    "scoda/config/default_settings.json is an input of the proofs",
    "mido's file codec (written messages are read back as written), sampled by the C12/C13 oracles through real files",
    "harness/protocol.py + lean/Driver.lean + lean/HeapDriver.lean + harness/heap_corr.py (canonical printing/parsing on both sides of the correspondence); the property "
    "oracles, the known-finding predicates (decide KNOWN-FINDING vs VIOLATION) and the oracles' domain skips (counted in `distribution`)",
    "hand-written Lean models of functions that are NOT translated (docs/translation_coverage.md: the __eq__ wrappers, read-only pairing wrappers, save/from_midi_file "
    "glue) are tied to the code only by the sampled correspondence; translated functions are proved equal to their hand models on every run",
]


class Lock:
    def __init__(self, exclusive=True):
        self.exclusive = exclusive

    def __enter__(self):
        self.f = open(LOCK, "w")
        fcntl.flock(self.f, fcntl.LOCK_EX if self.exclusive else fcntl.LOCK_SH)
        return self

    def __exit__(self, *a):
        fcntl.flock(self.f, fcntl.LOCK_UN)
        self.f.close()


def strip_comments(src):
    """remove Lean block comments (nested) and line comments"""
    out = []
    i, depth = 0, 0
    n = len(src)
    while i < n:
        if src.startswith("/-", i):
            depth += 1
            i += 2
        elif depth and src.startswith("-/", i):
            depth -= 1
            i += 2
        elif depth:
            i += 1
        elif src.startswith("--", i):
            while i < n and src[i] != "\n":
                i += 1
        else:
            out.append(src[i])
            i += 1
    return "".join(out)


def grep_forbidden():
    hits = []
    for root, _, files in os.walk(LEAN_DIR):
        if ".lake" in root:
            continue
        for fn in files:
            if fn.endswith(".lean"):
                path = os.path.join(root, fn)
                body = strip_comments(open(path).read())
                # string literals may mention the words (e.g. in messages); drop them
                body = re.sub(r'"(?:[^"\\]|\\.)*"', '""', body)
                is_driver = os.path.dirname(path) == LEAN_DIR      # Driver.lean / HeapDriver.lean: IO loops outside the library; no theorem imports them
                for ln, line in enumerate(body.split("\n"), 1):
                    if is_driver and re.search(r"\bpartial\s+def\b", line) and not re.search(r"sorry|axiom|native_decide", line):
                        continue
                    if FORBIDDEN.search(line):
                        hits.append(f"{os.path.relpath(path, VERIF)}:{ln}: {line.strip()[:120]}")
    return hits


def run_gen():
    p = subprocess.run(["/venv/bin/python", os.path.join(VERIF, "tools", "gen_lean.py")],
                       capture_output=True, text=True, cwd=VERIF)
    try:
        rep = json.loads(p.stdout[p.stdout.index("{"):])
    except Exception:
        rep = {"files": {}, "errors": [{"file": "*", "error": (p.stderr or p.stdout)[-1500:]}]}
    return rep


# link tables (hand-written Lean standing for Python called by name) and the modules that PROVE their entries equal to the translated
# source: a property whose theorems go through a link table depends on those proofs too, whether or not it cites them (round 8: an edit of
# normalise_relative broke RelTie2 only, and C10 — Bar.__init__ calls normalise through the wrapper link — did not notice)
LINK_PROOFS = {
    "SCoda.Model.ViewLib": ["SCoda.Props.ViewTie", "SCoda.Props.RelTie2", "SCoda.Props.AbsTie2", "SCoda.Props.SortTie"],
    "SCoda.Model.ElemLib": ["SCoda.Props.ElemTie", "SCoda.Props.StaticTie", "SCoda.Props.StaticLink", "SCoda.Props.WrapTie"],
    "SCoda.Model.StaticLib": ["SCoda.Props.StaticLink", "SCoda.Props.ViewTie", "SCoda.Props.WrapTie"],
    "SCoda.Model.TokLib": ["SCoda.Props.UtilTie", "SCoda.Props.AbsTie2", "SCoda.Props.RelTie2", "SCoda.Props.ViewTie", "SCoda.Props.SortTie"],
    "SCoda.Model.Wrapper": ["SCoda.Props.WrapTie"],
    "SCoda.Model.HeapLib": ["SCoda.Props.HeapTie", "SCoda.Props.HeapTie2", "SCoda.Props.HeapTie3", "SCoda.Props.HeapTieB"],
    "SCoda.Model.TokLib3": ["SCoda.Props.TokTie3", "SCoda.Props.UtilTie"],
}


def link_proof_modules(modules):
    """the tie modules that discharge the link tables the given modules import (transitively), beyond the given ones"""
    out, todo, seen = [], list(modules), set()
    while todo:
        clo = import_closure(todo, extra_files=())
        todo = []
        for table, proofs in LINK_PROOFS.items():
            if table in clo and table not in seen:
                seen.add(table)
                for m in proofs:
                    if m not in modules and m not in out and os.path.exists(os.path.join(LEAN_DIR, *m.split(".")) + ".lean"):
                        out.append(m)
                        todo.append(m)
    return out


def import_closure(modules, extra_files=("Driver.lean",)):
    """all SCoda.* modules the given modules (and the driver) import, transitively — what a property's check depends on"""
    seen = set()
    todo = list(modules)
    for f in extra_files:
        try:
            todo += re.findall(r"^import (SCoda\.\S+)", open(os.path.join(LEAN_DIR, f)).read(), flags=re.M)
        except OSError:
            pass
    while todo:
        m = todo.pop()
        if m in seen:
            continue
        seen.add(m)
        path = os.path.join(LEAN_DIR, *m.split(".")) + ".lean"
        try:
            todo += re.findall(r"^import (SCoda\.\S+)", open(path).read(), flags=re.M)
        except OSError:
            pass
    return seen


def lake_build(targets, clean=False):
    """returns (ok, output)"""
    if clean:
        for t in targets:
            rel = t.replace(".", "/")
            for ext in (".olean", ".ilean", ".trace", ".olean.hash", ".ilean.hash"):
                p = os.path.join(LEAN_DIR, ".lake", "build", "lib", "lean", rel + ext)
                if os.path.exists(p):
                    os.unlink(p)
    p = subprocess.run(["lake", "build"] + targets, cwd=LEAN_DIR, capture_output=True, text=True)
    return p.returncode == 0, (p.stdout + p.stderr)


def audit_axioms(modules, theorems):
    """returns dict theorem -> {'ok': bool, 'axioms': [...], 'error': str}"""
    res = {}
    if not theorems:
        return res
    d = os.path.join(LEAN_DIR, ".lake", "audit")
    os.makedirs(d, exist_ok=True)
    if isinstance(modules, str):
        modules = [modules]
    path = os.path.join(d, f"Audit_{modules[0].replace('.', '_')}_{os.getpid()}.lean")
    with open(path, "w") as f:
        f.write("import Lean\n")
        for module in modules:
            f.write(f"import {module}\n")
        # a cited name must be a THEOREM: `#print axioms` answers for definitions too (an unproved `def …_statement : Prop` would pass)
        f.write("open Lean Elab Command in\nelab \"#kind \" id:ident : command => do\n  let n := id.getId\n"
                "  match (← getEnv).find? n with\n  | some (.thmInfo _) => logInfo m!\"KIND {n} theorem\"\n"
                "  | some _ => logInfo m!\"KIND {n} not-a-theorem\"\n  | none => logInfo m!\"KIND {n} missing\"\n")
        for t in theorems:
            f.write(f"#print axioms {t}\n#kind {t}\n")
    p = subprocess.run(["lake", "env", "lean", path], cwd=LEAN_DIR, capture_output=True, text=True)
    os.unlink(path)
    out = p.stdout + p.stderr
    # `'X' depends on axioms: [a, b]` / `'X' does not depend on any axioms`; messages may wrap lines
    flat = re.sub(r"\s+", " ", out)
    for t in theorems:
        m = re.search(r"'" + re.escape(t) + r"' depends on axioms: \[([^\]]*)\]", flat)
        if m:
            axs = [a.strip() for a in m.group(1).split(",") if a.strip()]
            res[t] = {"ok": set(axs) <= ALLOWED_AXIOMS, "axioms": axs}
        elif re.search(r"'" + re.escape(t) + r"' does not depend on any axioms", flat):
            res[t] = {"ok": True, "axioms": []}
        else:
            res[t] = {"ok": False, "axioms": [], "error": "theorem not found or audit failed: " + flat[-300:]}
            continue
        k = re.search(r"KIND " + re.escape(t) + r" (theorem|not-a-theorem|missing)(?![\w'])", flat)
        if not k or k.group(1) != "theorem":
            res[t] = {"ok": False, "axioms": res[t]["axioms"], "error": f"{t} is not a theorem ({k.group(1) if k else 'kind unknown'}): a definition proves nothing"}
        elif t.endswith("_statement"):
            res[t] = {"ok": False, "axioms": res[t]["axioms"], "error": f"{t}: a name ending in _statement is a statement, not its proof"}
    return res


def leanchecker(modules):
    """independent replay of the compiled declarations of EVERY SCoda module the given modules import (models, generated files, lemma
    files and unlisted property files included), not only of the listed ones; returns (ok, output tail, modules checked)"""
    mods = sorted(import_closure(modules, extra_files=()))
    p = subprocess.run(["lake", "env", "leanchecker"] + mods, cwd=LEAN_DIR, capture_output=True, text=True)
    return p.returncode == 0, (p.stdout + p.stderr)[-2000:], mods


# ----------------------------------------------------------------------------- shrinking

def _paths(x, path=()):
    if isinstance(x, list):
        yield path, x
        for i, y in enumerate(x):
            yield from _paths(y, path + (i,))
    elif isinstance(x, dict):
        for k in sorted(x):
            yield from _paths(x[k], path + (k,))
    elif isinstance(x, tuple):
        for i, y in enumerate(x):
            yield from _paths(y, path + (i,))


def _get(x, path):
    for p in path:
        x = x[p]
    return x


def _set(x, path, v):
    if not path:
        return v
    if isinstance(x, list):
        y = list(x)
        y[path[0]] = _set(x[path[0]], path[1:], v)
        return y
    if isinstance(x, tuple):
        y = list(x)
        y[path[0]] = _set(x[path[0]], path[1:], v)
        return tuple(y)
    y = dict(x)
    y[path[0]] = _set(x[path[0]], path[1:], v)
    return y


def shrink(inp, still_fails, budget=400):
    """greedy structural shrink of a JSON-like input: drop list elements, move ints toward 0"""
    cur = inp
    evals = 0
    progress = True
    while progress and evals < budget:
        progress = False
        for path, lst in list(_paths(cur)):
            try:
                lst = _get(cur, path)
            except (KeyError, IndexError, TypeError):
                continue
            if not isinstance(lst, list):
                continue
            i = 0
            while i < len(lst) and evals < budget:
                cand = _set(cur, path, lst[:i] + lst[i + 1:])
                evals += 1
                ok = False
                try:
                    ok = still_fails(cand)
                except Exception:
                    ok = False
                if ok:
                    cur = cand
                    lst = _get(cur, path)
                    progress = True
                else:
                    i += 1
    return cur


def summarise_coverage(cov, prop):
    """what this run's inputs executed in the files the property is anchored in (properties.jsonl `anchors.files`): per function that was
    entered at all, its executable statements and the line numbers never executed — the honest bound on what the correspondence and the
    oracle search could see"""
    import ast
    anchors = []
    try:
        with open(os.path.join(VERIF, "properties.jsonl")) as f:
            for line in f:
                rec = json.loads(line)
                if rec["id"] == prop:
                    anchors = rec.get("anchors", {}).get("files", [])
    except Exception:
        pass
    data = cov.get_data()
    out = {"anchor_files": anchors, "functions": {}, "summary": {}}
    tot_s = tot_m = 0
    for fn in sorted(data.measured_files()):
        rel = fn[fn.index("scoda"):] if "scoda" in fn else fn
        if anchors and rel not in anchors:
            continue
        try:
            _, statements, _, missing, _ = cov.analysis2(fn)
        except Exception:
            continue
        st, ms = set(statements), set(missing)
        tree = ast.parse(open(fn).read())
        for node in ast.walk(tree):
            if isinstance(node, (ast.FunctionDef, ast.AsyncFunctionDef)):
                body_lines = [ln for ln in st if node.body[0].lineno <= ln <= node.end_lineno]
                if not body_lines:
                    continue
                miss = sorted(ln for ln in body_lines if ln in ms)
                if len(miss) == len(body_lines):
                    continue                    # never entered by this property's inputs
                out["functions"][f"{rel}:{node.name}"] = {"statements": len(body_lines), "never_executed_lines": miss[:40]}
                tot_s += len(body_lines)
                tot_m += len(miss)
    out["summary"] = {"functions_entered": len(out["functions"]), "statements_in_them": tot_s, "never_executed": tot_m,
                      "pct_executed": round(100.0 * (tot_s - tot_m) / tot_s, 1) if tot_s else None}
    return out


# ----------------------------------------------------------------------------- context

class Ctx:
    def __init__(self, prop, tier, seed):
        import random
        self.prop = prop
        self.tier = tier
        self.seed = seed
        self.rng = random.Random((seed * 1000003) ^ int(hashlib.sha256(prop.encode()).hexdigest()[:8], 16))
        self.thorough = tier == "thorough"
        from protocol import LeanDriver
        self.driver = LeanDriver()
        self.corr_cases = []          # (op name, words, python answer, post, meta)
        self.failures = []            # oracle failures on the real implementation
        self.known_hits = {}          # finding id -> description
        self.dist = {}
        self.samples = []
        self.evaluations = 0
        self.hashes = set()
        self.nontrivial_hashes = set()
        self.scratch = tempfile.mkdtemp(prefix="scoda_verif_")
        self.oracles = {}
        self.kf_predicates = {}
        self.notes = []

    def close(self):
        shutil.rmtree(self.scratch, ignore_errors=True)

    def n(self, quick, thorough):
        return thorough if self.thorough else quick

    def count(self, key, k=1):
        self.dist[key] = self.dist.get(key, 0) + k

    def sample(self, obj, limit=4):
        if len(self.samples) < limit:
            self.samples.append(obj)

    def case(self, canonical, nontrivial):
        """register one generated case for the evidence counters"""
        self.evaluations += 1
        h = hashlib.sha256(json.dumps(canonical, sort_keys=True, default=str).encode()).hexdigest()
        self.hashes.add(h)
        if nontrivial:
            self.nontrivial_hashes.add(h)

    def corr(self, name, res, post=None, meta=None):
        words, py = res
        self.driver.add(words)
        self.corr_cases.append((name, words, py, post, meta))
        self.count("corr:" + name)

    def oracle(self, name, fn):
        self.oracles[name] = fn

    def check(self, name, inp):
        """run oracle `name` on JSON-like input `inp`; it returns a list of (clause, detail)"""
        self.count("oracle:" + name)
        # oracles that declare themselves history-sensitive get the previous input of the same oracle as "before" (unless the
        # caller supplied one): the oracle re-enacts it first, so whatever state leaked from it is part of the replayable input
        if name in getattr(self, "history_oracles", ()) and isinstance(inp, dict):
            last = self.__dict__.setdefault("_last_input", {})
            mine = {k: v for k, v in inp.items() if k != "before"}
            if "before" not in inp and name in last:
                inp = dict(inp, before=[last[name]])
            last[name] = mine
            self.__dict__.setdefault("_history", {}).setdefault(name, []).append(mine)
        try:
            fails = self.oracles[name](inp)
        except Exception as e:
            import traceback
            frames = traceback.extract_tb(e.__traceback__)
            repo = os.environ.get("SCODA_REPO", "/repo")
            if frames and os.path.abspath(frames[-1].filename).startswith(os.path.abspath(repo) + os.sep):
                # raised *inside the implementation* and not anticipated by the oracle: the operation failed on an input of
                # the property's domain — a failure of the property, reported with this input
                where = f"{os.path.relpath(frames[-1].filename, repo)}:{frames[-1].lineno}"
                fails = [("raises-unexpected", f"{type(e).__name__}: {e} (raised at {where})")]
            else:           # an oracle crash in harness code is a harness bug, surface it loudly
                raise RuntimeError(f"oracle {name} crashed on {json.dumps(inp, default=str)[:500]}: {type(e).__name__}: {e}") from e
        real = []
        for clause, detail in fails or []:
            if clause.startswith("~"):          # informational: hypothesis of the property not met, etc.
                self.count(f"oracle:{name}:{clause[1:]}")
                continue
            real.append((clause, detail))
            self.failures.append({"oracle": name, "clause": clause, "detail": detail, "input": inp})
        if not real and not (fails and all(c.startswith("~") for c, _ in fails)):
            self.count(f"oracle:{name}:judged-ok")
        return real


def classify_and_report(ctx, known_findings):
    """split oracle failures into known findings and violations; shrink violations"""
    violations = []
    for f in ctx.failures:
        matched = None
        for kf in known_findings:
            if kf.get("status") != "open" or kf["property"] != ctx.prop:
                continue
            pred = ctx.kf_predicates.get(kf["id"])
            if pred is not None and pred(f):
                matched = kf
                break
        if matched:
            ctx.known_hits[matched["id"]] = matched["what"]
            ctx.count(f"known:{matched['id']}:{f['clause']}")
        else:
            violations.append(f)
    return violations


def shrink_failure(ctx, f, known_findings):
    name, clause = f["oracle"], f["clause"]

    def still(inp):
        fails = [x for x in (ctx.oracles[name](inp) or []) if not x[0].startswith("~")]
        for c, d in fails:
            if c == clause:
                g = {"oracle": name, "clause": c, "detail": d, "input": inp}
                # must not drift into a known finding
                for kf in known_findings:
                    pred = ctx.kf_predicates.get(kf["id"])
                    if kf.get("status") == "open" and kf["property"] == ctx.prop and pred and pred(g):
                        return False
                return True
        return False
    # keys that describe the history of the process ("before": what was constructed earlier) are not shrunk: the shrinker
    # runs in a process whose state is already what that history produced, so it would always find them dispensable
    frozen = {k: v for k, v in f["input"].items() if k == "before"} if isinstance(f["input"], dict) else {}
    if frozen:
        rest = {k: v for k, v in f["input"].items() if k not in frozen}
        small = dict(shrink(rest, lambda r: still({**r, **frozen})), **frozen)
    else:
        small = shrink(f["input"], still)
    fails = [x for x in (ctx.oracles[name](small) or []) if x[0] == clause]
    return {"oracle": name, "clause": clause, "detail": fails[0][1] if fails else f["detail"], "input": small,
            "original_input": f["input"]}


def reproduces_fresh(prop, oracle, inp):
    """does the oracle fail on this input in a *fresh* process?  (inputs of history-sensitive oracles may fail only
    because of what ran earlier in this process)"""
    import subprocess
    import tempfile
    fd, path = tempfile.mkstemp(suffix=".json", prefix="fresh_", dir=REPLAY_DIR)
    try:
        with os.fdopen(fd, "w") as f:
            json.dump({"property": prop, "kind": "oracle", "oracle": oracle, "input": inp}, f, default=str)
        r = subprocess.run([os.path.join(VERIF, "check"), prop, "--replay", path, "--no-build"], capture_output=True, text=True,
                           cwd=VERIF, timeout=600)
        return r.returncode == 1 and "VIOLATION" in r.stdout
    except Exception:
        return True          # cannot tell: keep what we have
    finally:
        if os.path.exists(path):
            os.unlink(path)


def settle_replay_input(ctx, shrunk):
    """pick the input to store in the replay file: the shrunk one if it fails in a fresh process, else the original, else
    the original preceded by the whole history of that oracle in this run"""
    name = shrunk["oracle"]
    if name not in getattr(ctx, "history_oracles", ()):
        return shrunk
    os.makedirs(REPLAY_DIR, exist_ok=True)
    if reproduces_fresh(ctx.prop, name, shrunk["input"]):
        return shrunk
    orig = shrunk["original_input"]
    if reproduces_fresh(ctx.prop, name, orig):
        return dict(shrunk, input=orig, note="the shrunk input failed only in the searching process; the original is stored")
    hist = ctx.__dict__.get("_history", {}).get(name, [])
    core = {k: v for k, v in orig.items() if k != "before"}
    idx = max((i for i, h in enumerate(hist) if h == core), default=len(hist))
    full = dict(core, before=hist[:idx])
    return dict(shrunk, input=full, note="stored with the whole history of this oracle in the run (the failure depends on "
                                        "state accumulated over earlier calls)")


def write_replay(prop, kind, payload):
    os.makedirs(REPLAY_DIR, exist_ok=True)
    path = os.path.join(REPLAY_DIR, f"{prop}_{kind}_{int(time.time())}_{os.getpid()}.json")
    with open(path, "w") as f:
        json.dump({"property": prop, "kind": kind, **payload}, f, indent=1, default=str)
    return path


def repo_provenance(no_build=False):
    """which source tree this run judged: path, commit, whether the work tree differs from the commit, and whether Lean was skipped"""
    repo = os.environ.get("SCODA_REPO", "/repo")

    def git(*a):
        try:
            return subprocess.run(["git", "-C", repo] + list(a), capture_output=True, text=True, timeout=30).stdout.strip()
        except Exception:
            return ""
    return {"repo_path": repo, "repo_head": git("rev-parse", "HEAD"), "repo_dirty": bool(git("status", "--porcelain", "--", "scoda")),
            "no_build": bool(no_build)}


def write_evidence(prop, tier, seed, level, coverage, wall, violations, assumptions, no_build=False):
    """evidence/<id>.json describes a complete run (Lean build and audit included) against /repo.  Development runs — another source
    tree through SCODA_REPO (seeded changes, reverted fixes) or `--no-build` — are written to evidence/scratch/ instead, so that the
    committed evidence is never the record of a mutant or of a run without its proof obligations (audit round 3, M2)."""
    prov = repo_provenance(no_build)
    coverage = dict(coverage, provenance=prov)
    official = os.path.realpath(prov["repo_path"]) == os.path.realpath("/repo") and not no_build
    d = EVID_DIR if official else os.path.join(EVID_DIR, "scratch")
    os.makedirs(d, exist_ok=True)
    ev = {"property_id": prop, "tier": tier, "seed": seed, "level": level, "coverage": coverage,
          "assumptions": assumptions, "wall_s": round(wall, 2), "violations": violations}
    tmp = os.path.join(d, f".{prop}.{os.getpid()}.tmp")
    with open(tmp, "w") as f:
        json.dump(ev, f, indent=1, default=str)
    os.replace(tmp, os.path.join(d, f"{prop}.json"))
