"""Harness-side helpers of the MIDI / transposition / equality properties (C12-C15, C17), written from the MIDI file format and
from elementary music theory — nothing here reads a table or a conversion of the library under test.

MIDO_KEYS: the 30 key names a MIDI key-signature meta event can carry (7 flats .. 7 sharps, major or minor), as mido spells them:
    name -> (accidentals: > 0 sharps, < 0 flats; is_minor; NAME of the `Key` enum member the library has to load).
The library's `Key` has the fifteen MAJOR keys only, so a minor key loads as its relative major: the key with the same accidentals.
"""

# circle of fifths, from music theory: major tonics by number of sharps (0..7) and of flats (1..7), and the relative minors
# (a minor third below the major tonic, same accidentals)
_SHARP_MAJORS = ["C", "G", "D", "A", "E", "B", "F#", "C#"]
_FLAT_MAJORS = ["F", "Bb", "Eb", "Ab", "Db", "Gb", "Cb"]
_SHARP_MINORS = ["Am", "Em", "Bm", "F#m", "C#m", "G#m", "D#m", "A#m"]
_FLAT_MINORS = ["Dm", "Gm", "Cm", "Fm", "Bbm", "Ebm", "Abm"]


def _member(major_name):
    """`Key` member NAME for a major key name: C# -> C_S, Bb -> B_B"""
    return major_name.replace("#", "_S") if "#" in major_name else (major_name[0] + "_B" if major_name.endswith("b") else major_name)


MIDO_KEYS = {}
for _n, (_maj, _min) in enumerate(zip(_SHARP_MAJORS, _SHARP_MINORS)):
    MIDO_KEYS[_maj] = (_n, False, _member(_maj))
    MIDO_KEYS[_min] = (_n, True, _member(_maj))
for _n, (_maj, _min) in enumerate(zip(_FLAT_MAJORS, _FLAT_MINORS), start=1):
    MIDO_KEYS[_maj] = (-_n, False, _member(_maj))
    MIDO_KEYS[_min] = (-_n, True, _member(_maj))
assert len(MIDO_KEYS) == 30

# pitch class of every note letter; a key name's tonic is letter + accidental
_LETTER_PC = {"C": 0, "D": 2, "E": 4, "F": 5, "G": 7, "A": 9, "B": 11}


def name_tonic(name):
    """pitch class of the tonic named by a key name such as 'F#', 'Bbm'"""
    root = name[:-1] if name.endswith("m") else name
    pc = _LETTER_PC[root[0]]
    for acc in root[1:]:
        pc += 1 if acc == "#" else -1
    return pc % 12


# independent cross-check of the table against itself: a major key with n sharps has its tonic n fifths above C (n flats: below),
# and the relative minor's tonic lies three semitones below
for _name, (_acc, _minor, _mem) in MIDO_KEYS.items():
    assert name_tonic(_name) == (7 * _acc - (3 if _minor else 0)) % 12, _name

# tonic pitch class of each of the library's fifteen `Key` members, by member NAME (from the member's meaning, not from KeyNoteMapping)
KEY_MEMBER_TONIC = {mem: (7 * acc) % 12 for (acc, minor, mem) in MIDO_KEYS.values() if not minor}
assert len(KEY_MEMBER_TONIC) == 15


def expected_key_index(name, key_idx_by_member):
    """index (in the harness's enumeration of `Key`) of the key a key-signature event named `name` has to load as; None for a name
    that is no MIDI key"""
    if name not in MIDO_KEYS:
        return None
    return key_idx_by_member[MIDO_KEYS[name][2]]


def key_index_by_member():
    """member name -> index of that member in protocol.KEYS (the enum's members looked up by NAME, nothing else)"""
    from protocol import KEYS
    return {k.name: i for i, k in enumerate(KEYS)}


def tonic_of_index(i):
    """tonic pitch class of protocol.KEYS[i], from the member's name"""
    from protocol import KEYS
    return KEY_MEMBER_TONIC[KEYS[i].name]


# ----------------------------------------------------------------------------- signatures on one tick (audit 3, O10)
# When several signature events of one kind sit on ONE tick (the normal case: every saved track starts with a time signature at tick 0)
# the texts of C12 / C15 do not say which of them comes last.  What they do say is judged: the value in force from that tick on is one of
# the values given for that tick (the only one when they agree), nothing changes on a tick without an event, and (C15) the events kept
# are those that do not repeat the one in force, for SOME order of the events of each tick.

def in_force_violation(events, got):
    """events: [(tick, value)] — everything given, any order; got: change points [(tick, value)] of the value in force read off the result
    (tick-sorted, consecutive values different).  Returns None when `got` is an admissible timeline, else a description."""
    at = {}
    for t, v in events:
        at.setdefault(t, []).append(v)
    changes = dict(got)
    cur = None
    for t in sorted(set(at) | set(changes)):
        if t in changes:
            cur = changes[t]
            if t not in at:
                return f"the value in force changes to {cur} at tick {t}, where no such event was given"
        if t in at and cur not in at[t]:
            return f"at tick {t} the value in force is {cur}, given there: {sorted(set(at[t]), key=str)}"
    return None


def kept_events_violation(events, got, limit=6):
    """events: [(tick, value)] given (all inputs together); got: the events [(tick, value)] of the result in sequence order.  Admissible:
    for some order of the events of each tick, `got` is exactly the given events without those that repeat the value then in force.
    Returns None if admissible, a description otherwise, "too-many" if a tick holds more than `limit` events (not judged)."""
    import itertools
    at = {}
    for t, v in events:
        at.setdefault(t, []).append(v)
    states = {(None, 0)}           # (value in force, number of result events consumed)
    for t in sorted(at):
        if len(at[t]) > limit:
            return "too-many"
        nxt = set()
        for perm in set(itertools.permutations(at[t])):
            for cur, idx in states:
                c, i, ok = cur, idx, True
                for v in perm:
                    if v == c:
                        continue
                    if i < len(got) and got[i] == (t, v):
                        c, i = v, i + 1
                    else:
                        ok = False
                        break
                if ok:
                    nxt.add((c, i))
        if not nxt:
            return f"the events of tick {t} ({at[t]}) are not kept as given (result events: {got})"
        states = nxt
    if not any(i == len(got) for _, i in states):
        return f"the result holds events that were not given or repeats: {got} for given {sorted(events, key=lambda x: x[0])}"
    return None


# ----------------------------------------------------------------------------- D17 / D17b / D17c: the mechanism, on plain data (audit round 4, B2 / B5)
# A note whose note-on and note-off stand on ONE tick is listed on-then-off; every absolute view is kept in the order
# (tick, channel, NOTE_OFF before NOTE_ON, pitch), so the next sort lists its note-off first.  normalise then (a) drops that note-off as an
# orphan, (b) keeps the note-on as an open note, (c) counts every later note-on of that channel and pitch as a re-trigger (dropped) and every
# later note-off as closing a re-trigger (dropped) — so every LATER note of the key is swallowed, not only the next one — and (d) removes the
# note-on that never got its note-off at the end.  When another note of the key is sounding on that tick, the note-off closes THAT note instead.
# The three functions below are that mechanism written from the description above on plain events (tick, type, channel, pitch, velocity); they
# are used ONLY by known-finding predicates, to decide whether an observed damage is exactly this defect's — never as an oracle's expectation.

from protocol import ON as _ON, OFF as _OFF          # noqa: E402


class Detail(str):
    """the text of a clause failure that also carries the facts it was built from (`.data`, a dict): known-finding predicates look at the
    OUTCOME through `.data` instead of parsing the text (same convention as h2bars_util.Detail)"""
    def __new__(cls, text, **data):
        o = super().__new__(cls, text)
        o.data = data
        return o


def data_of(f):
    return getattr(f.get("detail"), "data", None) or {}


def canonical_order(evs):
    """the order every absolute view is kept in: stable by (tick, channel, note-off before note-on, pitch)"""
    return sorted(evs, key=lambda e: (e[0], e[2], 0 if e[1] == _OFF else 1, e[3]))


def drop_unpaired(evs):
    """what normalising does to the note events of a list, in LIST order: per (channel, pitch) a counter of open note-ons; a note-on is kept
    only when none is open, a note-off only when it closes the last open one (a note-off with none open is dropped); the kept note-on of a key
    that is still open at the end is removed"""
    cnt, first, kept = {}, {}, []
    for i, e in enumerate(evs):
        k = (e[2], e[3])
        c = cnt.get(k, 0)
        if e[1] == _ON:
            cnt[k] = c + 1
            if c == 0:
                first[k] = i
                kept.append(i)
        elif e[1] == _OFF:
            if c == 0:
                continue
            cnt[k] = c - 1
            if c == 1:
                kept.append(i)
    dead = {first[k] for k, c in cnt.items() if c > 0}
    return [evs[i] for i in kept if i not in dead]


def merged_notes_model(lists, normalise_each=False):
    """note events [(tick, type, channel, pitch, velocity)] of what merging the given event lists yields on the unchanged tree: each list
    normalised in its listed order first when `normalise_each` (what loading does with every track of a file), then each put in canonical
    order, concatenated, put in canonical order again and normalised"""
    parts = [canonical_order(drop_unpaired(l) if normalise_each else l) for l in lists]
    return drop_unpaired(canonical_order([e for p in parts for e in p]))


def notes_of_events(evs):
    """[(channel, pitch, onset, end, velocity)] of a well-formed event list, sorted"""
    open_, out = {}, []
    for (t, ty, ch, p, v) in evs:
        if ty == _ON:
            open_[(ch, p)] = (t, v)
        elif ty == _OFF and (ch, p) in open_:
            s, v0 = open_.pop((ch, p))
            out.append((ch, p, s, t, v0))
    return sorted(out)


def sounding_of_events(evs):
    """{(channel, pitch): merged intervals of positive length} of a well-formed event list (the canonical form oracle_util.sounding gives)"""
    iv = {}
    for (ch, p, s, e, _) in notes_of_events(evs):
        if e > s:
            iv.setdefault((ch, p), []).append((s, e))
    out = {}
    for k, lst in iv.items():
        merged = []
        for s, e in sorted(lst):
            if merged and s <= merged[-1][1]:
                merged[-1] = (merged[-1][0], max(merged[-1][1], e))
            else:
                merged.append((s, e))
        out[k] = merged
    return out


def zero_length_keys(evs):
    """(channel, pitch) of the notes of a list (note-on paired with the next note-off of its key, list order) that start and end on one tick"""
    open_, out = {}, set()
    for (t, ty, ch, p, v) in evs:
        if ty == _ON:
            open_[(ch, p)] = t
        elif ty == _OFF and (ch, p) in open_:
            if open_.pop((ch, p)) == t:
                out.add((ch, p))
    return out


# ----------------------------------------------------------------------------- what a MIDI file can say about a time signature (audit round 4, A4b)

def midi_representable_sig(num, den):
    """a time-signature meta event (FF 58 04 nn dd cc bb) stores the numerator in ONE byte and the denominator as the EXPONENT of a power of
    two in one byte: nn in 0..255, den = 2**dd with dd in 0..255.  6/6, 5/6, 3/3, 300/4 cannot be written to a MIDI file by anybody."""
    ok_int = lambda x: isinstance(x, int) and not isinstance(x, bool)  # noqa: E731
    return ok_int(num) and ok_int(den) and 0 <= num <= 255 and den >= 1 and den & (den - 1) == 0 and den.bit_length() - 1 <= 255
