"""Helpers of the sequence-level properties (C04, C11, C16, C18; audit round 3, O7 / O9 / O11): the extended alphabet of public Sequence
operations (time edits through the iterators where legal, the read-only public calls), a step function for it on the real objects, the
translation of such a history into one the Lean driver knows, direct reads of an object's views, and harness-side effect predictions.

Nothing here computes an expectation with the implementation under test: `effect` works on plain message lists only."""
import pyimpl as P
from oracle_util import abs_timed, rel_timed, TY, CH, TIME, NOTE, VEL, KEY
from protocol import from_real, to_real, MT, INTERNAL, KEYSIG, TIMESIG, OFF, ON, WAIT

# read-only public calls (they materialise a view, some sort the absolute view in place) and the driver op with the same effect on the wrapper state
READ_ONLY = {"isEmpty": "readRel", "toMidiTrack": "readRel", "duration": "readAbs", "timesOfType": "readAbs", "channelConsistent": "readAbs",
             "sequenceChannel": "readAbs", "interleaved": "pairings", "equals": "pairings", "eq": "pairings", "durationRelation": "readRel"}
TIME_EDIT_KINDS = (3, 4, 5)
NOTE_LO, NOTE_HI = 21, 108       # the library's pitch bounds (settings.NOTE_LOWER_BOUND / NOTE_UPPER_BOUND), written down here on purpose


def edit_plain(kind, arg, m, relative):
    """the edit functions on a PLAIN message (harness-side twin of `real_edit`); kinds 0-2 are pyimpl's / the driver's:
    0 pitch += arg (notes), 1 velocity = arg (note-ons), 2 channel = arg, 3 tick += arg (absolute: every message; relative: every wait),
    4 tick *= arg, 5 tick = max(0, tick - arg) (only used on the first message of the absolute view: towards 0)"""
    m = list(m)
    if kind == 0:
        if m[TY] in (ON, OFF):
            m[NOTE] += arg
    elif kind == 1:
        if m[TY] == ON:
            m[VEL] = arg
    elif kind == 2:
        m[CH] = arg
    elif kind in TIME_EDIT_KINDS:
        if (not relative) or m[TY] == WAIT:
            if m[TIME] is not None:
                m[TIME] = m[TIME] + arg if kind == 3 else (m[TIME] * arg if kind == 4 else max(0, m[TIME] - arg))
    return tuple(m)


def real_edit(kind, arg, relative):
    if kind in (0, 1, 2):
        return P._edit(kind, arg)

    def e(m):
        if (not relative) or m.message_type == MT[WAIT]:
            if m.time is not None:
                m.time = m.time + arg if kind == 3 else (m.time * arg if kind == 4 else max(0, m.time - arg))
    return e


def _others(op_arg):
    from scoda.sequences.sequence import Sequence
    return Sequence(absolute_sequence=P.mk_abs([tuple(m) for m in op_arg]))


def seq_step(s, op):
    """one public operation on the real Sequence `s` (tuple format of pyimpl._seq_step, plus the extended alphabet).
    Returns (sequence, output word, split pieces or None)"""
    name = op[0]
    if name in ("editAbs", "editRel", "editAbsPeek", "editRelPeek", "editAbsFirst", "editRelFirst") and op[1] in TIME_EDIT_KINDS:
        rel = "Rel" in name
        e = real_edit(op[1], op[2], rel)
        gen = s.messages_rel() if rel else s.messages_abs()
        for m in gen:
            if name.endswith("Peek") or name.endswith("First"):
                (s.abs if rel else s.rel)
            e(m)
            if name.endswith("First"):
                break
        gen.close()
        return s, "ok", None
    if name == "split":
        pieces = s.split(list(op[1]))
        return s, "ok", pieces
    if name == "isEmpty":
        return s, str(s.is_empty()), None
    if name == "toMidiTrack":
        s.to_midi_track()
        return s, "ok", None
    if name == "duration":
        return s, str(s.get_sequence_duration()), None
    if name == "durationRelation":
        return s, str(s.get_sequence_duration_relation()), None
    if name == "timesOfType":
        s.get_message_times_of_type([MT[t] for t in op[1]])
        return s, "ok", None
    if name == "channelConsistent":
        return s, str(s.is_channel_consistent()), None
    if name == "sequenceChannel":
        return s, str(s.get_sequence_channel()), None
    if name == "interleaved":
        s.get_interleaved_message_pairings()
        return s, "ok", None
    if name == "equals":
        other = s.copy() if op[1] is None else _others(op[1])
        return s, str(s.equals(other, *[bool(x) for x in op[2]])), None
    if name == "eq":
        other = s.copy() if op[1] is None else _others(op[1])
        return s, str(s == other), None
    s, out = P._seq_step(s, op)
    return s, out, None


def driver_history(ops):
    """the same history for the Lean driver / pyimpl.op_seq: read-only calls become the driver op with the same effect on the wrapper state
    (which view is materialised, whether the absolute view is sorted in place); time edits, which the driver does not know, are left out
    (the driver then runs the history without them: still a legal history)"""
    out = []
    for op in ops:
        if op[0] in READ_ONLY:
            out.append((READ_ONLY[op[0]],))
        elif op[0].startswith("edit") and op[1] in TIME_EDIT_KINDS:
            continue
        else:
            out.append(op)
    return out


def gen_ext_op(rng, others_abs):
    """one operation of the extended alphabet (audit O11): legal (in-order) time edits through either iterator and the read-only public calls"""
    d = rng.choice([1, 5, 24])
    return rng.choice([
        ("editAbs", 3, d), ("editAbs", 4, 2), ("editRel", 3, d), ("editRel", 4, rng.choice([2, 3])), ("editAbsPeek", 3, d), ("editRelPeek", 3, d),
        ("editAbsFirst", 5, d), ("editRelFirst", 3, d), ("editRelFirst", 4, 2),
        ("isEmpty",), ("toMidiTrack",), ("duration",), ("durationRelation",), ("timesOfType", rng.choice([[TIMESIG], [KEYSIG, TIMESIG], [ON, OFF]])),
        ("channelConsistent",), ("sequenceChannel",), ("interleaved",),
        ("equals", rng.choice([None, rng.choice(others_abs)]), [rng.random() < 0.3 for _ in range(4)]),
        ("eq", rng.choice([None, rng.choice(others_abs)])),
    ])


# ----------------------------------------------------------------------------- direct reads

def strip(m):
    return tuple(-1 if x is None else x for x in (m[0], m[1]) + tuple(m[3:]))


def events(timed):
    return sorted((t,) + strip(m) for t, m in timed)


def read_direct(s, order="abs-first"):
    """both views of the object ITSELF through its public properties (no copy()), in the given order; returns plain lists (abs, rel)"""
    if order == "abs-first":
        a = [from_real(m) for m in s.abs._messages]
        r = [from_real(m) for m in s.rel._messages]
    else:
        r = [from_real(m) for m in s.rel._messages]
        a = [from_real(m) for m in s.abs._messages]
    return a, r


def peek(s):
    """what the object's views hold right now, read off the private fields WITHOUT calling any of its methods (nothing is refreshed):
    (absolute plain list or None if stale, relative plain list or None if stale)"""
    a = None if (s._abs_stale or s._abs is None) else [from_real(m) for m in s._abs._messages]
    r = None if (s._rel_stale or s._rel is None) else [from_real(m) for m in s._rel._messages]
    return a, r


def content_abs(a):
    t, d = abs_timed(a)
    return events(t), (d if a else 0)


def content_rel(r):
    t, d = rel_timed(r)
    return events(t), d


def views_disagree(a, r):
    """[] or [(clause, detail)]: do the absolute list `a` and the relative list `r` describe the same timed events and duration?"""
    ea, da = content_abs(a)
    er, dr = content_rel(r)
    fails = []
    if ea != er:
        fails.append(("diverge", f"views differ: abs {ea[:6]} rel {er[:6]}"))
    if da != dr:
        fails.append(("duration", f"abs duration {da}, rel duration {dr}"))
    return fails


# ----------------------------------------------------------------------------- effect predictions on plain data

def effect(op, a, r):
    """harness-side prediction of a public mutator's effect, from the plain content before it (`a` absolute list, `r` relative list, both as
    the object's views showed them): returns (expected events, expected duration) or None where this module has no independent model
    (normalise, the quantisers, cutoff, merge, transpose with octave folding / key signatures: their own properties judge them)"""
    name = op[0]
    ev_r, d = content_rel(r)
    if name in ("readAbs", "readRel", "refresh", "copy", "flags", "pairings", "split") or name in READ_ONLY:
        return ev_r, d
    if name == "pad":
        return ev_r, max(d, op[1])
    if name == "setChannel":
        return sorted((e[0], e[1], op[1]) + tuple(e[3:]) for e in ev_r), d
    if name == "scale" and not op[2] and isinstance(op[1], int) and op[1] >= 1:
        return sorted((e[0] * op[1],) + tuple(e[1:]) for e in ev_r), d * op[1]
    if name == "overwriteAbs":
        return content_abs([tuple(m) for m in op[1]])
    if name == "overwriteRel":
        return content_rel([tuple(m) for m in op[1]])
    if name == "addAbs":
        m = tuple(op[1])
        return sorted(ev_r + [(m[TIME],) + strip(m)]), max(d, m[TIME])
    if name == "addRel":
        lst = list(r)
        if op[2] is None:
            lst.append(tuple(op[1]))
        else:
            lst.insert(op[2], tuple(op[1]))
        return content_rel(lst)
    if name == "concat":
        lst = list(r)
        for o in op[1]:
            lst += [tuple(m) for m in o]
        return content_rel(lst)
    if name in ("editAbs", "editAbsPeek", "editRel", "editRelPeek", "editAbsFirst", "editRelFirst"):
        rel = "Rel" in name
        base = list(r) if rel else list(a)
        if name.endswith("First"):
            new = [edit_plain(op[1], op[2], m, rel) if i == 0 else m for i, m in enumerate(base)]
        else:
            new = [edit_plain(op[1], op[2], m, rel) for m in base]
        return content_rel(new) if rel else content_abs(new)
    if name == "cutoff":
        # well-formed notes of positive length only (C18's domain): exactly the note-offs of the notes longer than m move to on + r
        from oracle_util import wf_violations, notes_of
        m_, r_ = op[1], op[2]
        canon = sorted(abs_timed(a)[0], key=lambda x: (x[0], x[1][1], x[1][0], -1 if x[1][3] is None else x[1][3]))
        if wf_violations(canon) or any(on >= off for (_, _, on, off, _) in notes_of(canon)) or not (1 <= r_ <= m_):
            return None
        open_, out = {}, []
        for t, m in canon:
            if m[TY] == ON:
                open_[(m[CH], m[NOTE])] = t
                out.append((t, m))
            elif m[TY] == OFF and (m[CH], m[NOTE]) in open_:
                on = open_.pop((m[CH], m[NOTE]))
                out.append((on + r_ if t - on > m_ else t, m))
            else:
                out.append((t, m))
        cap = [m[TIME] for m in a if m[TY] == INTERNAL]
        return events(out), max([t for t, _ in out] + cap + [0])
    if name == "transpose":
        k = op[1]
        if any(m[TY] == KEYSIG for m in r) or any(m[TY] in (ON, OFF) and not (NOTE_LO <= m[NOTE] + k <= NOTE_HI) for m in r):
            return None
        return sorted((e[0], e[1], e[2], e[3] + k) + tuple(e[4:]) if e[1] in (ON, OFF) else e for e in ev_r), d
    return None


# ----------------------------------------------------------------------------- the Lean hand model, called synchronously (audit round 4, A5 / B4)
# `lean_seq` asks the compiled driver (lean/Driver.lean, op `seq`) what the HAND-WRITTEN wrapper model (lean/SCoda/Model/Wrapper.lean over the
# view models) answers for a history.  The model is tied to the source by the proofs and the correspondence of the properties that own the
# operations, but it is NOT the code under test: a changed library no longer matches it.  Only the request ENCODERS of pyimpl are used here —
# nothing of the library runs.  About 6 ms per call (one process start); answers are cached per request line.

_LEAN_CACHE = {}


def lean_seq(init, ops):
    """the driver's answer words for `seq <init> <ops…>`: one word per operation ('ok', 'A[…]', 'R[…]', 'ERR <Name>' counts as two words and is
    returned as one item).  init = ('rel' | 'abs' | 'new', plain list).  Raises RuntimeError when the driver cannot be run (a harness problem)."""
    from protocol import LeanDriver, enc_msgs
    kind, ps = init
    words = ["seq", kind] + ([] if kind == "new" else enc_msgs([tuple(m) for m in ps]))
    for op in ops:
        words += P._enc_seq_op(op)
    line = " ".join(words)
    if line not in _LEAN_CACHE:
        from checklib import Lock
        d = LeanDriver()
        d.add(words)
        with Lock(exclusive=False):
            ans = d.run(timeout=120)[0]
        if len(_LEAN_CACHE) > 20000:
            _LEAN_CACHE.clear()
        _LEAN_CACHE[line] = ans
    toks, out = _LEAN_CACHE[line].split(" "), []
    i = 0
    while i < len(toks):
        if toks[i] == "ERR" and i + 1 < len(toks):
            out.append("ERR " + toks[i + 1])
            i += 2
        else:
            out.append(toks[i])
            i += 1
    return out


def parse_plain_list(word):
    """'R[7,0,N,60,…;…]' / 'A[…]' / '[…]' -> list of plain 10-tuples"""
    body = word[word.index("[") + 1:word.rindex("]")]
    return [tuple(None if x == "N" else int(x) for x in item.split(",")) for item in body.split(";")] if body else []


def model_scale_default(rel, k):
    """(events, duration) of the relative view after `scale(k)` with the default flag (quantise_afterwards=True), by the Lean hand model, from
    the relative plain list `rel`; ('ERR', name) when the model raises; None when the model cannot say (a tick that is not an int)"""
    if not all(isinstance(m[2], int) or m[2] is None for m in rel) or isinstance(k, bool) or not isinstance(k, int):
        return None
    ans = lean_seq(("rel", rel), [("scale", k, True), ("readRel",)])
    if len(ans) != 2 or ans[0] != "ok" or not ans[1].startswith("R["):
        return ("ERR", " | ".join(ans))
    return content_rel(parse_plain_list(ans[1]))
