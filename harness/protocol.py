"""Line protocol shared by the Python side (real implementation) and the Lean driver.

A *request* is a list of words (ints, 'N' for None, raw token strings).  `enc_*` build request
words from plain Python data; `p_*` print real scoda objects in exactly the format the Lean
driver prints its model values, so that answers can be compared byte for byte.

Canonicalisation rules (DESIGN §2.4): None -> N; enums -> their index; a float is printed with
its Python repr (e.g. 48.0), which the Lean side can never produce, so a float in a tick breaks
the correspondence; exceptions -> `ERR <Name>`.
"""
import os
import subprocess
import sys

REPO = os.environ.get("SCODA_REPO", "/repo")
if REPO not in sys.path:
    sys.path.insert(0, REPO)

from scoda.elements.message import Message  # noqa: E402
from scoda.enumerations.message_type import MessageType  # noqa: E402
from scoda.misc.music_theory import Key  # noqa: E402

MT = list(MessageType)
MT_RANK = {t: i for i, t in enumerate(MT)}
KEYS = list(Key)
KEY_IDX = {k: i for i, k in enumerate(KEYS)}

# symbolic names for the harness
INTERNAL, SEQCTL, KEYSIG, TIMESIG, CC, PC, OFF, ON, WAIT = range(9)

VERIF = os.path.dirname(os.path.dirname(os.path.abspath(__file__)))
LEAN_DIR = os.path.join(VERIF, "lean")


# ----------------------------------------------------------------------------- plain messages
# A "plain message" is a 10-tuple (ty, ch, time, note, vel, ctl, prog, num, den, key) of ints/None.

def pm(ty, ch=0, time=None, note=None, vel=None, ctl=None, prog=None, num=None, den=None, key=None):
    return (ty, ch, time, note, vel, ctl, prog, num, den, key)


def to_real(p):
    """plain message -> scoda Message"""
    ty, ch, time, note, vel, ctl, prog, num, den, key = p
    return Message(message_type=MT[ty], channel=ch, time=time, note=note, velocity=vel, control=ctl,
                   program=prog, numerator=num, denominator=den,
                   key=None if key is None else KEYS[key])


def from_real(m):
    """scoda Message -> plain message (enums to indices; values kept as they are, floats included)"""
    return (MT_RANK[m.message_type], m.channel, m.time, m.note, m.velocity, m.control, m.program,
            m.numerator, m.denominator, None if m.key is None else KEY_IDX.get(m.key, m.key))


# ----------------------------------------------------------------------------- request encoding

def w(v):
    if v is None:
        return "N"
    if isinstance(v, bool):
        return "1" if v else "0"
    if isinstance(v, int):
        return str(v)
    # a value the Int-typed model cannot represent (e.g. a float tick or bin): send a word the driver
    # rejects, so the case shows up as a correspondence disagreement instead of crashing the harness
    return "F" + repr(v).replace(" ", "")


def enc_msg(p):
    return [w(x) for x in p]


def enc_msgs(ps):
    out = [str(len(ps))]
    for p in ps:
        out.extend(enc_msg(p))
    return out


def enc_ints(xs):
    return [str(len(xs))] + [w(x) for x in xs]


def enc_opt_ints(xs):
    return ["0"] if xs is None else ["1"] + enc_ints(xs)


def enc_many(encoder, xs):
    out = [str(len(xs))]
    for x in xs:
        out.extend(encoder(x))
    return out


# ----------------------------------------------------------------------------- printing real values

def p_int(v):
    if v is None:
        return "N"
    if isinstance(v, bool):
        return "1" if v else "0"
    if isinstance(v, int):
        return str(v)
    if isinstance(v, float):
        return repr(v)
    try:
        import numpy as np
        if isinstance(v, np.integer):
            return f"np{int(v)}"
        if isinstance(v, np.floating):
            return f"np{float(v)!r}"
    except Exception:
        pass
    return f"?{v!r}"


def p_plain(p):
    return ",".join(p_int(x) for x in p)


def p_msg(m):
    return p_plain(from_real(m))


def p_msgs(ms):
    return "[" + ";".join(p_msg(m) for m in ms) + "]"


def p_plains(ps):
    return "[" + ";".join(p_plain(p) for p in ps) + "]"


def p_ints(xs):
    return "[" + ",".join(p_int(x) for x in xs) + "]"


def p_bool(b):
    return "1" if b else "0"


ERR_NAMES = {
    "BarException": "BarException", "TokenisationException": "TokenisationException",
    "KeyError": "KeyError", "ValueError": "ValueError", "IndexError": "IndexError",
    "SequenceException": "SequenceException",
}


def p_err(e):
    name = type(e).__name__
    if name == "SequenceException" and "stale" in str(e):
        return "ERR SequenceStale"
    return "ERR " + ERR_NAMES.get(name, name)


def p_pairing(pairing):
    return "<" + ";".join(p_msg(m) for m in pairing) + ">"


# ----------------------------------------------------------------------------- the Lean driver

class LeanDriver:
    """Batch interface: collect request lines, run the driver once, return the answer lines."""

    def __init__(self):
        self.requests = []

    def add(self, words):
        line = " ".join(words)
        assert "\n" not in line
        self.requests.append(line)
        return len(self.requests) - 1

    def run(self, timeout=1200):
        if not self.requests:
            return []
        inp = "\n".join(self.requests) + "\n"
        exe = os.path.join(LEAN_DIR, ".lake", "build", "bin", "driver")
        # the compiled driver (lean_exe, no Mathlib in its imports) is 10-100x faster; `lean --run` is the fallback
        cmd = [exe] if os.path.exists(exe) and not os.environ.get("SCODA_DRIVER_INTERPRETED") \
            else ["lake", "env", "lean", "--run", "Driver.lean"]
        proc = subprocess.run(cmd, cwd=LEAN_DIR, input=inp, capture_output=True, text=True, timeout=timeout)
        if proc.returncode != 0:
            raise RuntimeError(f"Lean driver failed (exit {proc.returncode}):\n{proc.stderr[-4000:]}\n{proc.stdout[-2000:]}")
        answers = proc.stdout.split("\n")
        if answers and answers[-1] == "":
            answers.pop()
        if len(answers) != len(self.requests):
            raise RuntimeError(f"Lean driver answered {len(answers)} lines for {len(self.requests)} requests\n{proc.stderr[-2000:]}")
        return answers
