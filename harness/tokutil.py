"""Independent judges for the tokeniser properties (no scoda pairing/merging code used)."""
from oracle_util import *  # noqa
from protocol import from_real


def bar_grid(sigs, upto, ppqn=24):
    """bar ends of the grid induced by `sigs` [(tick, num, den)] (8/8 before any), walking until the
    bar that contains tick `upto` (exclusive end semantics: a piece ending exactly on a bar line ends there)"""
    sigs = sorted(sigs)
    ends = []
    t = 0
    cur = (8, 8)
    guard = 0
    while t < upto and guard < 10000:
        for (tick, n, d) in sigs:
            if tick <= t:
                cur = (n, d)
        length = ppqn * 4 * cur[0] // cur[1]
        if length <= 0:
            return None
        t += length
        ends.append(t)
        guard += 1
    return ends


def sigs_aligned(sigs, ppqn=24):
    """every signature tick is a bar boundary of the grid induced by the signatures before it"""
    sigs = sorted(sigs)
    if not sigs:
        return True
    last = max(t for t, _, _ in sigs)
    bounds = {0}
    t = 0
    cur = (8, 8)
    while t <= last:
        for (tick, n, d) in sigs:
            if tick <= t:
                cur = (n, d)
        length = ppqn * 4 * cur[0] // cur[1]
        if length <= 0:
            return False
        t += length
        bounds.add(t)
    return all(tick in bounds for tick, _, _ in sigs)


def piece_of_tracks(tracks):
    """tracks: list of relative plain lists -> (notes per track [(pitch,on,dur,vel)], sigs [(tick,n,d)], caps [tick], wf)"""
    notes, sigs, caps, wf = [], [], [], True
    for ti, rel in enumerate(tracks):
        timed, dur = rel_timed(rel)
        # validity is a matter of the timed EVENTS: the order in which a track lists the messages of one tick (a re-struck pitch entered
        # note-on first, then the previous note's note-off) is not part of it — canonical order: note-offs before the other events of a tick
        timed = sorted(timed, key=lambda tm: (tm[0], 0 if tm[1][TY] == OFF else 1))
        if wf_violations(timed):
            wf = False
        ns = sorted((p, on, off - on, v) for (c, p, on, off, v) in notes_of(timed))
        notes.append(ns)
        for t, m in timed:
            if m[TY] == TIMESIG:
                sigs.append((t, m[NUM], m[DEN]))
        last = max([t for t, _ in timed], default=0)
        if dur > last or not timed:
            caps.append(dur)
    return notes, sorted(set(sigs)), caps, wf


def valid_piece(cfgd, tracks):
    """the tokeniser's input constraints, decided independently of the implementation"""
    notes, sigs, caps, wf = piece_of_tracks(tracks)
    if not wf or len(tracks) != cfgd["num_tracks"]:
        return False
    steps = sorted(cfgd["step_sizes"] or [2, 3, 4, 6, 8, 12, 16, 24])
    values = cfgd["note_values"] or [24, 12, 6, 16, 8, 4, 36, 18, 9]
    ppqn = cfgd.get("ppqn") or 24          # the tokeniser's resolution (None = the library's 24): bar lengths are counted in it
    g = steps[0]
    # grid condition of DESIGN C01: unit g; every step not a multiple of g is dominated
    for s in steps:
        if s % g != 0 and (-(-s // g)) * g not in steps:
            return False
    lo, hi = cfgd["pitch_range"]
    for ns in notes:
        for (p, on, dur, v) in ns:
            if not (lo <= p <= hi) or dur not in values or on % g != 0 or not (1 <= v <= 127):
                return False
    for c in caps:
        if c % g != 0:
            return False
    if len({t for t, _, _ in sigs}) != len(sigs):
        return False
    tlo, thi = cfgd["time_signature_range"]
    for (t, n, d) in sigs:
        if d not in (1, 2, 4, 8) or not (tlo <= n * 8 // d <= thi) or (n * 8) % d != 0:
            return False
        if (ppqn * 4 * n) % d != 0 or (ppqn * 4 * n // d) % g != 0:
            return False
    if (ppqn * 4) % g != 0 and (not sigs or min(t for t, _, _ in sigs) > 0):
        return False          # the default 8/8 bar in force before the first signature must be a whole number of grid units too
    if not sigs_aligned(sigs, ppqn):
        return False
    # same (track, pitch) notes must not abut in a way that merges them?  abutting is fine (off sorts before on)
    return True


def good_bins(bins):
    return all(isinstance(b, int) for b in bins) and all(x < y for x, y in zip(bins, bins[1:])) and bins[-1] == 127


def d16_bins(bins):
    """the D16 class exactly: integer bins whose top is below 127 or that repeat a value"""
    return len(bins) > 0 and all(isinstance(b, int) and not isinstance(b, bool) for b in bins) and \
        (bins[-1] != 127 or any(x >= y for x, y in zip(bins, bins[1:])))


def bin_value(bins, v):
    for b in bins:
        if v <= b:
            return b
    return None


def detok_view(seqs):
    """per track: notes (pitch,on,dur,vel) sorted; bar ends (INTERNAL ticks); duration; int-typed flag"""
    out = []
    for s in seqs:
        a = [from_real(m) for m in s.abs._messages]
        timed, dur = abs_timed(a)
        ns = sorted((p, on, off - on, v) for (c, p, on, off, v) in notes_of(timed))
        ends = sorted({m[TIME] for m in a if m[TY] == INTERNAL})
        out.append({"notes": ns, "bar_ends": ends, "duration": dur, "int": all_int_times(a),
                    "sigs": [(t, m[NUM], m[DEN]) for t, m in timed if m[TY] == TIMESIG]})
    return out
