"""Runs the real S-Coda implementation for every protocol operation and prints the result in the
Lean driver's answer format.  Every function returns (request_words, python_answer)."""
import logging
import os
import tempfile

from protocol import (enc_ints, enc_many, enc_msg, enc_msgs, enc_opt_ints, p_bool, p_err, p_int, p_msgs, from_real,
                      p_pairing, to_real, w, KEY_IDX, KEYS, MT, MT_RANK)

logging.disable(logging.CRITICAL)

from scoda.elements.bar import Bar  # noqa: E402
from scoda.elements.message import Message  # noqa: E402
from scoda.enumerations.message_type import MessageType  # noqa: E402
from scoda.exceptions.bar_exception import BarException  # noqa: E402
from scoda.exceptions.sequence_exception import SequenceException  # noqa: E402
from scoda.exceptions.tokenisation_exception import TokenisationException  # noqa: E402
from scoda.misc.music_theory import CircleOfFifths, Key, MusicMapping  # noqa: E402
from scoda.sequences.absolute_sequence import AbsoluteSequence  # noqa: E402
from scoda.sequences.relative_sequence import RelativeSequence  # noqa: E402
from scoda.sequences.sequence import Sequence  # noqa: E402
from scoda.tokenisation.notelike_tokenisation import MultiTrackLargeVocabularyNotelikeTokeniser as Tokeniser  # noqa: E402

CAUGHT = (BarException, SequenceException, TokenisationException, KeyError, ValueError, IndexError)


def mk_abs(ps):
    return AbsoluteSequence(messages=[to_real(p) for p in ps])


def mk_rel(ps):
    return RelativeSequence(messages=[to_real(p) for p in ps])


def seq_of_rel(ps):
    return Sequence(relative_sequence=mk_rel(ps))


def seq_of_abs_insort(ps):
    s = Sequence()
    for p in ps:
        s.add_absolute_message(to_real(p))
    return s


def guarded(f):
    try:
        return f()
    except CAUGHT as e:
        return p_err(e)


# ------------------------------------------------------------------ simple list operations

def op_toRel(a):
    return ["toRel"] + enc_msgs(a), guarded(lambda: p_msgs(mk_abs(a).to_relative_sequence()._messages))


def op_toAbs(r):
    return ["toAbs"] + enc_msgs(r), guarded(lambda: p_msgs(mk_rel(r).to_absolute_sequence()._messages))


def op_sort(a):
    def f():
        s = mk_abs(a)
        s.sort()
        return p_msgs(s._messages)
    return ["sort"] + enc_msgs(a), guarded(f)


def op_insortAll(a):
    def f():
        s = AbsoluteSequence()
        for p in a:
            s.add_message(to_real(p))
        return p_msgs(s._messages)
    return ["insortAll"] + enc_msgs(a), guarded(f)


def op_normalise(r):
    def f():
        s = mk_rel(r)
        s.normalise_relative()
        return p_msgs(s._messages)
    return ["normalise"] + enc_msgs(r), guarded(f)


def op_pad(n, r):
    def f():
        s = mk_rel(r)
        s.pad(n)
        return p_msgs(s._messages)
    return ["pad", w(n)] + enc_msgs(r), guarded(f)


def op_setChannel(c, r):
    def f():
        s = mk_rel(r)
        s.set_channel(c)
        return p_msgs(s._messages)
    return ["setChannel", w(c)] + enc_msgs(r), guarded(f)


def op_scaleRel(k, r):
    def f():
        s = mk_rel(r)
        s.scale(k)
        return p_msgs(s._messages)
    return ["scaleRel", w(k)] + enc_msgs(r), guarded(f)


def op_transposeRel(by, r):
    def f():
        s = mk_rel(r)
        flag = s.transpose(by)
        return p_bool(flag) + " " + p_msgs(s._messages)
    return ["transposeRel", w(by)] + enc_msgs(r), guarded(f)


def op_split(caps, r):
    def f():
        s = mk_rel(r)
        pieces = s.split(list(caps))
        return " ".join(p_msgs(p._messages) for p in pieces)
    return ["split"] + enc_ints(caps) + enc_msgs(r), guarded(f)


def _types(types):
    return [MT[t] for t in types]


def op_pairings(types, std, imp, a):
    def f():
        s = mk_abs(a)
        cp = s.get_message_pairings(message_types=_types(types), standard_length=std, impute_notes=imp)
        return " ".join(f"{p_int(ch)}:" + "".join(p_pairing(p) for p in ps) for ch, ps in cp.items())
    return ["pairings"] + enc_ints(types) + [w(std), w(imp)] + enc_msgs(a), guarded(f)


def op_interleaved(types, std, imp, a):
    def f():
        s = mk_abs(a)
        ip = s.get_interleaved_message_pairings(message_types=_types(types), standard_length=std, impute_notes=imp)
        return " ".join(f"{p_int(ch)}:" + p_pairing(p) for ch, p in ip)
    return ["interleaved"] + enc_ints(types) + [w(std), w(imp)] + enc_msgs(a), guarded(f)


def op_equals(flags, a, b):
    ic, its, iks, iv = flags

    def f():
        return p_bool(mk_abs(a).equals(mk_abs(b), ignore_channel=ic, ignore_time_signature=its,
                                       ignore_key_signature=iks, ignore_velocity=iv))
    return ["equals", w(ic), w(its), w(iks), w(iv)] + enc_msgs(a) + enc_msgs(b), guarded(f)


def op_cutoff(m, r, a):
    def f():
        s = mk_abs(a)
        s.cutoff(m, r)
        return p_msgs(s._messages)
    return ["cutoff", w(m), w(r)] + enc_msgs(a), guarded(f)


def op_merge(a, others):
    def f():
        s = mk_abs(a)
        s.merge([mk_abs(o) for o in others])
        return p_msgs(s._messages)
    return ["merge"] + enc_msgs(a) + enc_many(enc_msgs, others), guarded(f)


def op_quantise(steps, a):
    def f():
        s = mk_abs(a)
        s.quantise(list(steps))
        return p_msgs(s._messages)
    return ["quantise"] + enc_ints(steps) + enc_msgs(a), guarded(f)


def op_qnl(values, std, dne, a):
    def f():
        s = mk_abs(a)
        s.quantise_note_lengths(list(values), standard_length=std, do_not_extend=dne)
        return p_msgs(s._messages)
    return ["qnl"] + enc_ints(values) + [w(std), w(dne)] + enc_msgs(a), guarded(f)


# ------------------------------------------------------------------ bars

def p_bar(b):
    key = None if b.key_signature is None else KEY_IDX[b.key_signature]
    return f"BAR {p_int(b.time_signature_numerator)} {p_int(b.time_signature_denominator)} {p_int(key)} " + \
        p_msgs(b.sequence.rel._messages)


def _key(k):
    return None if k is None else KEYS[k]


def op_bar(n, d, key, r):
    return ["bar", w(n), w(d), w(key)] + enc_msgs(r), guarded(lambda: p_bar(Bar(seq_of_rel(r), n, d, _key(key))))


def op_barCopy(n, d, key, r):
    return ["barCopy", w(n), w(d), w(key)] + enc_msgs(r), \
        guarded(lambda: p_bar(Bar(seq_of_rel(r), n, d, _key(key)).copy()))


def op_barTranspose(n, d, key, r, by):
    def f():
        b = Bar(seq_of_rel(r), n, d, _key(key))
        flag = b.transpose(by)
        return p_bool(flag) + " " + p_bar(b)
    return ["barTranspose", w(n), w(d), w(key)] + enc_msgs(r) + [w(by)], guarded(f)


def op_splitBars(meta_idx, requant, tracks):
    def f():
        seqs = [seq_of_rel(t) for t in tracks]
        tb = Sequence.sequences_split_bars(seqs, meta_track_index=meta_idx, quantise_note_lengths=requant)
        return " | ".join(" ".join(p_bar(b) for b in bars) for bars in tb)
    return ["splitBars", w(meta_idx), w(requant)] + enc_many(enc_msgs, tracks), guarded(f)


# ------------------------------------------------------------------ wrapper histories

def _edit(kind, arg):
    def e(m):
        if kind == 0:
            if m.message_type in (MessageType.NOTE_ON, MessageType.NOTE_OFF):
                m.note += arg
        elif kind == 1:
            if m.message_type == MessageType.NOTE_ON:
                m.velocity = arg
        elif kind == 2:
            m.channel = arg
    return e


def _seq_step(s, op):
    """apply one op (tuple) to the real Sequence `s`; returns (sequence, output word)"""
    name = op[0]
    if name == "readAbs":
        return s, "A" + p_msgs(s.abs._messages)
    if name == "readRel":
        return s, "R" + p_msgs(s.rel._messages)
    if name == "refresh":
        s.refresh()
        return s, "ok"
    if name == "copy":
        return s.copy(), "ok"
    if name == "addAbs":
        s.add_absolute_message(to_real(op[1]))
        return s, "ok"
    if name == "addRel":
        s.add_relative_message(to_real(op[1]), index=op[2])
        return s, "ok"
    if name == "normalise":
        s.normalise()
        return s, "ok"
    if name == "pad":
        s.pad(op[1])
        return s, "ok"
    if name == "setChannel":
        s.set_channel(op[1])
        return s, "ok"
    if name == "cutoff":
        s.cutoff(op[1], op[2])
        return s, "ok"
    if name == "quantise":
        s.quantise(None if op[1] is None else list(op[1]))
        return s, "ok"
    if name == "qnl":
        s.quantise_note_lengths(None if op[1] is None else list(op[1]), do_not_extend=op[2])
        return s, "ok"
    if name == "quantiseAndNormalise":
        s.quantise_and_normalise()
        return s, "ok"
    if name == "concat":
        s.concatenate([seq_of_rel(o) for o in op[1]])
        return s, "ok"
    if name == "merge":
        s.merge([Sequence(absolute_sequence=mk_abs(o)) for o in op[1]])
        return s, "ok"
    if name == "overwriteAbs":
        s.overwrite_absolute_messages([to_real(p) for p in op[1]])
        return s, "ok"
    if name == "overwriteRel":
        s.overwrite_relative_messages([to_real(p) for p in op[1]])
        return s, "ok"
    if name == "editAbs":
        e = _edit(op[1], op[2])
        for m in s.messages_abs():
            e(m)
        return s, "ok"
    if name == "editRel":
        e = _edit(op[1], op[2])
        for m in s.messages_rel():
            e(m)
        return s, "ok"
    if name in ("editAbsPeek", "editRelPeek"):
        # edit while iterating, reading the *other* view between receiving a message and editing it
        e = _edit(op[1], op[2])
        if name == "editAbsPeek":
            for m in s.messages_abs():
                s.rel
                e(m)
        else:
            for m in s.messages_rel():
                s.abs
                e(m)
        return s, "ok"
    if name in ("editAbsFirst", "editRelFirst"):
        # edit only the first message (after peeking at the other view), then abandon the iterator
        e = _edit(op[1], op[2])
        gen = s.messages_abs() if name == "editAbsFirst" else s.messages_rel()
        for m in gen:
            (s.rel if name == "editAbsFirst" else s.abs)
            e(m)
            break
        gen.close()
        return s, "ok"
    if name == "transpose":
        return s, p_bool(s.transpose(op[1]))
    if name == "scale":
        s.scale(op[1], quantise_afterwards=op[2])
        return s, "ok"
    if name == "split":
        pieces = s.split(list(op[1]))
        return s, "P" + " ".join(p_msgs(p.rel._messages) for p in pieces)
    if name == "flags":
        return s, f"F{p_bool(s._abs_stale)}{p_bool(s._rel_stale)}"
    if name == "pairings":
        s.get_message_pairings()
        return s, "ok"
    raise ValueError(f"unknown seq op {name}")


def _enc_seq_op(op):
    name = op[0]
    if name in ("readAbs", "readRel", "refresh", "copy", "normalise", "quantiseAndNormalise", "flags", "pairings"):
        return [name]
    if name == "addAbs":
        return [name] + enc_msg(op[1])
    if name == "addRel":
        return [name] + enc_msg(op[1]) + (["0"] if op[2] is None else ["1", w(op[2])])
    if name in ("pad", "setChannel", "transpose"):
        return [name, w(op[1])]
    if name == "cutoff":
        return [name, w(op[1]), w(op[2])]
    if name == "quantise":
        return [name] + enc_opt_ints(op[1])
    if name == "qnl":
        return [name] + enc_opt_ints(op[1]) + [w(op[2])]
    if name in ("concat", "merge"):
        return [name] + enc_many(enc_msgs, op[1])
    if name in ("overwriteAbs", "overwriteRel"):
        return [name] + enc_msgs(op[1])
    if name in ("editAbs", "editRel", "editAbsPeek", "editRelPeek", "editAbsFirst", "editRelFirst"):
        return [name, w(op[1]), w(op[2])]
    if name == "scale":
        return [name, w(op[1]), w(op[2])]
    if name == "split":
        return [name] + enc_ints(op[1])
    raise ValueError(name)


def make_seq(init):
    kind, ps = init
    if kind == "new":
        return Sequence()
    if kind == "abs":
        return seq_of_abs_insort(ps)
    if kind == "rel":
        return seq_of_rel(ps)
    raise ValueError(kind)


def op_seq(init, ops):
    kind, ps = init
    words = ["seq", kind] + ([] if kind == "new" else enc_msgs(ps))
    for op in ops:
        words += _enc_seq_op(op)
    outs = []
    s = make_seq(init)
    for op in ops:
        try:
            s, out = _seq_step(s, op)
        except CAUGHT as e:
            out = p_err(e)
        outs.append(out)
    return words, " ".join(outs)


# ------------------------------------------------------------------ tokeniser

class TkCfg:
    """tokeniser configuration; builds the real tokeniser and the protocol words"""

    def __init__(self, num_tracks=1, pitch_range=(21, 108), step_sizes=None, note_values=None, velocity_bins=1,
                 ts_range=(2, 16), running=True, fuse_track=True, fuse_value=True, fuse_velocity=True,
                 simplify_ts=True, ppqn=None):
        self.kw = dict(ppqn=ppqn, num_tracks=num_tracks, pitch_range=tuple(pitch_range),
                       step_sizes=None if step_sizes is None else list(step_sizes),
                       note_values=None if note_values is None else list(note_values),
                       velocity_bins=velocity_bins, time_signature_range=tuple(ts_range),
                       flag_running_values=running, flag_fuse_track=fuse_track, flag_fuse_value=fuse_value,
                       flag_fuse_velocity=fuse_velocity, flag_simplify_time_signature=simplify_ts)
        self._tk = None

    def describe(self):
        return {k: v for k, v in self.kw.items()}

    _CACHE = {}

    def tk(self):
        if self._tk is None:
            key = repr(sorted(self.kw.items()))
            if key not in TkCfg._CACHE:
                kw = dict(self.kw)
                kw["step_sizes"] = None if kw["step_sizes"] is None else list(kw["step_sizes"])
                kw["note_values"] = None if kw["note_values"] is None else list(kw["note_values"])
                if len(TkCfg._CACHE) > 400:
                    TkCfg._CACHE.clear()
                TkCfg._CACHE[key] = Tokeniser(**kw)
            self._tk = TkCfg._CACHE[key]
        return self._tk

    def fresh(self):
        """a newly constructed tokeniser (not the harness's cached instance): used when the order in which tokenisers are
        built in one process is part of the input"""
        kw = dict(self.kw)
        kw["step_sizes"] = None if kw["step_sizes"] is None else list(kw["step_sizes"])
        kw["note_values"] = None if kw["note_values"] is None else list(kw["note_values"])
        self._tk = Tokeniser(**kw)
        return self._tk

    def words(self):
        t = self.tk()
        return ([w(t.ppqn), w(t.num_tracks), w(t.pitch_range[0]), w(t.pitch_range[1])]
                + enc_ints(list(t.step_sizes)) + enc_ints(list(t.note_values)) + enc_ints(list(t.velocity_bins))
                + [w(t.time_signature_range[0]), w(t.time_signature_range[1]),
                   w(t.flag_running_values), w(t.flag_fuse_track), w(t.flag_fuse_value),
                   w(t.flag_fuse_velocity), w(t.flag_simplify_time_signature)])


SEQ_STATES = ["rel", "abs", "both", "stale-rel", "stale-abs", "churned", "churned"]


def seq_in_state(rel, state):
    """a Sequence whose content is the relative list `rel`, in one of the freshness states the wrapper can be in:
    rel / abs (only that view exists), both (both fresh), stale-rel / stale-abs (that view object exists but is outdated and
    holds *other* content; the other view is the fresh one).  An operation that reads a stale view shows up at once."""
    want = seq_of_rel(rel)
    if state == "rel":
        return want
    a = [from_real(m) for m in want.copy().abs._messages]
    if state == "abs":
        return Sequence(absolute_sequence=mk_abs(a))
    if state == "both":
        want.refresh()
        return want
    if state == "churned":
        return seq_churned(rel)
    g = [(8, 0, 7, None, None, None, None, None, None, None)] + [
        ((m[0], m[1], m[2], (m[3] + 1 if m[3] is not None and m[3] < 127 else m[3])) + tuple(m[4:])) for m in rel]
    if state == "stale-rel":
        s = seq_of_rel(g)
        s.rel                               # materialise the (soon outdated) relative view
        s.overwrite_absolute_messages([to_real(m) for m in a])
        return s
    if state == "stale-abs":
        s = seq_of_rel(g)
        s.abs                               # materialise the (soon outdated) absolute view
        s.overwrite_relative_messages([to_real(m) for m in rel])
        return s
    raise ValueError(state)


def _timed_rel(rel):
    t, out = 0, []
    for m in rel:
        if m[0] == 8:
            t += m[2]
        else:
            out.append((t,) + tuple(m[:2]) + tuple(m[3:]))
    return sorted(out, key=lambda x: (x[0], repr(x))), t


def seq_churned(rel):
    """an object WITH A PAST that still holds exactly `rel`: public operations that do not change the content have been run on it
    (reads, refresh, pairings, equals with a copy, split / bar splitting, to_midi_track, pad(0), scale(1), transpose(0), merge([]),
    concatenate([]), normalise / quantise when they change nothing).  Anything an operation leaves behind in the object (a flag, a cached
    result, a re-sorted view) is then present when the operation under test runs.  Falls back to lighter churn, then to a plain object,
    whenever the content would not be exactly `rel` any more."""
    want = _timed_rel(rel)
    heavy = [lambda s: s.refresh(), lambda s: s.is_empty(), lambda s: s.get_sequence_duration(), lambda s: s.to_midi_track(),
             lambda s: s.get_message_pairings(), lambda s: s.equals(s.copy()), lambda s: s.split([24, 24]), lambda s: s.pad(0),
             lambda s: s.scale(1, quantise_afterwards=False), lambda s: s.transpose(0), lambda s: s.concatenate([]), lambda s: s.merge([]),
             lambda s: s.normalise(), lambda s: s.quantise([1]), lambda s: s.get_interleaved_message_pairings(),
             lambda s: Sequence.sequences_split_bars([s], 0, False), lambda s: s.is_channel_consistent(), lambda s: s.refresh()]
    light = heavy[:11]
    for ops in (heavy, light, heavy[:6]):
        s = seq_of_rel(rel)
        try:
            for op in ops:
                op(s)
            if _timed_rel(content_of(s)) == want and content_of(s) == list(rel):
                return s
        except Exception:
            pass
    return seq_of_rel(rel)


def seq_after_prelude(rel, state, prelude):
    """a Sequence in wrapper state `state` with content `rel` on which the public operations of `prelude` (tuple format of
    `_seq_step`) have then been run *on the same object*.  Returns (sequence, its content now, read through a copy).  The
    oracle judges the operation under test against that content: on correct code an object's past is irrelevant; if an operation
    leaves state behind (a flag, a cache, a memo), the past is part of the replayable input."""
    s = seq_in_state(rel, state)
    for op in prelude or []:
        op = tuple(tuple(x) if isinstance(x, list) and x and not isinstance(x[0], (list, tuple)) and len(x) == 10 else x for x in op)
        if op[0] in ("copy", "split"):
            continue
        try:
            s, _ = _seq_step(s, op)
        except CAUGHT:
            pass
    return s, content_of(s)


def seq_after_prelude_obj(s, prelude):
    """like seq_after_prelude, for an existing Sequence object"""
    for op in prelude or []:
        op = tuple(tuple(x) if isinstance(x, list) and x and not isinstance(x[0], (list, tuple)) and len(x) == 10 else x for x in op)
        if op[0] in ("copy", "split"):
            continue
        try:
            s, _ = _seq_step(s, op)
        except CAUGHT:
            pass
    return s, content_of(s)


def seq_aliased(rel, reps=2):
    """a Sequence whose message list holds every Message object of `rel` `reps` times: what `s.concatenate([p] * reps)` (or
    `s.concatenate([s])`) builds, because `RelativeSequence.concatenate` takes over the argument's message OBJECTS (known finding D24)"""
    p = seq_of_rel(rel)
    s = Sequence()
    s.concatenate([p] * reps)
    return s


def content_of(s):
    """the sequence's content read through a copy (so that reading does not refresh any view of `s` itself)"""
    return [from_real(m) for m in s.copy().rel._messages]


def warm_up(before):
    """replayable process history for the tokeniser oracles: the pieces tokenised (statelessly, whole) earlier in the
    process.  On correct code this has no effect on what follows; if state leaks between calls, the leak is part of the input."""
    for b in before or []:
        try:
            TkCfg(**b["cfg"]).tk().tokenise([seq_of_rel([tuple(m) for m in t]) for t in b["tracks"]])
        except Exception:
            pass


STATE_KEYS = ["cur_time", "cur_time_bar", "cur_time_signature_numerator", "cur_time_signature_denominator",
              "cur_bar_capacity_remaining", "prv_track", "prv_value", "prv_velocity"]


def op_extract(tracks):
    def f():
        seqs = [seq_of_rel(t) for t in tracks]
        for i, s in enumerate(seqs):
            s.set_channel(i)
        m = Sequence()
        m.merge(seqs)
        ip = m.abs.get_interleaved_message_pairings(
            [MessageType.NOTE_ON, MessageType.NOTE_OFF, MessageType.TIME_SIGNATURE, MessageType.INTERNAL])
        return " ".join(f"{p_int(ch)}:" + p_pairing(p) for ch, p in ip)
    return ["extract"] + enc_many(enc_msgs, tracks), guarded(f)


def op_tokenise(cfg, state, tracks):
    """state: None or list of the 8 state values in STATE_KEYS order"""
    def f():
        t = cfg.tk()
        sd = None if state is None else dict(zip(STATE_KEYS, state))
        if sd is None:
            sd = dict()
        toks = t.tokenise([seq_of_rel(tr) for tr in tracks], state_dict=sd)
        return "T " + " ".join(toks) + " | " + " ".join(p_int(sd[k]) for k in STATE_KEYS)
    words = ["tokenise"] + cfg.words() + (["0"] if state is None else ["1"] + [w(x) for x in state]) \
        + enc_many(enc_msgs, tracks)
    return words, guarded(f)


def op_detokenise(cfg, toks):
    def f():
        seqs = cfg.tk().detokenise(list(toks))
        return " ".join(p_msgs(s.abs._messages) for s in seqs)
    return ["detokenise"] + cfg.words() + list(toks), guarded(f)


def op_vocab(cfg):
    def f():
        t = cfg.tk()
        # the construction sequence is not observable; what is: the dict (key -> id) and the size.
        # Lean prints the construction sequence; the harness compares through `vocab_view`.
        return f"{t.dictionary_size} " + " ".join(f"{k}={v}" for k, v in t.dictionary.items())
    return ["vocab"] + cfg.words(), guarded(f)


def vocab_view_from_lean(answer):
    """Lean prints `<size> tok0 tok1 …` (construction sequence); turn it into the Python view
    `<size> key=id …` with dict semantics (first insertion position, last assigned id)."""
    parts = answer.split(" ")
    size, seq = parts[0], parts[1:]
    d = {}
    for i, k in enumerate(seq):
        d[k] = i
    return f"{size} " + " ".join(f"{k}={v}" for k, v in d.items())


def op_encode(cfg, toks):
    return ["encode"] + cfg.words() + list(toks), \
        guarded(lambda: " ".join(str(i) for i in cfg.tk().encode(list(toks))))


def op_decode(cfg, ids):
    return ["decode"] + cfg.words() + enc_ints(ids), guarded(lambda: " ".join(cfg.tk().decode(list(ids))))


def op_info(cfg, impute, toks):
    def f():
        import math
        info = cfg.tk().get_info(list(toks), flag_impute_values=impute)
        rows = []

        def o(x):
            return "nan" if isinstance(x, float) and math.isnan(x) else p_int(x)
        for i in range(len(info["info_position"])):
            rows.append(",".join([p_int(info["info_position"][i]), p_int(info["info_time"][i]),
                                  p_int(info["info_time_bar"][i]), o(info["info_pitch"][i]),
                                  o(info["info_circle_of_fifths"][i])]))
        lens = {len(v) for v in info.values()}
        if len(lens) != 1:
            return "LENGTH-MISMATCH " + str(sorted(lens))
        return " ".join(rows)
    return ["info"] + cfg.words() + [w(impute)] + list(toks), guarded(f)


# ------------------------------------------------------------------ MIDI

def op_toMido(r):
    def f():
        track = mk_rel(r).to_midi_track().to_mido_track()
        out = []
        for m in track:
            if m.type == "note_on":
                out.append((7, 0, m.time, m.note, m.velocity, None, None, None, None, None))
            elif m.type == "note_off":
                out.append((6, 0, m.time, m.note, m.velocity, None, None, None, None, None))
            elif m.type == "time_signature":
                out.append((3, None, m.time, None, None, None, None, m.numerator, m.denominator, None))
            elif m.type == "key_signature":
                out.append((2, None, m.time, None, None, None, None, None, None, KEY_IDX[Key(m.key)]))
            elif m.type == "control_change":
                out.append((4, 0, m.time, None, m.value, m.control, None, None, None, None))
            else:
                out.append((1, None, m.time, None, None, None, None, None, None, None))
        from protocol import p_plains
        return p_plains(out)
    return ["toMido"] + enc_msgs(r), guarded(f)


def op_encodeMido(r):
    """the mido objects `to_midi_track().to_mido_track()` builds, attribute by attribute (key signatures by their NAME), against the
    codec model Model/MidoCodec.lean that the composed save/load theorem (Props/C12c.lean) is about"""
    def f():
        try:
            track = mk_rel(r).to_midi_track().to_mido_track()
        except Exception:
            return "ERR"
        out = []
        for m in track:
            ch = getattr(m, "channel", None)
            ch = "N" if ch is None else str(ch)
            if m.type in ("note_on", "note_off"):
                out.append(f"{m.type},{m.time},{ch},{m.note},{m.velocity}")
            elif m.type == "time_signature":
                out.append(f"time_signature,{m.time},{m.numerator},{m.denominator}")
            elif m.type == "key_signature":
                out.append(f"key_signature,{m.time},{m.key}")
            elif m.type == "control_change":
                out.append(f"control_change,{m.time},{ch},{m.control},{m.value}")
            elif m.type == "program_change":
                out.append(f"program_change,{m.time},{ch},{m.program}")
            else:
                out.append(f"other,{m.time}")
        return "[" + ";".join(out) + "]"
    return ["encodeMido"] + enc_msgs(r), f()


MIDO_TYPES = ["note_on", "note_off", "time_signature", "key_signature", "control_change", "program_change", "other"]


def op_parseMido(ty, time, channel, note, velocity, numerator, denominator, key, control, value, program):
    """MidiMessage.parse_mido_message on one mido message built from the given attributes"""
    import mido
    from scoda.midi.midi_message import MidiMessage

    def f():
        kind = MIDO_TYPES[ty]
        if kind == "note_on":
            mm = mido.Message("note_on", channel=channel or 0, note=note, velocity=velocity, time=time)
        elif kind == "note_off":
            mm = mido.Message("note_off", channel=channel or 0, note=note, velocity=velocity, time=time)
        elif kind == "time_signature":
            mm = mido.MetaMessage("time_signature", numerator=numerator, denominator=denominator, time=time)
        elif kind == "key_signature":
            mm = mido.MetaMessage("key_signature", key=key, time=time)
        elif kind == "control_change":
            mm = mido.Message("control_change", channel=channel or 0, control=control, value=value, time=time)
        elif kind == "program_change":
            mm = mido.Message("program_change", channel=channel or 0, program=program, time=time)
        else:
            mm = mido.MetaMessage("set_tempo", tempo=500000, time=time) if channel is None else \
                mido.Message("pitchwheel", channel=channel, pitch=10, time=time)
        m = MidiMessage.parse_mido_message(mm)
        from protocol import MT_RANK
        rank = 1 if m.message_type is None else MT_RANK[m.message_type]
        from protocol import p_plain
        return p_plain((rank, m.channel, m.time, m.note, m.velocity, m.control, m.program, m.numerator, m.denominator,
                        None if m.key is None else KEY_IDX[m.key]))
    has_ch = MIDO_TYPES[ty] in ("note_on", "note_off", "control_change", "program_change") or (MIDO_TYPES[ty] == "other" and channel is not None)
    return ["parseMido", w(ty), w(time), (w(channel or 0) if has_ch else "N"), w(note), w(velocity), w(numerator), w(denominator),
            key, w(control), w(value), w(program)], guarded(f)


def mido_file_from_events(file_ppq, tracks):
    """tracks: list of lists of plain MIDI events (ty, ch, delta, note, vel, ctl, prog, num, den, key(str name!))"""
    import mido
    mf = mido.MidiFile()
    mf.ticks_per_beat = file_ppq
    for evs in tracks:
        tr = mido.MidiTrack()
        for (ty, ch, delta, note, vel, ctl, prog, num, den, key) in evs:
            if ty == 7:
                tr.append(mido.Message("note_on", channel=ch, note=note, velocity=vel, time=delta))
            elif ty == 6:
                tr.append(mido.Message("note_off", channel=ch, note=note, velocity=0 if vel is None else vel, time=delta))
            elif ty == 3:
                tr.append(mido.MetaMessage("time_signature", numerator=num, denominator=den, time=delta))
            elif ty == 2:
                tr.append(mido.MetaMessage("key_signature", key=key, time=delta))
            elif ty == 4:
                tr.append(mido.Message("control_change", channel=ch, control=ctl, value=vel, time=delta))
            elif ty == 5:
                tr.append(mido.Message("program_change", channel=ch, program=prog, time=delta))
            else:
                # an event the library does not interpret; it still carries delta time.  Which kind of event it is
                # is chosen by the (otherwise unused) control field of the plain event.
                kind = (ctl or 0) % 9
                if kind == 0:
                    tr.append(mido.MetaMessage("marker", text="x", time=delta))
                elif kind == 1:
                    tr.append(mido.MetaMessage("text", text="t", time=delta))
                elif kind == 2:
                    tr.append(mido.MetaMessage("set_tempo", tempo=500000, time=delta))
                elif kind == 3:
                    tr.append(mido.Message("sysex", data=[1, 2, 3], time=delta))
                elif kind == 4:
                    tr.append(mido.MetaMessage("sequencer_specific", data=[0, 1], time=delta))
                elif kind == 5:
                    # (not UnknownMetaMessage: mido's own file codec does not keep its delta time)
                    tr.append(mido.MetaMessage("cue_marker", text="c", time=delta))
                elif kind == 6:
                    tr.append(mido.Message("pitchwheel", channel=ch or 0, pitch=100, time=delta))
                elif kind == 7:
                    tr.append(mido.Message("aftertouch", channel=ch or 0, value=10, time=delta))
                else:
                    tr.append(mido.MetaMessage("lyrics", text="la", time=delta))
        mf.tracks.append(tr)
    return mf


def p_seq(s):
    a = p_msgs(s.abs._messages)
    r = p_msgs(s.rel._messages)
    return f"A{a} R{r}"


def _enc_midi_ev(ev):
    (ty, ch, delta, note, vel, ctl, prog, num, den, key) = ev
    if ty == 7 and vel == 0:
        ty = 6           # note_on with velocity 0 is parsed as NOTE_OFF
    if ty not in (2, 3, 4, 5, 6, 7):
        ty = 1
    # the key index a name stands for comes from the harness's own table of MIDI key names (h3midi_util.MIDO_KEYS), not from the
    # KeyKeyMapping under test (audit 3, O2): a wrong table entry then shows as a correspondence disagreement
    import h3midi_util as _H
    _k = None if key is None else _H.expected_key_index(key, _H.key_index_by_member())
    kidx = None if key is None else (-7 if _k is None else _k)
    ch_w = None if ty in (1, 2, 3) else ch
    if ty == 1:
        # the kind of uninterpreted event is the harness's business, not the model's — except that channel messages
        # (pitch wheel, aftertouch) carry a channel, which the loader may pick up as its default channel
        ch_w = (ch or 0) if (ctl or 0) % 9 in (6, 7) else None
        ctl = None
    return [w(ty), w(ch_w), w(delta), w(note), w(vel), w(ctl), w(prog), w(num), w(den), w(kidx)]


def op_convert(file_ppq, target, groups, meta_idx, tracks, scratch_dir):
    def f():
        mf = mido_file_from_events(file_ppq, tracks)
        fd, path = tempfile.mkstemp(suffix=".mid", dir=scratch_dir)
        os.close(fd)
        try:
            mf.save(path)
            seqs = Sequence.sequences_load(file_path=path, track_indices=[list(g) for g in groups],
                                           meta_track_indices=list(meta_idx), target_meta_track_index=target)
        finally:
            os.unlink(path)
        return " | ".join(p_seq(s) for s in seqs)
    words = ["convert", w(file_ppq), w(target)] + enc_many(enc_ints, groups) + enc_ints(meta_idx) \
        + enc_many(lambda evs: enc_many(_enc_midi_ev, evs), tracks)
    return words, guarded(f)


# ------------------------------------------------------------------ music theory

def _opt(fn):
    try:
        v = fn()
    except (ValueError, KeyError, IndexError, AssertionError, TypeError):
        return "RAISE"
    if v is None:
        return "N"
    if isinstance(v, Key):
        return str(KEY_IDX[v])
    return p_int(v)


def op_transposeKey(k, by):
    return ["transposeKey", w(k), w(by)], _opt(lambda: Key.transpose_key(KEYS[k], by))


def op_getPosition(p):
    return ["getPosition", w(p)], _opt(lambda: CircleOfFifths.get_position(p))


def op_getDistance(a, b):
    return ["getDistance", w(a), w(b)], _opt(lambda: CircleOfFifths.get_distance(a, b))


def op_fromDistance(a, d):
    return ["fromDistance", w(a), w(d)], _opt(lambda: CircleOfFifths.from_distance(a, d))
