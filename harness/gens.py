"""Input generators.  Every random choice comes from the `random.Random` passed in, which the
check derives from VERIF_SEED, so a case replays exactly (DESIGN §2.4)."""
from protocol import pm, INTERNAL, KEYSIG, TIMESIG, CC, PC, OFF, ON, WAIT

# every time signature a MIDI file can carry with numerator <= 17 and a power-of-two denominator <= 16 (incl. 8/8, the
# library's configured default signature, 1/1, 17/16 ...): bar lengths are whole ticks at 24 ticks per quarter
ALL_SIGS = [(n, d) for d in (1, 2, 4, 8, 16) for n in range(1, 18)]
COMMON_SIGS = [(4, 4), (3, 4), (6, 8), (2, 4), (5, 8), (2, 2), (7, 8), (8, 8)]


def any_sig(rng, common=0.6):
    return rng.choice(COMMON_SIGS) if rng.random() < common else rng.choice(ALL_SIGS)


DEFAULT_STEPS = [24, 12, 6, 16, 8, 4]
DEFAULT_VALUES = [24, 12, 6, 16, 8, 4, 36, 18, 9]
TOK_STEPS = [2, 3, 4, 6, 8, 12, 16, 24]


# ----------------------------------------------------------------------------- note sets

def gen_notes(rng, n_notes=None, channels=(0, 1, 2), pitches=None, max_tick=200, grid=1, max_dur=60,
              allow_overlap=False, short_bias=0.3):
    """list of (ch, pitch, on, dur, vel); per (ch, pitch) non-overlapping unless allow_overlap.
    Abutting notes (next on == previous off) are allowed and produced on purpose."""
    if n_notes is None:
        n_notes = rng.randint(0, 8)
    if pitches is None:
        pitches = rng.choice([[60, 62], [60, 61, 64, 67], list(range(55, 70)), [0, 1, 60], [21, 108, 60]])
    notes = []
    for _ in range(n_notes):
        ch = rng.choice(channels)
        p = rng.choice(pitches)
        on = rng.randrange(0, max_tick // grid + 1) * grid
        if rng.random() < short_bias:
            dur = rng.choice([1, 1, 2, 3]) * grid
        else:
            dur = rng.randint(1, max(1, max_dur // grid)) * grid
        vel = rng.choice([1, 24, 25, 64, 100, 127, rng.randint(1, 127)])
        # sometimes abut an existing note of the same key
        same = [x for x in notes if x[0] == ch and x[1] == p]
        if same and rng.random() < 0.3:
            prev = rng.choice(same)
            on = prev[2] + prev[3]
        cand = (ch, p, on, dur, vel)
        if not allow_overlap:
            clash = any(x[0] == ch and x[1] == p and not (on + dur <= x[2] or x[2] + x[3] <= on) for x in notes)
            if clash:
                continue
        notes.append(cand)
    return notes


def notes_to_abs(notes, extra=(), cap=None):
    """absolute message list in canonical sorted order (as AbsoluteSequence.sort would give)"""
    msgs = []
    for (ch, p, on, dur, vel) in notes:
        msgs.append(pm(ON, ch, on, note=p, vel=vel))
        msgs.append(pm(OFF, ch, on + dur, note=p))
    msgs.extend(extra)
    if cap is not None:
        msgs.append(pm(INTERNAL, 0, cap))
    msgs.sort(key=lambda m: (m[2], m[1], m[0], -1 if m[3] is None else m[3]))
    return msgs


def shuffle_ties(rng, a):
    """the same absolute events with the messages of each tick in random order: what add_absolute_message (a binary insort by
    time only) leaves behind, depending on the order in which the messages were entered"""
    out, i = [], 0
    while i < len(a):
        j = i
        while j < len(a) and a[j][2] == a[i][2]:
            j += 1
        grp = list(a[i:j])
        rng.shuffle(grp)
        out.extend(grp)
        i = j
    return out


def gen_extras(rng, max_tick=200, grid=1, n=None, channels=(0,)):
    """non-note events: time signatures, key signatures, control and program changes"""
    if n is None:
        n = rng.choice([0, 0, 1, 2, 3])
    out = []
    for _ in range(n):
        t = rng.randrange(0, max_tick // grid + 1) * grid
        ch = rng.choice(channels)
        k = rng.random()
        if k < 0.4:
            num, den = any_sig(rng)
            out.append(pm(TIMESIG, ch, t, num=num, den=den))
        elif k < 0.7:
            out.append(pm(KEYSIG, ch, t, key=rng.randrange(15)))
        elif k < 0.9:
            out.append(pm(CC, ch, t, vel=rng.choice([0, 0, rng.randrange(128)]), ctl=rng.choice([0, 1, 7, 64])))      # the legal value 0 included
        else:
            out.append(pm(PC, ch, t, prog=rng.randrange(8)))
    return out


def gen_wf_abs(rng, **kw):
    """well-formed absolute sequence with optional trailing cap"""
    max_tick = kw.get("max_tick", 200)
    grid = kw.get("grid", 1)
    notes = gen_notes(rng, **kw)
    extras = gen_extras(rng, max_tick=max_tick, grid=grid, channels=kw.get("channels", (0,)))
    end = max([n[2] + n[3] for n in notes] + [e[2] for e in extras] + [0])
    cap = None
    if rng.random() < 0.5:
        cap = end + rng.choice([0, 1, grid, 7, 24]) if rng.random() < 0.7 else end
    return notes_to_abs(notes, extras, cap), notes


def abs_to_rel(a):
    """independent (harness-side) conversion of a time-sorted absolute list to a relative list"""
    out = []
    cur = 0
    for m in a:
        if m[2] > cur:
            out.append(pm(WAIT, m[1], m[2] - cur))
            cur = m[2]
        if m[0] != INTERNAL:
            out.append((m[0], m[1], None) + tuple(m[3:]))
    return out


def unconsolidate(rng, rel, p=0.3, trailing=True):
    """same music, different message list: some waits split in two, and sometimes one or two extra trailing waits
    (what concatenation, hand-built sequences or add_relative_message leave behind before any normalise)"""
    out = []
    for m in rel:
        if m[0] == WAIT and m[2] is not None and m[2] >= 2 and rng.random() < p:
            a = rng.randint(1, m[2] - 1)
            out.append(pm(WAIT, m[1], a))
            out.append(pm(WAIT, m[1], m[2] - a))
        else:
            out.append(m)
    if trailing and rng.random() < 0.4:
        for _ in range(rng.choice([1, 2, 2, 3])):
            out.append(pm(WAIT, 0, rng.choice([1, 6, 12, 5])))
    return out


def gen_wf_rel(rng, **kw):
    a, notes = gen_wf_abs(rng, **kw)
    return abs_to_rel(a), notes


def gen_ill_rel(rng, n=None, channels=(0, 1), pitches=(0, 1, 60, 61)):
    """possibly ill-formed relative sequence: unclosed, re-triggered, orphaned, nested notes,
    repeated signatures, trailing rests"""
    if n is None:
        n = rng.randint(0, 12)
    out = []
    for _ in range(n):
        k = rng.random()
        ch = rng.choice(channels)
        if k < 0.3:
            out.append(pm(WAIT, ch, rng.choice([1, 2, 6, 12, 24, 5])))
        elif k < 0.55:
            out.append(pm(ON, ch, None, note=rng.choice(pitches), vel=rng.choice([1, 64, 127])))
        elif k < 0.8:
            out.append(pm(OFF, ch, None, note=rng.choice(pitches)))
        elif k < 0.88:
            num, den = rng.choice([(4, 4), (3, 4), (4, 4), (6, 8), (8, 8), (8, 8)]) if rng.random() < 0.8 else any_sig(rng)
            out.append(pm(TIMESIG, ch, None, num=num, den=den))
        elif k < 0.95:
            out.append(pm(KEYSIG, ch, None, key=rng.choice([0, 0, 1, 8])))
        else:
            out.append(pm(CC, ch, None, vel=rng.randrange(128), ctl=7))
    return out


# ----------------------------------------------------------------------------- pieces for bars / tokeniser

SIGS = [(4, 4), (3, 4), (2, 4), (6, 8), (5, 8), (7, 8), (2, 2), (3, 8), (4, 8)]
# unusual but legal signatures: long bars (more than 16 eighths), numerators at the range bounds, whole- and half-note
# beats, sixteenth beats (odd ones have no whole number of eighths: the tokeniser must reject them)
EXOTIC_SIGS = [(9, 4), (5, 2), (12, 4), (6, 2), (8, 4), (3, 2), (12, 8), (16, 8), (17, 8), (1, 4), (1, 8), (2, 8), (9, 8),
               (15, 8), (3, 16), (6, 16), (1, 2), (4, 2), (1, 1), (2, 1), (16, 4)]


def pick_sig(rng):
    r = rng.random()
    return rng.choice(EXOTIC_SIGS) if r < 0.1 else (rng.choice(ALL_SIGS) if r < 0.2 else rng.choice(SIGS + [(8, 8)]))


def bar_len(num, den, ppqn=24):
    return ppqn * 4 * num // den


def gen_piece(rng, n_tracks=None, n_bars=None, steps=None, values=None, pitch_range=(21, 108), max_notes_per_bar=3,
              sig_change_prob=0.3, key_changes=False, unequal=False, tail_ok=False, within_bar=False):
    """A multi-track piece on a bar grid.  Returns dict with
       tracks: list of relative message lists (one single-channel sequence per track, channel 0),
       notes:  per track list of (pitch, on, dur, vel),
       bars:   list of (start, length, num, den),
       sigs:   list of (tick, num, den) actually placed (on track 0)"""
    steps = steps or TOK_STEPS
    values = values or DEFAULT_VALUES
    if n_tracks is None:
        n_tracks = rng.choice([1, 1, 2, 3])
    if n_bars is None:
        n_bars = rng.randint(1, 5)
    g = min(steps)
    bars = []
    sigs = []
    t = 0
    cur = None
    for b in range(n_bars):
        if b == 0:
            if rng.random() < 0.7:
                cur = pick_sig(rng)
                sigs.append((0, cur[0], cur[1]))
        elif rng.random() < sig_change_prob:
            cur = pick_sig(rng)
            sigs.append((t, cur[0], cur[1]))
        num, den = cur if cur is not None else (None, None)
        bars.append((t, None, num, den))
        t += bar_len(*(cur or (4, 4)))
    bars = [(s, bar_len(*((n, d) if n else (4, 4))), n, d) for (s, _, n, d) in bars]
    total = t
    tracks = []
    notes_all = []
    for ti in range(n_tracks):
        notes = []
        track_bars = n_bars if not unequal or ti == 0 else rng.randint(0, n_bars)
        for (start, length, _, _) in bars[:track_bars]:
            for _ in range(rng.randint(0, max_notes_per_bar)):
                on = start + rng.randrange(0, length // g) * g
                dur = rng.choice(values)
                p = rng.randint(pitch_range[0], pitch_range[1])
                vel = rng.choice([1, 30, 64, 100, 127, rng.randint(1, 127)])
                if not tail_ok and on + dur > total:
                    continue
                if within_bar and on + dur > start + length:
                    continue
                if any(x[0] == p and not (on + dur <= x[1] or x[1] + x[2] <= on) for x in notes):
                    continue
                notes.append((p, on, dur, vel))
        extras = []
        if ti == 0:
            for (tick, n, d) in sigs:
                extras.append(pm(TIMESIG, 0, tick, num=n, den=d))
            if key_changes:
                for (start, _, _, _) in bars:
                    if rng.random() < 0.3:
                        extras.append(pm(KEYSIG, 0, start, key=rng.randrange(15)))
        a = notes_to_abs([(0, p, on, dur, vel) for (p, on, dur, vel) in notes], extras,
                         cap=(bars[track_bars - 1][0] + bars[track_bars - 1][1]) if track_bars > 0 and rng.random() < 0.6 else None)
        tracks.append(abs_to_rel(a))
        notes_all.append(sorted(notes, key=lambda x: (x[1], x[0])))
    return {"tracks": tracks, "notes": notes_all, "bars": bars, "sigs": sigs, "total": total}


def gen_tk_cfg(rng, n_tracks, thorough=False):
    from pyimpl import TkCfg
    flags = [rng.random() < 0.5 for _ in range(5)]
    bins = rng.choice([1, 1, 2, 3, 4, 5, 8, 12, 16] if not thorough else list(range(1, 15)) + [16, 18, 21])
    return TkCfg(num_tracks=n_tracks, velocity_bins=bins, running=flags[0], fuse_track=flags[1],
                 fuse_value=flags[2], fuse_velocity=flags[3], simplify_ts=flags[4],
                 pitch_range=rng.choice([(21, 108), (0, 127), (21, 108)]))


# ----------------------------------------------------------------------------- small-scope exhaustive enumeration

SMALL_ALPHABET = [pm(WAIT, 0, 1), pm(WAIT, 0, 2), pm(ON, 0, None, note=60, vel=64), pm(OFF, 0, None, note=60),
                  pm(ON, 0, None, note=61, vel=100), pm(OFF, 0, None, note=61), pm(ON, 1, None, note=60, vel=64),
                  pm(OFF, 1, None, note=60), pm(TIMESIG, 0, None, num=3, den=4), pm(KEYSIG, 0, None, key=1)]


def enum_rel(max_len, alphabet=None):
    """every relative message list of length <= max_len over a small alphabet (well-formed or not): two rests, two
    pitches, two channels, a time and a key signature — the exhaustive small scope of the correspondence"""
    import itertools
    alphabet = alphabet or SMALL_ALPHABET
    for n in range(max_len + 1):
        for combo in itertools.product(alphabet, repeat=n):
            yield list(combo)


def spread_channels(rng, rel, channels=(0, 1, 2)):
    """the same relative track with every note moved to a random channel (note-on and its note-off together; notes of one
    pitch keep one channel so that the track stays well-formed); waits take the channel of the message that follows them,
    as the library's own conversion does"""
    ch_of = {}
    out = []
    for m in rel:
        if m[0] in (ON, OFF):
            c = ch_of.setdefault(m[3], rng.choice(channels))
            out.append((m[0], c) + tuple(m[2:]))
        else:
            out.append(m)
    for i, m in enumerate(out):
        if m[0] == WAIT:
            nxt = next((x for x in out[i + 1:] if x[0] != WAIT), None)
            if nxt is not None:
                out[i] = (WAIT, nxt[1]) + tuple(m[2:])
    return out
