"""Harness-side helpers of the tokeniser family (C01, C02, C03, C19), added while closing audit round 3 (O3, O4, O8, K5).

Nothing here imports scoda: every function works on the generator's plain data (configuration keywords, relative plain
message lists) and re-implements what the property texts speak about — velocity bins, the vocabulary's construction sequence,
the bar grid, the time-signature timeline — independently of the implementation under test."""
from fractions import Fraction

import gens as G
from oracle_util import *  # noqa
from protocol import pm
from tokutil import bar_grid, piece_of_tracks

TK_DEFAULT_STEPS = [2, 3, 4, 6, 8, 12, 16, 24]          # get_default_step_sizes(lower_bound_shift=1) at the library's PPQN of 24
TK_DEFAULT_VALUES = [24, 12, 6, 16, 8, 4, 36, 18, 9]    # get_default_note_values()


# ----------------------------------------------------------------------------- velocity bins

def h_velocity_bins(n, vmax=127):
    """the bin values `get_velocity_bins(velocity_bins=n)` documents: bin_size = round(vmax / n) (round-half-even, as Python's
    round), bin i = int(min(vmax, (i + 1) * bin_size + bin_size / 2)); computed here in exact integer arithmetic.
    NOTE: the rule itself is defective for some n (known findings D16: top bin below 127; D16b: several bins clipped to 127);
    those are recorded findings of the formula, reproduced here on purpose so that the oracles can tell them from a changed formula."""
    q = Fraction(vmax, n)
    fl = q.numerator // q.denominator
    r = q - fl
    bs = fl + (1 if (r > Fraction(1, 2) or (r == Fraction(1, 2) and fl % 2 == 1)) else 0)
    return [min(vmax, ((2 * i + 3) * bs) // 2) for i in range(n)]


# ----------------------------------------------------------------------------- vocabulary (construction sequence)

def h_vocab_keys(cfgd):
    """the keys the constructor assigns ids to, in order, WITH repetitions (id = position): the four literals, one rest per
    step size, the unfused track / value / velocity tokens, the fused note tokens (track x pitch x value x velocity), the
    time signatures.  cfgd: TkCfg.kw (constructor keywords).  Used only to PREDICT what duplicate user lists do (finding D31)."""
    steps = sorted(cfgd["step_sizes"] if cfgd["step_sizes"] is not None else TK_DEFAULT_STEPS)
    values = sorted(cfgd["note_values"] if cfgd["note_values"] is not None else TK_DEFAULT_VALUES)
    bins = h_velocity_bins(cfgd["velocity_bins"])
    keys = ["pad", "sta", "sto", "bar"] + ["rst_%02d" % s for s in steps]
    parts = []
    if cfgd["flag_fuse_track"]:
        parts.append(["trk_%02d-" % t for t in range(cfgd["num_tracks"])])
    else:
        keys += ["trk_%02d" % t for t in range(cfgd["num_tracks"])]
    parts.append(["pit_%03d-" % p for p in range(cfgd["pitch_range"][0], cfgd["pitch_range"][1] + 1)])
    if cfgd["flag_fuse_value"]:
        parts.append(["val_%02d-" % v for v in values])
    else:
        keys += ["val_%02d" % v for v in values]
    if cfgd["flag_fuse_velocity"]:
        parts.append(["vel_%03d-" % b for b in bins])
    else:
        keys += ["vel_%03d" % b for b in bins]
    fused = [""]
    for p in parts:
        fused = [a + b for a in fused for b in p]
    keys += [k[:-1] for k in fused]
    keys += ["tsg_%02d_08" % n for n in range(cfgd["time_signature_range"][0], cfgd["time_signature_range"][1] + 1)]
    return keys


def user_duplicates(cfg_kw):
    """(has the user-supplied step list a repeated entry, has the user-supplied value list one)"""
    s, v = cfg_kw.get("step_sizes"), cfg_kw.get("note_values")
    return (s is not None and len(set(s)) != len(s)), (v is not None and len(set(v)) != len(v))


def d31_prediction(cfgd):
    """what repeated entries do to the dictionary on the unchanged tree: every id but the last one assigned to a key is lost.
    -> (number of ids handed out, number of entries, sorted ids no key maps to)"""
    keys = h_vocab_keys(cfgd)
    last = {}
    for i, k in enumerate(keys):
        last[k] = i
    kept = set(last.values())
    return len(keys), len(last), [i for i in range(len(keys)) if i not in kept]


# ----------------------------------------------------------------------------- time signatures

def barlen_timeline(sigs, ppqn=24, default=(8, 8)):
    """the bar length in force as a list of change points [(tick, length)] — what 'the same bar grid' means for the
    signature events of a sequence: which signature is written (4/4, 8/8, 2/2) does not matter, where the bar length
    changes and to what does.  `sigs`: [(tick, num, den)] in sequence order (of two on one tick the later is in force);
    before the first one the library's default 8/8 is in force; a signature that repeats the length in force is no change."""
    at = {}
    for (t, n, d) in sigs:
        at[t] = (n, d)
    cur = Fraction(ppqn * 4 * default[0], default[1])
    out = []
    for t in sorted(at):
        n, d = at[t]
        if not d:
            out.append((t, None))
            continue
        ln = Fraction(ppqn * 4 * n, d)
        if ln != cur:
            out.append((t, int(ln) if ln.denominator == 1 else float(ln)))
            cur = ln
    return out


# ----------------------------------------------------------------------------- D15 / D19, predicted from the plain input

def d15_prediction(tracks, ppqn=24):
    """what the unchanged tree returns for a piece of D15's class: the stream ends with the bar that holds the last event ONSET
    (note-on, signature, trailing cap), so the detokenised bar ends are the grid up to that onset and the duration is the later
    of that bar end and the last note end.  -> (bar ends, duration, bar ends the text asks for)"""
    notes, sigs, caps, wf = piece_of_tracks(tracks)
    last_msg, longest = 0, 0
    for t in tracks:
        timed, dur = rel_timed(t)
        last_msg = max([last_msg] + [x for x, _ in timed])
        longest = max(longest, dur)
    caps = [longest] if longest > last_msg else []
    last = max([on for ns in notes for (p, on, d, v) in ns] + [t for t, _, _ in sigs] + caps + [0])
    ends = bar_grid(sigs, last, ppqn) or []
    note_end = max([on + d for ns in notes for (p, on, d, v) in ns] + [0])
    end_all = max([note_end] + [t for t, _, _ in sigs] + caps + [0])
    full = bar_grid(sigs, end_all, ppqn) or []
    return ends, max([note_end] + ends[-1:]), full


def bars_plain(tracks, ppqn=24):
    """[(start, end)] of the bars of the piece, from the signatures alone (track 0 carries them), up to the end of the piece"""
    notes, sigs, caps, wf = piece_of_tracks(tracks)
    end_all = max([on + d for ns in notes for (p, on, d, v) in ns] + [t for t, _, _ in sigs] + caps + [0])
    ends = bar_grid(sigs, end_all, ppqn) or []
    return list(zip([0] + ends[:-1], ends))


def stalled_chunk_plain(tracks, cuts, ppqn=24):
    """D19's class decided on the plain input: a call other than the last ends with a bar in which nothing moves the
    tokeniser's clock off the bar line — every note of the bar (a note sounding in from an earlier bar is re-struck on the bar
    line by the split) starts on the bar line, and some note ends exactly on the closing bar line (else the bar's padding
    leaves a trailing rest, whose cap message moves the clock)."""
    bars = bars_plain(tracks, ppqn)
    notes, sigs, caps, wf = piece_of_tracks(tracks)
    allnotes = [(on, on + d) for ns in notes for (p, on, d, v) in ns]
    for c in sorted({c for c in cuts if 0 < c < len(bars)}):
        s, e = bars[c - 1]
        segs = [(max(on, s), min(off, e)) for (on, off) in allnotes if on < e and off > s]
        if segs and all(a == s for a, _ in segs) and any(b == e for _, b in segs):
            return True
    return False


def d19_shifts(tracks, cuts, ppqn=24):
    """what D19 does, predicted from the plain input: a call that stalls returns with its clock on the line where its last bar STARTS, so
    everything the later calls emit lies earlier by that bar's length; -> the cumulative amounts (one per stalled cut, in order)"""
    bars = bars_plain(tracks, ppqn)
    out, acc = [], 0
    for c in sorted({c for c in cuts if 0 < c < len(bars)}):
        if stalled_chunk_plain(tracks, [c], ppqn):
            acc += bars[c - 1][1] - bars[c - 1][0]
            out.append(acc)
    return out


def split_call_shifts(tracks, cuts, ppqn=24):
    """D19 for chunks cut by `Sequence.split` at bar lines (oracle chunked_split), predicted from the plain input.  A call's clock stops on
    its last event ONSET (note-on or signature inside the chunk; the chunk's own end when the chunk ends in a rest, i.e. no note ends exactly
    on the cut) and only the bar that onset lies in is closed: the call returns on that onset if it is a bar line, else at the end of its bar.
    Unlike chunks of Bar objects, a split chunk keeps notes that sound across its inner bar lines, so the last onset may lie bars before
    the cut.  -> the cumulative amounts by which the later calls' output lies early (one per call that falls short, in order; base ticks)"""
    bars = bars_plain(tracks, ppqn)
    lines = [0] + [e for _, e in bars]
    notes, sigs, caps, wf = piece_of_tracks(tracks)
    allnotes = [(on, on + d) for ns in notes for (p, on, d, v) in ns]
    cs = sorted({c for c in cuts if 0 < c < len(bars)})
    out, acc, lo = [], 0, 0
    for c in cs:
        a, b = lines[lo], lines[c]
        onsets = [on for (on, off) in allnotes if a <= on < b] + [t for (t, _, _) in sigs if a <= t < b]
        if not any(off == b for (on, off) in allnotes if a <= on < b):
            onsets.append(b)                     # the chunk ends in a rest: its cap message stands on the cut
        last = max(onsets + [a])
        end = last if last in lines else min(x for x in lines if x > last)
        if end < b:
            acc += b - end
            out.append(acc)
        lo = c
    return out


def d19_falls(tracks, cuts, ppqn=24):
    """D19 for chunks of Bar objects (oracle chunked), as SPANS in the ticks of the single call: for every call that stalls, (where the call
    returns, the cut it should have reached) = (start, end) of its last bar.  Everything the later calls emit lies earlier by end - start."""
    bars = bars_plain(tracks, ppqn)
    return [(bars[c - 1][0], bars[c - 1][1]) for c in sorted({c for c in cuts if 0 < c < len(bars)}) if stalled_chunk_plain(tracks, [c], ppqn)]


def split_call_falls(tracks, cuts, ppqn=24):
    """the same for chunks cut by `Sequence.split` (see split_call_shifts, whose amounts are the lengths of these spans): (where the call
    returns, the cut) for every call that falls short, base ticks"""
    bars = bars_plain(tracks, ppqn)
    lines = [0] + [e for _, e in bars]
    notes, sigs, caps, wf = piece_of_tracks(tracks)
    allnotes = [(on, on + d) for ns in notes for (p, on, d, v) in ns]
    out, lo = [], 0
    for c in sorted({c for c in cuts if 0 < c < len(bars)}):
        a, b = lines[lo], lines[c]
        onsets = [on for (on, off) in allnotes if a <= on < b] + [t for (t, _, _) in sigs if a <= t < b]
        if not any(off == b for (on, off) in allnotes if a <= on < b):
            onsets.append(b)
        last = max(onsets + [a])
        end = last if last in lines else min(x for x in lines if x > last)
        if end < b:
            out.append((end, b))
        lo = c
    return out


def _pair_as_view(notes):
    """the notes a reader pairs off a sequence holding `notes` = [(pitch, onset, duration, velocity)] (one channel), the way tokutil.detok_view
    reads them: events in the absolute view's order (tick, note-off before note-on, pitch), a note-on paired with the next note-off of its
    pitch, a second note-on of a sounding pitch replacing the first.  Without two notes of one pitch on one tick this is the identity."""
    evs = []
    for (p, on, d, v) in notes:
        evs.append((on, 1, p, v))
        evs.append((on + d, 0, p, v))
    evs.sort(key=lambda e: (e[0], e[1], e[2]))
    open_, out = {}, []
    for (t, ty, p, v) in evs:
        if ty == 1:
            open_[p] = (t, v)
        elif p in open_:
            on, v0 = open_.pop(p)
            out.append((p, on, t - on, v0))
    return sorted(out)


def d19_predict(kind, ref, falls, ppqn=24):
    """what D19 makes of the single call's list `ref`, from the predicted spans `falls` = [(where a call returned, the cut it should have
    reached)] (ticks of the single call).  A call that returns early leaves its clock on `ret`; the next call lays its events from there, so
    every event at or after the cut lies earlier by (cut - ret), cumulatively over the calls that fell short; the bar ends the early call
    never reached (ret < e <= cut) are not emitted at all.
    kind 'notes': ref = [(pitch, onset, duration, velocity)] — the whole tuples move, none is lost or invented; the result is read the way the
    view reads it (`_pair_as_view`: a note laid exactly onto a sounding note of its pitch merges with it);
    kind 'bar-grid': ref = [bar end] (the view holds them as a sorted set);
    kind 'signatures': ref = change points [(tick, bar length)] — every change moves like a note onset; of two on one tick the later one is in
    force, a change to the length already in force is none (before the first: the default 8/8)."""
    acc = lambda t, strict=False: sum(cut - ret for (ret, cut) in falls if (cut < t if strict else cut <= t))  # noqa: E731
    if kind == "notes":
        return _pair_as_view([(p, on - acc(on), d, v) for (p, on, d, v) in ref])
    if kind == "bar-grid":
        return sorted({e - acc(e, True) for e in ref if not any(ret < e <= cut for (ret, cut) in falls)})
    at = {}
    for (t, ln) in ref:
        at[t - acc(t)] = ln
    out, cur = [], ppqn * 4
    for t in sorted(at):
        if at[t] != cur:
            out.append((t, at[t]))
            cur = at[t]
    return out


def d19_outcome(clause, detail, falls, ppqn=24, grid=None):
    """does a failure detail of C03's `chunked` / `chunked_split` oracle ("… <reference list>, chunked <list> (partition …)") show D19's
    effect and nothing else (audit round 4, B3: whole tuples, nothing missing, every event after the j-th early return shifted by exactly the
    cumulative amount): the chunked list IS `d19_predict` of the reference list, and differs from it.  Against the single call on the
    GENERATED tracks the oracle compares the bar ends only as far as both lists go (the generated tracks may stop before their last bar ends, so
    that list is a beginning of the bar lines `grid`, which the caller computes from the signatures of the plain input): there the chunked list
    must be a beginning of the prediction made from the whole grid.  The exact test is the one against the re-joined bars, which every such
    input gets as well."""
    import ast
    import re
    if clause not in ("notes", "bar-grid", "signatures") or not falls:
        return False
    lists = re.findall(r"\[(?:[^\[\]])*\]", detail)
    if len(lists) < 2:
        return False
    try:
        ref, got = ast.literal_eval(lists[0]), ast.literal_eval(lists[1])
    except Exception:
        return False
    if clause == "notes":
        if not all(isinstance(x, tuple) and len(x) == 4 and all(isinstance(y, int) for y in x) for x in ref + got):
            return False
        return sorted(got) == d19_predict("notes", ref, falls) and sorted(got) != sorted(ref)
    if clause == "signatures":
        if not all(isinstance(x, tuple) and len(x) == 2 and all(isinstance(y, int) for y in x) for x in ref + got):
            return False
        return got == d19_predict("signatures", ref, falls, ppqn) and got != ref
    if not all(isinstance(x, int) for x in ref + got):
        return False
    if "on the generated tracks" in detail:
        if grid is None or ref != list(grid)[:len(ref)]:
            return False
        pred, k2 = d19_predict("bar-grid", list(grid), falls), min(len(ref), len(got))
        return 0 < len(got) <= len(pred) and got == pred[:len(got)] and got[:k2] != ref[:k2]
    pred = d19_predict("bar-grid", ref, falls)
    return got == pred and got != ref


# ----------------------------------------------------------------------------- configurations: step lists, value lists, resolutions

# step lists (ticks): a step above the resolution, three-digit steps, unsorted lists, a single step, odd units, repeated entries
STEP_MENU = {
    24: [[2, 4, 8, 48], [24, 6, 12, 2], [8, 2, 4, 16], [4, 8, 24, 96, 192], [6, 12, 24, 48, 96, 144], [2, 3, 4, 6, 8, 12, 16, 24, 48, 96],
         [6], [1, 2, 3, 5, 24], [12, 100, 4]],
    12: [[1, 2, 3, 4, 6, 12], [12, 2, 4, 24], [3, 6, 48], [2, 4, 8, 24, 96]],
    48: [[4, 8, 16, 48, 96], [96, 12, 24, 6, 192], [2, 3, 4, 6, 8, 12, 16, 24, 48], [8, 16, 64, 128, 384]],
    96: [[8, 16, 32, 96, 192, 384], [384, 24, 48, 12, 96], [12, 24, 48, 768]],
    6: [[1, 2, 3, 6], [2, 6, 12]],
}
DUP_STEPS = [[4, 4, 8], [2, 4, 4, 8, 8], [12, 6, 6, 24, 12], [2, 2]]
DUP_VALUES = [[12, 12, 24], [24, 6, 24, 6], [8, 8]]
VALUE_MENU = {
    24: [None, [6, 12, 24], [24, 48, 96, 144, 192], [12, 100, 7], [96, 6, 48, 12], [1, 2, 3]],
    12: [None, [3, 6, 12, 24], [12, 1, 48], [6, 12, 100]],
    48: [None, [12, 24, 48, 96, 192], [48, 6, 144, 288]],
    96: [None, [24, 48, 96, 192, 384], [96, 12, 768, 288]],
    6: [None, [1, 2, 3, 6, 12]],
}


def custom_cfg(rng, dup=0.0, ppqns=(24, 24, 12, 48, 96)):
    """constructor keywords (step_sizes / note_values / ppqn, only those that differ from the defaults) of a configuration off
    the default step list; with probability `dup` one of the two lists has a repeated entry"""
    ppqn = rng.choice(ppqns)
    kw = {}
    if ppqn != 24:
        kw["ppqn"] = ppqn
    r = rng.random()
    if r < 0.85:
        kw["step_sizes"] = list(rng.choice(STEP_MENU[ppqn]))
    if rng.random() < 0.5:
        v = rng.choice(VALUE_MENU[ppqn])
        if v is not None:
            kw["note_values"] = list(v)
    if rng.random() < dup:
        if rng.random() < 0.5:
            kw["step_sizes"] = list(rng.choice(DUP_STEPS))
        else:
            kw["note_values"] = list(rng.choice(DUP_VALUES))
    if not kw:
        kw["step_sizes"] = list(STEP_MENU[24][0])
    return kw


def describe_cfg(kw):
    """evidence labels for a configuration's lists"""
    out = []
    p = kw.get("ppqn") or 24
    out.append("ppqn:%d" % p)
    s = kw.get("step_sizes")
    if s is not None:
        out.append("steps:custom")
        if max(s) > p:
            out.append("steps:above-ppqn")
        if max(s) >= 100:
            out.append("steps:three-digit")
        if list(s) != sorted(s):
            out.append("steps:unsorted")
        if len(set(s)) != len(s):
            out.append("steps:duplicate")
    v = kw.get("note_values")
    if v is not None:
        out.append("values:custom")
        if len(set(v)) != len(v):
            out.append("values:duplicate")
    return out


def _sig_menu(ppqn, g, ts_range=(2, 16)):
    out = []
    for (n, d) in G.SIGS + [(8, 8)] + G.EXOTIC_SIGS:
        if d in (1, 2, 4, 8) and (n * 8) % d == 0 and ts_range[0] <= n * 8 // d <= ts_range[1] \
                and (ppqn * 4 * n) % d == 0 and (ppqn * 4 * n // d) % g == 0:
            out.append((n, d))
    return out


def gen_piece_p(rng, ppqn=24, steps=None, values=None, n_tracks=None, n_bars=None, pitch_range=(21, 108), max_notes_per_bar=3,
                sig_change_prob=0.3, tail_ok=False, within_bar=False, channels=None, ts_range=(2, 16)):
    """gens.gen_piece for a tokeniser of resolution `ppqn` with the given step / value lists: bars whose length is a whole number
    of grid units (grid unit = the smallest step), onsets on the grid, durations among the values, signatures on bar lines.
    `channels`: the single channel each input track is written on (the tokeniser re-channels its inputs; default: all on 0).
    Same result shape as gens.gen_piece."""
    steps = sorted(set(steps if steps is not None else TK_DEFAULT_STEPS))
    values = list(values if values is not None else TK_DEFAULT_VALUES)
    g = steps[0]
    if n_tracks is None:
        n_tracks = rng.choice([1, 1, 2, 3])
    if n_bars is None:
        n_bars = rng.randint(1, 5)
    menu = _sig_menu(ppqn, g, ts_range) or [(4, 4)]
    default_ok = (ppqn * 4) % g == 0
    bars, sigs, t, cur = [], [], 0, None
    for b in range(n_bars):
        if b == 0:
            if rng.random() < 0.7 or not default_ok:
                cur = rng.choice(menu)
                sigs.append((0, cur[0], cur[1]))
        elif rng.random() < sig_change_prob:
            cur = rng.choice(menu)
            sigs.append((t, cur[0], cur[1]))
        n, d = cur if cur is not None else (8, 8)
        ln = ppqn * 4 * n // d
        bars.append((t, ln, cur[0] if cur else None, cur[1] if cur else None))
        t += ln
    total = t
    tracks, notes_all = [], []
    for ti in range(n_tracks):
        ch = 0 if channels is None else channels[ti]
        notes = []
        for (start, length, _, _) in bars:
            for _ in range(rng.randint(0, max_notes_per_bar)):
                on = start + rng.randrange(0, max(1, length // g)) * g
                dur = rng.choice(values)
                p = rng.randint(pitch_range[0], pitch_range[1])
                vel = rng.choice([1, 30, 64, 100, 127, rng.randint(1, 127)])
                if not tail_ok and on + dur > total:
                    continue
                if within_bar and on + dur > start + length:
                    continue
                if any(x[0] == p and not (on + dur <= x[1] or x[1] + x[2] <= on) for x in notes):
                    continue
                notes.append((p, on, dur, vel))
        extras = [pm(TIMESIG, ch, tick, num=n, den=d) for (tick, n, d) in sigs] if ti == 0 else []
        a = G.notes_to_abs([(ch, p, on, dur, vel) for (p, on, dur, vel) in notes], extras, cap=total if rng.random() < 0.6 else None)
        tracks.append(G.abs_to_rel(a))
        notes_all.append(sorted(notes, key=lambda x: (x[1], x[0])))
    return {"tracks": tracks, "notes": notes_all, "bars": bars, "sigs": sigs, "total": total}


def sweep_piece(cfgd, pitch=None):
    """one track that makes the tokeniser emit every rest token it can: in a bar as long as the signature range allows, a rest of
    exactly s ticks before a note, for every step size s that fits the bar (a step the greedy decomposition can use must be
    a vocabulary token).  -> relative plain list"""
    ppqn = cfgd["ppqn"] or 24
    steps = sorted(set(cfgd["step_sizes"] if cfgd["step_sizes"] is not None else TK_DEFAULT_STEPS))
    values = cfgd["note_values"] if cfgd["note_values"] is not None else TK_DEFAULT_VALUES
    hi = cfgd["time_signature_range"][1]
    cap = ppqn * 4 * hi // 8
    p = cfgd["pitch_range"][0] if pitch is None else pitch
    v = min(values)
    notes, b = [], 0
    for s in steps:
        if s <= cap:
            notes.append((0, p, b * cap + s, v, 64))
            b += 1 + (1 if s + v > cap else 0)
    a = G.notes_to_abs(notes, [pm(TIMESIG, 0, 0, num=hi, den=8)], cap=(b + 1) * cap)
    return G.abs_to_rel(a)


def rechannel(rel, ch):
    """the same track written on channel `ch` (every message, waits included)"""
    return [(m[0], ch) + tuple(m[2:]) for m in rel]


# ----------------------------------------------------------------------------- pieces with REPEATED bars (seeded change C03_agent8)
# C03 quantifies over all pieces x all partitions x all configurations.  With an un-fused attribute and running values on, the tokens of a
# call depend on the running attributes CARRIED into it (a trk_/val_/vel_ token is written only when the attribute differs from the preceding
# note's), so two calls with the SAME content reached under DIFFERENT carried values must still be tokenised each on its own.  Random pieces
# never hold two calls of identical content; these do: bars are drawn from a few templates (one of them empty), laid out in plans with
# repeats (A B B, A B B B, A B A B, A E B E C, …), notes from small alphabets of values / velocities so that the attribute carried over a call
# boundary is sometimes the same as and sometimes different from the first note of the next call.

REPEAT_SIGS = [(4, 4), (4, 4), (3, 4), (2, 4), (6, 8), (3, 8)]
REPEAT_PLANS = ["ABB", "ABBB", "ABAB", "ABABAB", "AEBEC", "AEEB", "EAEA", "ABCB", "ABBA", "AABB", "ABCABC", "EEAEE", "ABEB", "AEAEB"]


def gen_repeat_piece(rng, n_tracks=None, pitch_range=(55, 70), values=None, ppqn=24):
    """a piece whose bars repeat: result shape of gens.gen_piece plus `plan` (one template letter per bar; E = the empty bar) and `sig_of_bar`.
    A template fixes the signature and the notes (offsets inside the bar, every note ends inside the bar) of every track; a later bar with the
    same letter is a copy.  Signature events stand where the signature changes (and on tick 0)."""
    values = list(values if values is not None else TK_DEFAULT_VALUES)
    if n_tracks is None:
        n_tracks = rng.choice([1, 1, 2, 2, 3])
    main = rng.choice(REPEAT_SIGS)
    vals = rng.sample([v for v in values if v % 6 == 0] or values, 2) if rng.random() < 0.8 else [rng.choice(values)] * 2
    vels = rng.sample([1, 30, 64, 100, 127], 2)
    if rng.random() < 0.35:
        plan = "".join(rng.choice("ABCE") for _ in range(rng.randint(3, 6)))
    else:
        plan = rng.choice(REPEAT_PLANS)
    templates = {}
    for letter in sorted(set(plan)):
        sig = main if (letter == "E" or rng.random() < 0.8) else rng.choice(REPEAT_SIGS)
        length = ppqn * 4 * sig[0] // sig[1]
        per_track = []
        for ti in range(n_tracks):
            notes = []
            if letter != "E":
                for _ in range(rng.choice([0, 1, 1, 2, 2, 3])):
                    dur = rng.choice(vals)
                    if dur > length:
                        continue
                    on = rng.randrange(0, (length - dur) // 6 + 1) * 6
                    p = rng.randint(pitch_range[0], pitch_range[1])
                    if any(x[0] == p and not (on + dur <= x[1] or x[1] + x[2] <= on) for x in notes):
                        continue
                    notes.append((p, on, dur, rng.choice(vels)))
            per_track.append(notes)
        if letter != "E" and not any(per_track):
            per_track[rng.randrange(n_tracks)].append((rng.randint(pitch_range[0], pitch_range[1]), 0, min(vals), rng.choice(vels)))
        templates[letter] = (sig, length, per_track)
    bars, sigs, sig_of_bar, t, cur = [], [], [], 0, None
    for letter in plan:
        sig, length, _ = templates[letter]
        if sig != cur:
            sigs.append((t, sig[0], sig[1]))
            cur = sig
        bars.append((t, length, sig[0], sig[1]))
        sig_of_bar.append(sig)
        t += length
    total = t
    tracks, notes_all = [], []
    for ti in range(n_tracks):
        notes = [(p, start + on, dur, v) for letter, (start, _, _, _) in zip(plan, bars) for (p, on, dur, v) in templates[letter][2][ti]]
        extras = [pm(TIMESIG, 0, tick, num=n, den=d) for (tick, n, d) in sigs] if ti == 0 else []
        a = G.notes_to_abs([(0, p, on, dur, v) for (p, on, dur, v) in notes], extras, cap=total if rng.random() < 0.6 else None)
        tracks.append(G.abs_to_rel(a))
        notes_all.append(sorted(notes, key=lambda x: (x[1], x[0])))
    return {"tracks": tracks, "notes": notes_all, "bars": bars, "sigs": sigs, "total": total, "plan": plan, "sig_of_bar": sig_of_bar}


def repeated_calls(piece, cuts):
    """the calls of the partition `cuts` that have IDENTICAL content to an earlier call of the same partition AND start under the same carried
    signature (plain data: same template letters, same signature in force before the call): [(earlier call index, later call index, do the
    attributes (track, value, velocity) of the last note before the two calls differ)].  The last note before a call = the note with the
    greatest (onset, track) among the bars before it (None at the start of the piece)."""
    plan, nb = piece["plan"], len(piece["plan"])
    bounds = [0] + sorted({c for c in cuts if 0 < c < nb}) + [nb]
    calls = list(zip(bounds, bounds[1:]))

    def carried(lo):
        if lo == 0:
            return None
        edge = piece["bars"][lo][0]
        cand = [(on, ti, dur, v) for ti, ns in enumerate(piece["notes"]) for (p, on, dur, v) in ns if on < edge]
        if not cand:
            return None
        on, ti, dur, v = max(cand)
        return (ti, dur, v)

    out = []
    for j, (lo, hi) in enumerate(calls):
        for i, (lo0, hi0) in enumerate(calls[:j]):
            same_sig = (piece["sig_of_bar"][lo0 - 1] if lo0 else None) == (piece["sig_of_bar"][lo - 1] if lo else None)
            if plan[lo0:hi0] == plan[lo:hi] and same_sig and lo0 > 0:
                out.append((i, j, carried(lo0) != carried(lo)))
                break
    return out


def unfused_running(kw):
    """does the configuration (TkCfg keywords) write at least one attribute as a token of its own under running values — the configurations
    in which a call's tokens depend on the attributes carried into it"""
    if not kw.get("running", True):
        return False
    return (not kw.get("fuse_value", True)) or (not kw.get("fuse_velocity", True) and kw.get("velocity_bins", 1) > 1) \
        or (not kw.get("fuse_track", True) and kw.get("num_tracks", 1) > 1)
