"""Helpers of the C08 / C09 / C10 harness (audit round 3: K1, K2, K3, K5, R6, table of part 3).

Nothing here calls an operation of the library to compute an EXPECTATION: expectations come from the plain data of the generators
and from re-implementations of the property text / of the recorded defects written here.  The only contact with the library is
(a) constructing objects from plain data and (b) reading the attributes `_rel`, `_abs`, `_rel_stale`, `_abs_stale` and `_messages`
of a Sequence (no method of the library runs when they are read)."""
from oracle_util import *  # noqa
from protocol import from_real, to_real, pm


class Detail(str):
    """the text of a clause failure that also carries the facts it was built from (`.data`, a dict): known-finding predicates
    look at the OUTCOME through `.data` instead of parsing the text"""
    def __new__(cls, text, **data):
        o = super().__new__(cls, text)
        o.data = data
        return o


def data_of(f):
    """the structured facts of a failure record (empty dict for a plain string)"""
    return getattr(f.get("detail"), "data", None) or {}


# ----------------------------------------------------------------------------- wrapper states from plain data

def abs_of_rel(rel):
    """harness-side absolute list of a relative list: every message stamped with its tick, in LIST order (no re-sorting of the
    messages of one tick); a trailing rest becomes the INTERNAL end marker, the library's convention for it"""
    t, out, last_wait, dch = 0, [], False, None
    for m in rel:
        if dch is None and m[CH] is not None:
            dch = m[CH]
        if m[TY] == WAIT:
            t += m[TIME]
            last_wait = True
        else:
            out.append((m[0], m[1], t) + tuple(m[3:]))
            last_wait = False
    if last_wait:
        out.append(pm(INTERNAL, dch, t))
    return out


def timed_of_rel(rel):
    tm, dur = rel_timed(rel)
    return sorted(((t, (m[0], m[1], None) + tuple(m[3:])) for t, m in tm), key=repr), dur


def timed_of_abs(a):
    out = sorted(((m[TIME], (m[0], m[1], None) + tuple(m[3:])) for m in a if m[TY] != INTERNAL), key=repr)
    return out, max([m[TIME] for m in a], default=0)


STATES = ["rel", "abs", "both", "stale-rel", "stale-abs", "churned"]


def build_state(rel, state, abs_list=None):
    """a Sequence holding `rel` in wrapper state `state`, built from plain data only (no conversion of the library runs):
    the absolute view, where one is supplied, is `abs_list` (default: `abs_of_rel(rel)`, i.e. list order within a tick).
    Returns (sequence, expected) where expected = {"rel": list | None, "abs": list | None}: the exact message lists of the views
    that were SUPPLIED fresh (None: that view is stale / absent)."""
    from scoda.sequences.sequence import Sequence
    from scoda.sequences.absolute_sequence import AbsoluteSequence
    from scoda.sequences.relative_sequence import RelativeSequence
    a = list(abs_list) if abs_list is not None else abs_of_rel(rel)
    mk_r = lambda ps: RelativeSequence(messages=[to_real(p) for p in ps])      # noqa: E731
    mk_a = lambda ps: AbsoluteSequence(messages=[to_real(p) for p in ps])      # noqa: E731
    if state == "rel":
        return Sequence(relative_sequence=mk_r(rel)), {"rel": list(rel), "abs": None}
    if state == "abs":
        return Sequence(absolute_sequence=mk_a(a)), {"rel": None, "abs": a}
    if state == "both":
        return Sequence(absolute_sequence=mk_a(a), relative_sequence=mk_r(rel)), {"rel": list(rel), "abs": a}
    if state == "insort":
        # the absolute view built message by message through the public add_absolute_message (a binary insort by time): within one
        # tick the stored order is the order of insertion
        s = Sequence()
        for p in a:
            s.add_absolute_message(to_real(p))
        return s, {"rel": None, "abs": None}
    if state == "churned":
        import pyimpl as P
        return P.seq_churned(rel), {"rel": None, "abs": None}
    other = [pm(WAIT, 0, 7)] + [((m[0], m[1], m[2], (m[3] + 1 if m[3] is not None and m[3] < 127 else m[3])) + tuple(m[4:])) for m in rel]
    if state == "stale-rel":       # a relative view object exists but holds OTHER content; the absolute view is the fresh one
        s = Sequence(absolute_sequence=mk_a(a), relative_sequence=mk_r(other))
        s._rel_stale = True
        return s, {"rel": None, "abs": a}
    if state == "stale-abs":
        s = Sequence(absolute_sequence=mk_a(abs_of_rel(other)), relative_sequence=mk_r(rel))
        s._abs_stale = True
        return s, {"rel": list(rel), "abs": None}
    raise ValueError(state)


def raw_views(s):
    """the message lists of the FRESH views of a Sequence, read attribute by attribute (no method of the library runs, nothing is
    refreshed): {"rel": list | None, "abs": list | None}"""
    rel = None if s._rel_stale or getattr(s, "_rel", None) is None else [from_real(m) for m in s._rel._messages]
    ab = None if s._abs_stale or getattr(s, "_abs", None) is None else [from_real(m) for m in s._abs._messages]
    return {"rel": rel, "abs": ab}


def views_hold(views, rel, expected=None):
    """None if the fresh views hold the music of the plain list `rel` (same timed events, same duration; a view that was supplied
    must be message-for-message what was supplied), else a text saying what differs"""
    want = timed_of_rel(rel)
    if views["rel"] is None and views["abs"] is None:
        return "both views are stale"
    for name, conv in (("rel", timed_of_rel), ("abs", timed_of_abs)):
        v = views[name]
        if v is None:
            continue
        if expected and expected.get(name) is not None and v != expected[name]:
            return f"the {name} view is no longer the list it was given: {v[:6]} vs {expected[name][:6]}"
        got = conv(v)
        if got[0] != want[0]:
            return f"the {name} view holds other events: {[x for x in got[0] if x not in want[0]][:3]} / missing {[x for x in want[0] if x not in got[0]][:3]}"
        if got[1] != want[1]:
            return f"the {name} view lasts {got[1]}, the data {want[1]}"
    return None


# ----------------------------------------------------------------------------- generators: shapes the audit found missing

def zero_length_keys(rel, at=None):
    """(channel, pitch, tick, velocity) of every note of a relative list whose note-on and note-off share a tick (optionally only
    those on a tick of `at`)"""
    timed, _ = rel_timed(rel)
    return [(c, p, on, v) for (c, p, on, off, v) in notes_of(timed) if on == off and (at is None or on in at)]


def inject_zero_notes(rng, rel, ticks=None, n=None, pitches=(60, 61, 62), channels=(0,), reuse_key=0.5):
    """the relative list with `n` zero-length notes (note-on directly followed by its note-off) added at random ticks (or at
    ticks taken from `ticks`): a well-formed shape the generators never drew (audit K1).  Keys that sound at the chosen tick are
    avoided so that the list stays well-formed; with probability `reuse_key` the key of an existing note is used (the damage of
    D17 / D18 needs a real note of the same key)."""
    timed, dur = rel_timed(rel)
    notes = notes_of(timed)
    n = rng.choice([1, 1, 1, 2]) if n is None else n
    out = list(rel)
    for _ in range(n):
        tick = rng.choice(list(ticks)) if ticks else rng.randint(0, max(dur, 1))
        if notes and rng.random() < reuse_key:
            c, p = rng.choice(notes)[:2]
        else:
            c, p = rng.choice(channels), rng.choice(pitches)
        timed_now, dur_now = rel_timed(out)
        if any(cc == c and pp == p and on <= tick <= off for (cc, pp, on, off, _) in notes_of(timed_now)):
            continue
        vel = rng.choice([1, 33, 64, 127])
        pair = [pm(ON, c, None, note=p, vel=vel), pm(OFF, c, None, note=p)]
        # find the list position of `tick`: after the events already on that tick, splitting a wait if the tick falls inside one
        t, i, res, done = 0, 0, [], False
        for m in out:
            if not done and m[TY] == WAIT and t + m[TIME] > tick:
                if tick > t:
                    res.append(pm(WAIT, m[CH], tick - t))
                res.extend(pair)
                res.append(pm(WAIT, m[CH], t + m[TIME] - tick))
                t += m[TIME]
                done = True
                continue
            if m[TY] == WAIT:
                t += m[TIME]
            res.append(m)
        if not done:
            if tick > t:
                res.append(pm(WAIT, c, tick - t))
            res.extend(pair)
        out = res
    return out


def insert_at_tick(rel, tick, msgs, before=False):
    """`msgs` (zero-time messages) inserted at `tick` of a relative list: after (default) or before the events already there"""
    t, res, done = 0, [], False
    for m in rel:
        if not done and m[TY] == WAIT and t + m[TIME] > tick:
            if tick > t:
                res.append(pm(WAIT, m[CH], tick - t))
            res.extend(msgs)
            res.append(pm(WAIT, m[CH], t + m[TIME] - tick))
            t += m[TIME]
            done = True
            continue
        if not done and before and t == tick and m[TY] != WAIT:
            res.extend(msgs)
            done = True
        if m[TY] == WAIT:
            t += m[TIME]
        res.append(m)
    if not done:
        if tick > t:
            res.append(pm(WAIT, 0, tick - t))
        res.extend(msgs)
    return res


# ----------------------------------------------------------------------------- C09: the text's grid and the recorded lag (D23)

def meta_events(track, order="list"):
    """time-signature and key-signature events of the meta track as [(tick, value, channel)], in the order in which they are given
    (`list`) or in the order of the absolute view's sort key (`canonical`: tick, then channel, ties in list order)"""
    timed, _ = rel_timed(track)
    ts = [(t, (m[NUM], m[DEN]), m[CH]) for t, m in timed if m[TY] == TIMESIG]
    ks = [(t, m[KEY], m[CH]) for t, m in timed if m[TY] == KEYSIG]
    if order == "canonical":
        keyf = lambda x: (x[0], -1 if x[2] is None else x[2])      # noqa: E731
        ts, ks = sorted(ts, key=keyf), sorted(ks, key=keyf)
    return ts, ks


def bar_len(sig):
    return 96 * sig[0] // sig[1]


def text_walk(ts, ks, nb):
    """the property's reading: bar k carries the signature and key IN FORCE at its start = the last event at or before it (of two
    events on one tick the later one of the given order); 4/4 and no key before any.  Returns nb tuples (start, length, sig, key)"""
    out, start = [], 0
    for _ in range(nb):
        sig, key = (4, 4), None
        for (t, v, _c) in ts:
            if t <= start:
                sig = v
        for (t, v, _c) in ks:
            if t <= start:
                key = v
        out.append((start, bar_len(sig), sig, key))
        if bar_len(sig) <= 0:
            break
        start += bar_len(sig)
    return out


def lag_walk(ts, ks, nb):
    """the recorded defect D23 (Strong589.bar_key_lag / bar_key_caught_up): each queue delivers AT MOST ONE change per bar, so bar k
    carries event number lagCount k = min(lagCount (k-1) + 1, number of events due at its start) of its queue.  Returns nb tuples
    (start, length, sig, key, sig_lagging, key_lagging); `*_lagging`: more changes are due at the bar's start than were delivered"""
    out, start, sig, key = [], 0, (4, 4), None
    qs, qk = list(ts), list(ks)
    for _ in range(nb):
        if qs and qs[0][0] <= start:
            sig = qs.pop(0)[1]
        if qk and qk[0][0] <= start:
            key = qk.pop(0)[1]
        out.append((start, bar_len(sig), sig, key, bool(qs and qs[0][0] <= start), bool(qk and qk[0][0] <= start)))
        if bar_len(sig) <= 0:
            break
        start += bar_len(sig)
    return out


def same_tick_pairs(events, different=True):
    """ticks that carry two events of the list (with different values if `different`)"""
    seen, out = {}, set()
    for (t, v, _c) in events:
        if t in seen and (not different or any(v != w for w in seen[t])):
            out.add(t)
        seen.setdefault(t, []).append(v)
    return out


def requant_prediction(length, allowed):
    """D26: what quantise_note_lengths(do_not_extend=True) does to a note of this length: the largest allowed value not above it, None
    (the note is removed) when there is none — `allowed` is data stored with the finding"""
    ok = [v for v in allowed if v <= length]
    return max(ok) if ok else None


def lag_predicts_exception(tracks, meta, ts):
    """D35: the BarException that D23's one-change-per-bar queue leads to, or None.  The bars are walked on the LAGGED grid (`lag_walk`);
    bar k of a track is built from that track's events in [start, start + length) — a zero-time event on the track's final tick is dropped by
    split when that tick is a bar line (D8) —; Bar() first drops a time signature equal to the one before it, then raises
    `Too many time signatures in a bar` for two or more, `Time signatures not uniform` for one that is not the bar's signature.
    Returns None when no bar holds such an event, or when no signature queue was behind before the failing bar (then it is not D23's lag)."""
    durs = [rel_timed(t)[1] for t in tracks]
    end = max(durs + [0])
    per_track = []
    for i, t in enumerate(tracks):
        ev = list(ts) if i == meta else [(tk, (m[NUM], m[DEN]), m[CH]) for tk, m in rel_timed(t)[0] if m[TY] == TIMESIG]
        per_track.append(ev)
    lag = lag_walk(ts, [], 400)
    behind = False
    for (start, length, sig, _k, sig_lag, _kl) in lag:
        behind = behind or sig_lag
        if length <= 0:
            return None
        for i, ev in enumerate(per_track):
            inside = [v for (tk, v, _c) in ev if start <= tk < start + length and not (tk == durs[i] and tk == start and tk > 0)]
            dedup = [v for j, v in enumerate(inside) if j == 0 or v != inside[j - 1]]
            if len(dedup) > 1:
                return "Too many time signatures in a bar" if behind else None
            if any(v != sig for v in dedup):
                return "Time signatures not uniform" if behind else None
        if start + length >= end and not any(tk >= start + length for ev in per_track for (tk, _v, _c) in ev):
            return None
    return None


def op_splitBars_states(meta_idx, requant, tracks, states):
    """the `splitBars` correspondence request of pyimpl.op_splitBars, with the real call started from sequences in the given wrapper
    states (built from plain data by `build_state`): the model is a function of the relative lists, so model and code must agree
    whenever the supplied absolute view of the meta track holds its signature events in the order the model's conversion gives them
    (hypothesis AbsCoherent of StaticTie.sequencesSplitBars_eq; audit R6)"""
    import pyimpl as P
    from protocol import enc_many, enc_msgs, w
    from scoda.sequences.sequence import Sequence

    def f():
        seqs = [build_state(t, st)[0] for t, st in zip(tracks, states)]
        tb = Sequence.sequences_split_bars(seqs, meta_track_index=meta_idx, quantise_note_lengths=requant)
        return " | ".join(" ".join(P.p_bar(b) for b in bars) for bars in tb)
    return ["splitBars", w(meta_idx), w(requant)] + enc_many(enc_msgs, tracks), P.guarded(f)


# ----------------------------------------------------------------------------- D34 / D38: the orphaned note-on that overruns its bar

def _split1(msgs, cap):
    """harness-side model of what the splitter does to ONE track in ONE round (`RelativeSequence.split([cap])` as recorded, with the
    recorded defects D8 and D18 in it): returns (piece, rest, more) — `more`: a second piece came back (the track is not exhausted).
    Note-ons read when the bar is full are deferred to the rest while note-offs of that tick stay (D18's tear); notes sounding across
    the bar line (as far as the table of sounding notes knows: it is filled by note-ons placed in THIS piece) are closed and re-struck;
    at the end of the track nothing is closed and a queue of deferred events is dropped (D8)."""
    wm, cur, queue, open_, rem = list(msgs), [], [], {}, cap
    pieces = []
    while True:
        if not wm:
            if cur:
                pieces.append(cur)
                cur = []
            break
        m = wm.pop(0)
        if m[TY] == ON:
            if rem > 0:
                cur.append(m)
                open_[(m[CH], m[NOTE])] = m
            else:
                queue.append(m)
        elif m[TY] == OFF:
            cur.append(m)
            open_.pop((m[CH], m[NOTE]), None)
        elif m[TY] == WAIT:
            if m[TIME] <= rem:
                rem -= m[TIME]
                cur.append(m)
            else:
                if rem > 0:
                    cur.append(pm(WAIT, m[CH], rem))
                for (c, p), v in open_.items():
                    cur.append(pm(OFF, c, None, note=p))
                    queue.append(pm(ON, c, None, note=p, vel=v[VEL]))
                queue.append(pm(WAIT, m[CH], m[TIME] - rem))
                if cur:
                    pieces.append(cur)
                wm[0:0] = queue
                cur = []
                break
        else:
            if rem > 0:
                cur.append(m)
            else:
                queue.append(m)
    if wm:
        cur.extend(wm)
    if cur:
        pieces.append(cur)
    if len(pieces) > 1:
        return pieces[0], pieces[1], True
    return (pieces[0] if pieces else []), [], False


def _unclosed_after_requant_sort(piece):
    """the note-ons of a bar piece that the re-quantiser's pairing finds unclosed, as [(channel, pitch, tick in the bar)]: the piece goes
    through the absolute view, whose sort key is (tick, channel, type, pitch) with note-off before note-on; a note-on of a sounding key
    closes the earlier one, a note-off of a silent key is ignored"""
    timed, _ = rel_timed(piece)
    ev = sorted([(t, -1 if m[CH] is None else m[CH], m[TY], m[NOTE]) for t, m in timed if m[TY] in (ON, OFF)])
    open_ = {}
    for (t, c, ty, p) in ev:
        if ty == ON:
            open_[(c, p)] = t
        else:
            open_.pop((c, p), None)
    return [(c, p, t) for (c, p), t in open_.items()]


def predict_overflows(tracks, ts_queue, standard_length, allowed):
    """D34 / D38: where does `BarException: Bar capacity exceeded` come from when re-quantisation is on?  The bars are walked as the
    splitter walks them (signature queue `ts_queue` = [(tick, (n, d), channel)] in the order the splitter holds it, one change per bar:
    `lag_walk`), every track is cut round by round with `_split1`, and in every piece the note-ons that stay unclosed are closed
    `standard_length` later (shortened to the largest allowed value not above it — both stored with the finding).  Returns
    [(track, bar, bar_start, (channel, pitch), tick_in_bar, bar_length)] for every piece whose imputed note-off lies beyond the bar."""
    best = requant_prediction(standard_length, allowed)
    out = []
    if best is None:
        return out
    rest = [list(t) for t in tracks]
    for k, (start, length, _sig, _key, _a, _b) in enumerate(lag_walk(ts_queue, [], 400)):
        if length <= 0:
            break
        more_any = False
        for i in range(len(rest)):
            piece, rest[i], more = _split1(rest[i], length) if rest[i] else ([], [], False)
            more_any = more_any or more
            for (c, p, t) in _unclosed_after_requant_sort(piece):
                if t + best > length:
                    out.append((i, k, start, (c, p), t, length))
        if not more_any:
            break
    return out


def classify_overflows(tracks, ts_queue, standard_length, allowed):
    """`predict_overflows` with the ORIGIN of each orphaned note-on: `torn` — its key is that of a zero-length note of the same track
    sitting on a bar start (after tick 0, at or before the overflowing bar) of the grid the splitter walks: split deferred the note-on
    and left the note-off behind (D18b), the never-ending remainder is re-struck bar after bar (D38); `sorted` — its key is that of
    another zero-length note of the track: inside the bar piece the sort put the note-off before the note-on (D34); `other` — neither
    (no recorded defect explains it)."""
    starts = []
    for (s, L, *_r) in lag_walk(ts_queue, [], 400):
        starts.append(s)
        if L <= 0:
            break
    out = []
    for (i, k, start, key, t, length) in predict_overflows(tracks, ts_queue, standard_length, allowed):
        zl = zero_length_keys(tracks[i])
        torn = {(c, p) for (c, p, tick, _v) in zl if tick in starts and 0 < tick <= start}
        label = "torn" if key in torn else ("sorted" if key in {(c, p) for (c, p, _t, _v) in zl} else "other")
        out.append((label, i, k, start, key, t, length))
    return out


# ----------------------------------------------------------------------------- audit round 4, B5: the MECHANISM of D18 / D18b / D18c, modelled
#
# The predicates of D18 (C08), D18b / D18c (C09) used to ask "is the damaged key the key of some zero-length note?".  They now ask "is the
# damage exactly what the recorded mechanism produces?".  The mechanism is written down here once more, from the findings' texts, on plain
# message tuples (nothing of the library runs):
#   split      — a note-on read when the piece is full is deferred to the next piece, a note-off is not (D18's tear); sounding notes (as far
#                as the splitter's table of sounding notes knows) are closed at the boundary and re-struck; a deferred queue is dropped at the
#                end of the input (D8);
#   re-quantise — the bar piece is sorted by (tick, channel, type, pitch) with note-off before note-on (a zero-length note becomes an orphan
#                note-off followed by an orphaned note-on); the pairing closes an open note-on at the next note-on of its key, else
#                `standard_length` later; an orphan note-off is ignored; every note then gets the largest allowed value that is not above
#                its length and fits before the next onset of its key, or is removed (stored: standard length, default note values);
#   normalise  — Bar() normalises the piece: a note-on of a key that is already sounding is skipped, and so is the note-off that answers it;
#                an orphan note-off is skipped; a note-on that is never closed is removed (so the orphaned note-on SWALLOWS the next note of
#                its key: both vanish).

def split_model(msgs, caps):
    """the pieces `RelativeSequence.split(caps)` returns, as recorded (with D8 and D18): list of message lists.  Unlike `_split1` (one round
    of the bar splitter) the table of sounding notes lives on from one capacity to the next."""
    wm, cur, open_, pieces = list(msgs), [], {}, []
    for cap in caps:
        nxt, queue, rem = [], [], cap
        while rem >= 0:
            if not wm:
                if cur:
                    pieces.append(cur)
                    cur = nxt
                break
            m = wm.pop(0)
            if m[TY] == ON:
                if rem > 0:
                    cur.append(m)
                    open_[(m[CH], m[NOTE])] = m
                else:
                    queue.append(m)
            elif m[TY] == OFF:
                cur.append(m)
                open_.pop((m[CH], m[NOTE]), None)
            elif m[TY] == WAIT:
                if m[TIME] <= rem:
                    rem -= m[TIME]
                    cur.append(m)
                else:
                    if rem > 0:
                        cur.append(pm(WAIT, m[CH], rem))
                    for (c, p), v in open_.items():
                        cur.append(pm(OFF, c, None, note=p))
                        queue.append(pm(ON, c, None, note=p, vel=v[VEL]))
                    queue.append(pm(WAIT, m[CH], m[TIME] - rem))
                    if cur:
                        pieces.append(cur)
                    wm[0:0] = queue
                    cur = nxt
                    break
            else:
                if rem > 0:
                    cur.append(m)
                else:
                    queue.append(m)
    if wm:
        cur = cur + wm
    if cur:
        pieces.append(cur)
    return pieces


def lay_out(pieces):
    """timed events of pieces laid end to end: [(tick on the common clock, message)], and the duration of each piece"""
    laid, off, durs = [], 0, []
    for p in pieces:
        tp, d = rel_timed(p)
        laid.extend((t + off, m) for t, m in tp)
        off += d
        durs.append(d)
    return laid, durs


def requant_model(piece, allowed, standard_length):
    """what `Sequence(relative_sequence=piece).quantise_note_lengths(do_not_extend=True)` leaves behind, read back as a relative list: the
    piece is stamped and sorted by (tick, channel, type, pitch) — note-off (6) before note-on (7) —, its note events are paired per key (an
    open note-on is closed by the next note-on of its key, else `standard_length` after its onset; a note-off of a silent key is ignored),
    every note gets the allowed value closest to (= with do_not_extend: largest not above) its length among those that fit before the next
    onset of its key, or is removed when there is none; the result is sorted again and the rests are re-derived (a trailing rest up to the
    piece's end is kept through the end marker)."""
    t, ev, last_wait = 0, [], False
    for m in piece:
        if m[TY] == WAIT:
            t += m[TIME]
            last_wait = True
        else:
            ev.append((t, m))
            last_wait = False
    keyf = lambda x: (x[0], -1 if x[1][CH] is None else x[1][CH], x[1][TY], -1 if x[1][NOTE] is None else x[1][NOTE])      # noqa: E731
    ev.sort(key=keyf)
    end = t if last_wait else None
    # pairing: per channel, in order of appearance
    pairs, open_ = {}, {}
    for (tk, m) in ev:
        if m[TY] == ON:
            lst = pairs.setdefault(m[CH], [])
            op = open_.setdefault(m[CH], {})
            if m[NOTE] in op:
                lst[op.pop(m[NOTE])].append(tk)
            lst.append([m, tk])
            op[m[NOTE]] = len(lst) - 1
        elif m[TY] == OFF:
            pairs.setdefault(m[CH], [])
            op = open_.setdefault(m[CH], {})
            if m[NOTE] in op:
                pairs[m[CH]][op.pop(m[NOTE])].append(tk)
    out = []
    for ch, lst in pairs.items():
        for p in lst:
            if len(p) == 2:
                p.append(p[1] + standard_length)
        for i, (m, on, off) in enumerate(lst):
            nxt = next((q[1] for q in lst[i + 1:] if q[0][NOTE] == m[NOTE]), None)
            dur = off - on
            fit = [v for v in allowed if v <= dur and (nxt is None or on + v <= nxt)]
            if not fit:
                continue
            best = min(fit, key=lambda v: abs(v - dur))
            out.append((on, m))
            out.append((on + best, pm(OFF, m[CH], None, note=m[NOTE])))
    out.extend((tk, m) for (tk, m) in ev if m[TY] not in (ON, OFF))
    out.sort(key=keyf)
    res, now = [], 0
    for (tk, m) in out:
        if tk > now:
            res.append(pm(WAIT, m[CH], tk - now))
            now = tk
        res.append(m)
    if end is not None and end > now:
        res.append(pm(WAIT, None, end - now))
    return res


def normalise_model(piece):
    """the note events (and rests) of a relative list after `normalise_relative`, as recorded: per key a counter of pending note-ons — a
    note-on is kept only when its key is silent, a note-off only when it brings the counter back to zero (a note-off of a silent key is
    skipped); the kept note-on of a key that is still pending at the end is removed again.  Rests are consolidated; other events are
    kept (repeated signatures are not dropped here: the model is about notes and durations)."""
    pending, out, wait = {}, [], 0
    for m in piece:
        if m[TY] == WAIT:
            wait += m[TIME]
            continue
        k = (m[CH], m[NOTE])
        if m[TY] == ON:
            lst = pending.setdefault(k, [])
            lst.append(len(out) + (1 if wait > 0 else 0))
            if len(lst) != 1:
                continue
        elif m[TY] == OFF:
            lst = pending.get(k, [])
            if not lst:
                continue
            lst.pop()
            if lst:
                continue
        if wait > 0:
            out.append(pm(WAIT, m[CH], wait))
            wait = 0
        out.append(m)
    if wait > 0:
        out.append(pm(WAIT, None, wait))
    drop = {lst[0] for lst in pending.values() if lst}
    return [m for i, m in enumerate(out) if i not in drop]


def bars_model(tracks, ts_queue, requant, allowed, standard_length, max_bars=400):
    """the bars `sequences_split_bars` is recorded to build, track by track: the bars are walked with the one-change-per-bar signature queue
    (`lag_walk` on `ts_queue`, the order the splitter holds), every track is cut round by round (`_split1`), each piece is re-quantised
    (`requant_model`, if on) and normalised (`normalise_model`), and a piece that then lasts longer than its bar stops the walk (Bar()
    raises).  Returns {"laid": [timed note events of track i's bars on the piece clock], "bars": number of bars built,
    "overflow": None | (track, bar), "starts": [bar starts]}."""
    rest = [list(t) for t in tracks]
    laid = [[] for _ in tracks]
    starts, overflow, nb = [], None, 0
    for k, (start, length, _sig, _key, _a, _b) in enumerate(lag_walk(ts_queue, [], max_bars)):
        if length <= 0:
            break
        starts.append(start)
        more_any = False
        for i in range(len(rest)):
            piece, rest[i], more = _split1(rest[i], length) if rest[i] else ([], [], False)
            more_any = more_any or more
            if requant:
                piece = requant_model(piece, allowed, standard_length)
            piece = normalise_model(piece)
            tp, d = rel_timed(piece)
            if d > length:
                overflow = (i, k)
                break
            laid[i].extend((t + start, m) for t, m in tp if m[TY] in (ON, OFF))
        if overflow:
            break
        nb = k + 1
        if not more_any:
            break
    return {"laid": laid, "bars": nb, "overflow": overflow, "starts": starts}


def without_zero_notes(rel, key):
    """the relative list without the zero-length notes (a note-on answered on its own tick, paired as `notes_of` pairs them) of key
    (channel, pitch): what the track would be if the degenerate notes a finding is about were not there"""
    t, open_, drop = 0, {}, set()
    for i, m in enumerate(rel):
        if m[TY] == WAIT:
            t += m[TIME]
        elif m[TY] == ON and (m[CH], m[NOTE]) == tuple(key):
            open_ = {"i": i, "t": t}
        elif m[TY] == OFF and (m[CH], m[NOTE]) == tuple(key) and open_:
            if open_["t"] == t:
                drop |= {open_["i"], i}
            open_ = {}
    return [m for i, m in enumerate(rel) if i not in drop]
