"""livecode.py — the functions that RUN are the functions the translators READ (audit round 5, item 3).

The translators and tools/conventions.py look at the source TEXT of $SCODA_REPO/scoda.  Python lets that text rebind any method at import
time from a place no fingerprint of "places" can enumerate (a default-argument expression, a decorator argument, a comprehension in a class
body, a module imported for its side effect …).  This check closes the class instead of the instances: after the package has been imported
by the harness, every function and method defined in the source text is compiled from that text and compared with the code object that is
live in the imported module (`code.__eq__`: bytecode, constants, names, argument counts, first line).  A difference means that what the
harness runs — and what the proofs are about, through the translation — is not what the interpreter executes: a broken obligation of every
property (kind `live-code`).

Wrapped callables are unwrapped first (`property.fget/fset/fdel`, `staticmethod/classmethod.__func__`, `functools.wraps.__wrapped__`); a name
that cannot be unwrapped to a function compiled from the same file is reported too (`not-a-function`).  Class attributes and module globals that are
not functions are compared by the conventions fingerprint (their defining statements), not here.
"""
import importlib
import os
import sys
import types


def _code_objects(code, prefix=""):
    """qualified name -> code object, for every function / class body nested in `code` (comprehensions and lambdas are skipped: they are
    compared as constants of their owner)"""
    out = {}
    for c in code.co_consts:
        if isinstance(c, types.CodeType):
            name = c.co_name
            if name.startswith("<"):
                continue
            q = f"{prefix}{name}"
            out.setdefault(q, c)
            out.update(_code_objects(c, q + "."))
    return out


def _unwrap(obj):
    seen = 0
    while seen < 10:
        seen += 1
        if isinstance(obj, (staticmethod, classmethod)):
            obj = obj.__func__
        elif isinstance(obj, property):
            return [("fget", obj.fget), ("fset", obj.fset), ("fdel", obj.fdel)]
        elif hasattr(obj, "__wrapped__"):
            obj = obj.__wrapped__
        else:
            break
    return [("", obj)]


def check_live(repo=None):
    """list of differences between the source text of <repo>/scoda/**/*.py and the code objects live in the imported package (empty = same)"""
    repo = repo or os.environ.get("SCODA_REPO", "/repo")
    root = os.path.join(repo, "scoda")
    diffs = []
    n_funcs = 0
    for d, _, files in sorted(os.walk(root)):
        for f in sorted(files):
            if not f.endswith(".py"):
                continue
            path = os.path.join(d, f)
            rel = os.path.relpath(path, repo)
            modname = rel[:-3].replace(os.sep, ".")
            if modname.endswith(".__init__"):
                modname = modname[: -len(".__init__")]
            try:
                mod = sys.modules.get(modname) or importlib.import_module(modname)
            except Exception as e:
                diffs.append(f"{rel}: cannot be imported: {type(e).__name__}: {e}")
                continue
            mfile = getattr(mod, "__file__", None)
            if not mfile or os.path.realpath(mfile) != os.path.realpath(path):
                diffs.append(f"{rel}: the imported module {modname} comes from {mfile}, not from this file")
                continue
            try:
                with open(path) as fh:
                    src_code = compile(fh.read(), path, "exec")
            except Exception as e:
                diffs.append(f"{rel}: does not compile: {e}")
                continue
            table = _code_objects(src_code)
            class_bodies = {q for q, c in table.items() if any(isinstance(k, str) and k == "__qualname__" for k in c.co_names)}
            for q, code in sorted(table.items()):
                if q in class_bodies:
                    continue
                parts = q.split(".")
                if any(".".join(parts[:i]) not in class_bodies for i in range(1, len(parts))):
                    continue          # nested inside a function: compared as a constant of its owner
                owner = mod
                try:
                    for pname in parts[:-1]:
                        owner = owner.__dict__[pname]
                    live = owner.__dict__[parts[-1]]
                except (KeyError, AttributeError):
                    # conditionally defined / deleted names show here; a name that the source defines but the live module lacks
                    diffs.append(f"{rel}: {q} is defined in the source but not present in the imported module")
                    continue
                n_funcs += 1
                cands = [c for _, c in _unwrap(live) if c is not None]
                codes = [getattr(c, "__code__", None) for c in cands]
                if not any(isinstance(c, types.CodeType) for c in codes):
                    diffs.append(f"{rel}: {q} is live as {type(live).__name__}, not as a function compiled from the source (not-a-function)")
                    continue
                # a property has up to three functions of the same name: the source's last definition of that name must be among them
                same_name = [c for qq, c in _all_named(src_code, q)]
                if not any(lc in same_name for lc in codes if lc is not None):
                    diffs.append(f"{rel}: {q}: the live code object differs from the one compiled from the source text")
    return diffs, n_funcs


def _all_named(code, q, prefix=""):
    """every code object with qualified name q (property getter / setter pairs share a name)"""
    out = []
    for c in code.co_consts:
        if isinstance(c, types.CodeType) and not c.co_name.startswith("<"):
            qq = f"{prefix}{c.co_name}"
            if qq == q:
                out.append((qq, c))
            out += _all_named(c, q, qq + ".")
    return out


if __name__ == "__main__":
    sys.path.insert(0, os.environ.get("SCODA_REPO", "/repo"))
    d, n = check_live()
    for x in d:
        print(x)
    print(f"{n} functions compared, {len(d)} differences")
    sys.exit(1 if d else 0)
