"""helpers of harness agent h9b (seeded changes C05: a module-level memo of grid candidates that aliases the caller's step list; C11: default
grids of a tokeniser with another resolution converted by a true division).  Plain data in, plain data out; nothing here reads a result
through the implementation under test."""
import re

# ----------------------------------------------------------------------------- C05: the caller's own list, edited in place between calls

LIST_EDIT_KINDS = ("set", "append", "insert", "pop", "sort", "reverse", "refill", "extend")


def apply_list_edits(lst, edits):
    """the CALLER's in-place edits of its own list between two calls; works on the object `lst` (its identity is the point) and returns it.
    ["set", i, v]: lst[i % len] = v;  ["append", v];  ["insert", i, v];  ["pop", i]: del lst[i % len] (not the last element: the list never
    becomes empty by a pop);  ["sort"];  ["reverse"];  ["refill", [..]]: lst.clear() and lst.extend(..) — same object, new content;
    ["extend", [..]]"""
    for e in edits:
        k = e[0]
        if k == "set" and lst:
            lst[e[1] % len(lst)] = e[2]
        elif k == "append":
            lst.append(e[1])
        elif k == "insert":
            lst.insert(e[1] % (len(lst) + 1), e[2])
        elif k == "pop" and len(lst) > 1:
            del lst[e[1] % len(lst)]
        elif k == "sort":
            lst.sort()
        elif k == "reverse":
            lst.reverse()
        elif k == "refill":
            lst.clear()
            lst.extend(e[1])
        elif k == "extend":
            lst.extend(e[1])
    return lst


STEP_POOL = [2, 3, 4, 5, 6, 7, 8, 9, 12, 16, 18, 24]


def gen_list_edits(rng, cur):
    """1-2 edits of the step list `cur` (plain copy, not modified) that mostly CHANGE the grid: another value in a slot, a new content in the
    same object, an appended finer / coarser step; now and then a pure reordering (same grid, another tie order) or nothing at all"""
    cur = list(cur)
    edits = []
    for _ in range(rng.choice([1, 1, 1, 2])):
        kind = rng.choice(["set", "set", "set", "refill", "refill", "append", "insert", "pop", "sort", "reverse", "extend", "none"])
        if kind == "set":
            others = [v for v in STEP_POOL if v not in cur] or STEP_POOL
            e = ["set", rng.randrange(len(cur)), rng.choice(others)]
        elif kind == "refill":
            e = ["refill", [rng.choice(STEP_POOL) for _ in range(rng.randint(1, 4))]]
        elif kind == "append":
            e = ["append", rng.choice(STEP_POOL)]
        elif kind == "insert":
            e = ["insert", rng.randrange(len(cur) + 1), rng.choice(STEP_POOL)]
        elif kind == "pop":
            e = ["pop", rng.randrange(len(cur))]
        elif kind == "extend":
            e = ["extend", [rng.choice(STEP_POOL) for _ in range(rng.randint(1, 2))]]
        elif kind in ("sort", "reverse"):
            e = [kind]
        else:
            continue
        edits.append(e)
        apply_list_edits(cur, [e])
    return edits


# ----------------------------------------------------------------------------- C11: tick values inside token texts

# a token is a '-'-joined list of parts, a part is a 3-letter prefix followed by '_'-separated fields (bar / pad / sta / sto have none).  This
# is the documented token syntax (README, TokenisationPrefixes), written down here; the tokeniser's tables are not consulted.
TICK_PREFIXES = ("rst", "val")          # the parts whose (single) field is a tick count
INT_LITERAL = re.compile(r"[0-9]+\Z")


def tick_fields(token):
    """(prefix, field text) of every part of `token` that embeds a tick value"""
    out = []
    for part in str(token).split("-"):
        sub = part.split("_")
        if sub[0] in TICK_PREFIXES:
            out.append((sub[0], "_".join(sub[1:])))
    return out


def non_integer_tick_fields(tokens):
    """[(token, prefix, text)] for every tick field that is not a plain non-negative integer literal"""
    return [(t, k, x) for t in tokens for (k, x) in tick_fields(t) if not INT_LITERAL.match(x)]


def non_int_entries(values):
    """the entries of a grid list that are not of type int (bool is not an int here: a tick is a count)"""
    return [v for v in values if type(v) is not int]


PPQNS = (12, 24, 48, 96, 6, 36)
# explicit grids per resolution (integers; the smallest step divides every bar length ppqn*4*n/d of the signatures drawn for it)
EXPLICIT_STEPS = {
    12: [[1, 2, 3, 4, 6, 12], [12, 2, 4, 24]],
    24: [[2, 3, 4, 6, 8, 12, 16, 24, 48], [24, 6, 12, 2]],
    48: [[4, 8, 16, 48, 96], [2, 3, 4, 6, 8, 12, 16, 24, 48]],
    96: [[8, 16, 32, 96, 192, 384], [384, 24, 48, 12, 96]],
    6: [[1, 2, 3, 6], [2, 6, 12]],
    36: [[3, 6, 9, 12, 18, 36], [36, 4, 12, 72]],
}
EXPLICIT_VALUES = {
    12: [[3, 6, 12, 24], [12, 1, 48]],
    24: [[6, 12, 24], [24, 48, 96, 144, 192]],
    48: [[12, 24, 48, 96, 192], [48, 6, 144, 288]],
    96: [[24, 48, 96, 192, 384], [96, 12, 768, 288]],
    6: [[1, 2, 3, 6, 12]],
    36: [[9, 18, 36, 72], [36, 12, 108, 4]],
}


def gen_tok_cfg(rng):
    """constructor keywords of a tokeniser: a resolution from PPQNS and, INDEPENDENTLY, explicit step sizes / note values or none (the
    defaults).  Returns (kw, label)"""
    ppqn = rng.choice(PPQNS)
    kw = {"ppqn": ppqn}
    if ppqn == 24 and rng.random() < 0.5:
        kw = {}                              # resolution not given at all
    mode = rng.choice(["defaults", "defaults", "steps", "values", "both"])
    if mode in ("steps", "both"):
        kw["step_sizes"] = list(rng.choice(EXPLICIT_STEPS[ppqn]))
    if mode in ("values", "both"):
        kw["note_values"] = list(rng.choice(EXPLICIT_VALUES[ppqn]))
    return kw, "ppqn:%s/%s" % (kw.get("ppqn", "omitted"), {"defaults": "default-grids", "steps": "explicit-steps", "values": "explicit-values",
                                                           "both": "explicit-steps+values"}[mode])
