"""Random histories of public Sequence operations (used by C04, C11, C16)."""
import gens as G
from protocol import pm, ON, OFF, WAIT, TIMESIG, KEYSIG


def gen_op(rng, others_abs, others_rel, reads=True, allow_scale=True):
    """one legal public operation with integer arguments (tuple format of pyimpl._seq_step)"""
    choices = [
        ("normalise",), ("pad", rng.choice([0, 24, 50, 96, 300, 7, 49, 97])), ("setChannel", rng.randrange(4)),
        ("cutoff", rng.choice([6, 12, 24]), rng.choice([1, 3, 6])), ("quantise", None), ("quantise", rng.choice([[12], [6, 4], [24]])),
        ("qnl", None, False), ("qnl", rng.choice([[6, 12, 24], [12]]), True), ("quantiseAndNormalise",),
        ("refresh",), ("copy",), ("transpose", rng.choice([1, -1, 12, -12, 7, -50, 60, 3])),
        ("split", [rng.choice([12, 24, 48]) for _ in range(rng.randint(1, 2))]),
        ("editAbs", 0, rng.choice([1, 2])), ("editAbs", 1, rng.randint(1, 127)), ("editRel", 0, rng.choice([1, 2])),
        ("editRel", 1, rng.randint(1, 127)), ("editRel", 2, rng.randrange(4)), ("editAbs", 2, rng.randrange(4)),
        ("editAbsPeek", 1, rng.randint(1, 127)), ("editRelPeek", 0, rng.choice([1, 2])), ("editAbsPeek", 0, rng.choice([1, 2])),
        ("editRelPeek", 2, rng.randrange(4)), ("editAbsFirst", 1, rng.randint(1, 127)), ("editRelFirst", 2, rng.randrange(4)),
        ("editAbsFirst", 0, 1), ("editRelFirst", 1, rng.randint(1, 127)),
        ("overwriteAbs", rng.choice(others_abs)), ("overwriteRel", rng.choice(others_rel)),
        ("merge", [rng.choice(others_abs)]), ("concat", [rng.choice(others_rel)]),
        ("addAbs", pm(ON, 0, rng.randint(0, 100), note=rng.randint(60, 72), vel=rng.randint(1, 127))),
        ("addAbs", pm(TIMESIG, 0, rng.choice([0, 96]), num=3, den=4)),
        ("addRel", pm(WAIT, 0, rng.choice([1, 7, 24])), rng.choice([None, 0, 2])),
        ("addRel", pm(KEYSIG, 0, None, key=rng.randrange(15)), rng.choice([None, 0])),
        ("pairings",),
    ]
    if allow_scale:
        choices += [("scale", rng.choice([1, 2, 3]), False), ("scale", 2, True)]
    if reads:
        choices += [("readAbs",), ("readRel",), ("flags",), ("readAbs",), ("readRel",)]
    return rng.choice(choices)


def gen_history(rng, length, reads=True, ext=None, ext_p=0.3):
    """`ext`: optional generator `ext(rng, others_abs)` of further operations (audit O11: time edits through the iterators, read-only public
    calls; harness/h4seq_util.gen_ext_op), drawn with probability `ext_p` per step — callers that do not pass it get the alphabet as before"""
    others_abs = [G.gen_wf_abs(rng, n_notes=rng.randint(0, 3), channels=(0, 1), max_tick=60, max_dur=20)[0] for _ in range(2)]
    others_rel = [G.gen_wf_rel(rng, n_notes=rng.randint(0, 3), channels=(0, 1), max_tick=60, max_dur=20)[0] for _ in range(2)]
    return [ext(rng, others_abs) if ext is not None and rng.random() < ext_p else gen_op(rng, others_abs, others_rel, reads=reads)
            for _ in range(length)]


def gen_init(rng):
    k = rng.random()
    if k < 0.15:
        return ("new", [])
    a, _ = G.gen_wf_abs(rng, n_notes=rng.randint(0, 5), channels=rng.choice([(0,), (0, 1)]), max_tick=100, max_dur=30,
                        pitches=[60, 62, 64, 100, 30])
    if k < 0.55:
        return ("abs", a)
    if k > 0.85:
        # ill-formed on purpose: dangling note-ons, stray note-offs, re-triggers (the wrapper must keep its views in step whatever they hold)
        return ("rel", G.gen_ill_rel(rng, n=rng.randint(2, 9), channels=(0, 1), pitches=(60, 62, 64)))
    return ("rel", G.abs_to_rel(a))
