"""C14 — transposition shifts each pitch class by the interval, keeping pitches in range."""
import ast
import re
import gens as G
import h3midi_util as H
import pyimpl as P
from oracle_util import *  # noqa
from protocol import from_real, KEYS, KEY_IDX

ID = "C14"
LEAN_MODULE = ["SCoda.Props.C14", "SCoda.Props.Notes", "SCoda.Props.Gaps", "SCoda.Props.ElemTie", "SCoda.Props.ViewTie", "SCoda.Props.WrapTie"]
LEVEL = "proof"
CLAUSES = [
    ("every note stays inside the playable range", ["SCoda.C14.in_range", "SCoda.C14.wrap_in_range", "SCoda.C14.settings_range"]),
    ("every resulting note is the image of an original note with its pitch class shifted by exactly the interval",
     ["SCoda.C14.image_list", "SCoda.C14.image_pointwise", "SCoda.C14.wrap_class"]),
    ("returns true exactly when some note had to be moved by octaves", ["SCoda.C14.flag", "SCoda.C14.wrap_flag"]),
    ("when nothing is moved by octaves: exact shift, onsets/durations/velocities untouched, transposing back restores",
     ["SCoda.C14.exact", "SCoda.C14.inverse", "SCoda.C14.timing", "SCoda.C14.wrap_id"]),
    ("key signatures are transposed by the same interval and never become undefined", ["SCoda.C14.key_defined", "SCoda.C20.transpose_tonic"]),
    ("transposing back (audit A12): over the GENERATED key function (Gen.transposeKey), when nothing is moved by octaves and the original notes are in range, "
     "transposing by k then by -k restores every message except the spelling of key signatures (same tonic: 66 of 375 key/interval pairs re-spell, e.g. Db +1 -1 = C#), "
     "hence all notes and the duration exactly; the literal restoration and the version without the range hypothesis are refuted by kernel-checked examples "
     "replayed on the implementation",
     ["SCoda.Gaps.inverse", "SCoda.Gaps.inverse_literal_statement_false", "SCoda.Gaps.inverse_without_range_statement_false", "SCoda.Gaps.transpose_seq_exact",
      "SCoda.Gaps.transposeSeq_total"]),
    ("key signatures of the result, at list level and through Sequence.transpose from any readable wrapper state and for both flag values (normalise may drop "
     "repeats): every one is the image under Gen.transposeKey of an original one, a valid key with the tonic shifted by the interval — never undefined",
     ["SCoda.Gaps.keys_defined", "SCoda.Gaps.keys_defined_seq"]),
    ("bars (model Bar.transpose, Model/BarOps.lean, tied by the barTranspose correspondence and by the translation of bar.py): the call never fails, numerator and "
     "denominator are kept, the bar's sequence is transposed as the sequence clauses say (in range, pitch-class image, flag), the bar's key becomes "
     "Gen.transposeKey key k (valid, tonic shifted, None stays None) and the key signatures inside the bar likewise",
     ["SCoda.Gaps.bar_transpose_total", "SCoda.Gaps.bar_seq_transposed", "SCoda.Gaps.bar_notes_image", "SCoda.Gaps.bar_key_transposed", "SCoda.Gaps.bar_seq_keys",
      "SCoda.ElemTie.barTranspose_eq"]),
    ("TIE BY TRANSLATION: RelativeSequence.transpose (both while loops, with fuel) and Sequence.transpose as re-translated from the source on every run equal the "
     "models transposeRel / Seq.transposeSeq; the key function inside is the translated Key.transpose_key",
     ["SCoda.ViewTie.transposeRel_eq", "SCoda.ViewTie.transposeRel_eq_gen", "SCoda.WrapTie.transpose_eq"]),
    ("glue: whatever Sequence.transpose does after the pitch shift (normalise, note-length quantisation), every note-on of the result is a note-on of the "
     "shifted view with the same pitch, channel and velocity, and the returned flag is the shift flag",
     ["SCoda.Notes.transposeSeq_note_ons", "SCoda.Notes.normalise_note_ons", "SCoda.Notes.toAbs_note_ons"]),
]
D24_EXAMPLE = {"rel": [G.pm(ON, 0, None, note=60, vel=64), G.pm(WAIT, 0, 12), G.pm(OFF, 0, None, note=60), G.pm(WAIT, 0, 12)], "by": 2, "bar": None,
               "aliased": 2}
RULE = ("well-formed sequences with key signatures, pitches near both range limits, x intervals -200..200 incl. 0 and multiples "
        "of 12; bars with and without key; every one of the 15 keys as a key-signature event and as a bar key, there and back by 1, -5, 7, 12; "
        "non-trivial = has notes and interval != 0")
ASSUMPTIONS = ["models: SCoda.transposeRel / Seq.transposeSeq / Gen.transposeKey, tied by correspondence",
               "range limits 21..108 are read from the generated settings"]
LO, HI = 21, 108


def tonic(k):
    """tonic pitch class of a `Key` member — from the member's NAME through the harness's own circle-of-fifths table
    (h3midi_util.KEY_MEMBER_TONIC), not from MusicMapping.KeyNoteMapping of the code under test (audit 3, table C14)"""
    return H.KEY_MEMBER_TONIC[k.name]


def tonic_timeline(timed, shift=0):
    """change points (tick, tonic pitch class) of the key in force, from timed plain messages in sequence order (of several key
    signatures on one tick the last one is in force); a key that is not one of the fifteen keys shows as the value itself"""
    force = {}
    for t, m in timed:
        if m[TY] == KEYSIG:
            k = m[KEY]
            force[t] = (tonic(KEYS[k]) + shift) % 12 if isinstance(k, int) and 0 <= k < len(KEYS) else ("undefined", repr(k))
    out, cur = [], None
    for t in sorted(force):
        if force[t] != cur:
            out.append((t, force[t]))
            cur = force[t]
    return out


def o_transpose(inp):
    from scoda.elements.bar import Bar
    rel = [tuple(m) for m in inp["rel"]]
    by = inp["by"]
    bar_sig = inp.get("bar")
    s = P.seq_in_state(rel, inp.get("state", "rel"))
    if inp.get("aliased"):
        s = P.seq_aliased(rel, inp["aliased"])          # the content is `rel` repeated; every message object occurs that often
        rel = rel * inp["aliased"]
    fails = []
    target = s
    b = None
    if bar_sig is not None:
        try:
            b = Bar(s, bar_sig[0], bar_sig[1], None if bar_sig[2] is None else KEYS[bar_sig[2]])
        except Exception:
            return [("~skip:bar-rejected", "")]
        target = b
        rel = [from_real(m) for m in b.sequence.rel._messages]
    tin, din = rel_timed(rel)
    try:
        flag = target.transpose(by)
    except Exception as e:
        return [("raises", f"{type(e).__name__}: {e}")]
    seq = b.sequence if b is not None else s
    out = [from_real(m) for m in seq.rel._messages]
    tout, dout = rel_timed(out)
    nin, nout = notes_of(tin), notes_of(tout)
    for (c, p, on, off, v) in nout:
        if not (LO <= p <= HI):
            fails.append(("in-range", f"pitch {p} out of range"))
        # the image of AN original note: the original that starts on this channel at this tick with this velocity (a resulting note's
        # note-on is an original note-on, moved) — not merely any original anywhere with a fitting pitch class (audit 3, table C14)
        if not any(c0 == c and on0 == on and v0 == v and (p - p0 - by) % 12 == 0 for (c0, p0, on0, _, v0) in nin):
            fails.append(("image", f"note {(c, p, on, off, v)} is not the image under +{by} of an original note of its channel, onset and velocity "
                                   f"(originals there: {[x for x in nin if x[0] == c and x[2] == on]})"))
    exp_flag = any(not (LO <= m[NOTE] + by <= HI) for m in rel if m[TY] in (ON, OFF))
    if bool(flag) != exp_flag:
        fails.append(("flag", f"returned {flag}, expected {exp_flag}"))
    if not exp_flag:
        exp = sorted((c, p + by, on, off, v) for (c, p, on, off, v) in nin)
        if sorted(nout) != exp:
            fails.append(("exact", f"expected {exp}, got {sorted(nout)}"))
        try:
            target.transpose(-by)
            back = [from_real(m) for m in seq.rel._messages]
            tb, _ = rel_timed(back)
            if sorted(notes_of(tb)) != sorted(nin):
                fails.append(("inverse", "transposing back did not restore the notes"))
            kb = [(t, m[KEY]) for t, m in tb if m[TY] == KEYSIG]
            k0 = [(t, m[KEY]) for t, m in tin if m[TY] == KEYSIG]
            if kb != k0:
                fails.append(("inverse-keys", H.Detail(f"transposing back did not restore the key signatures: {k0} -> {kb}", before=k0, after=kb)))
            if b is not None and bar_sig[2] is not None and (b.key_signature is None or KEY_IDX[b.key_signature] != bar_sig[2]):
                fails.append(("inverse-keys", H.Detail(f"transposing back did not restore the bar's key: {bar_sig[2]} -> {b.key_signature}", bar_before=bar_sig[2],
                                                       bar_after=None if b.key_signature is None else KEY_IDX[b.key_signature])))
            target.transpose(by)
        except Exception as e:
            fails.append(("inverse", f"raised {type(e).__name__}"))
    # key signatures, whether or not a note was moved by octaves (audit 3, O6): the key in force at every tick is the original one with
    # its tonic shifted by the interval (compared as tonics: the spelling may change, repeats of the key in force may be dropped)
    kout = [m for t, m in tout if m[TY] == KEYSIG]
    for m in kout:
        if m[KEY] is None or not isinstance(m[KEY], int):
            fails.append(("keys", f"key signature became {m[KEY]!r}"))
    want, got = tonic_timeline(tin, by), tonic_timeline(tout)
    if want != got:
        fails.append(("keys", f"key in force (tick, tonic): original shifted by {by} is {want}, result has {got} "
                              f"(original keys {[(t, m[KEY]) for t, m in tin if m[TY] == KEYSIG]}, octave shift {exp_flag})"))
    if b is not None and bar_sig[2] is not None:
        k = b.key_signature
        if k is None or tonic(k) != (tonic(KEYS[bar_sig[2]]) + by) % 12:
            fails.append(("keys", f"bar key {KEYS[bar_sig[2]]} + {by} became {k}"))
    return fails


def setup(ctx):
    ctx.oracle("transpose", o_transpose)

    def kf_d24(f):
        # CLASS: the sequence holds the same Message objects more than once (built by concatenate with a repeated / its own argument).
        # OUTCOME (audit 3, K4): what D24a describes and nothing else — every shared object is visited once per occurrence, so every note
        # ends where `reps` successive transpositions by the interval put it (onset, end, velocity untouched), every key signature is
        # transposed `reps` times.  Any other damage is reported.
        inp = f["input"]
        reps = inp.get("aliased")
        if not reps or inp.get("bar") is not None:
            return False
        by = inp["by"]
        tin, _ = rel_timed([tuple(m) for m in inp["rel"]] * reps)
        nin = notes_of(tin)
        wrapped = [False]

        def visits(p):
            for _ in range(reps):
                p += by
                while p < LO:
                    p += 12
                    wrapped[0] = True
                while p > HI:
                    p -= 12
                    wrapped[0] = True
            return p
        try:
            if f["clause"] == "exact":
                got = ast.literal_eval(re.match(r"^expected (\[.*\]), got (\[.*\])$", f["detail"]).group(2))
                return [tuple(x) for x in got] == sorted((c, visits(p), on, off, v) for (c, p, on, off, v) in nin)
            if f["clause"] == "image":
                c, p, on, off, v = ast.literal_eval(re.match(r"^note (\(.*?\)) is not the image", f["detail"]).group(1))
                return any(c0 == c and on0 == on and v0 == v and visits(p0) == p for (c0, p0, on0, _, v0) in nin)
            # (clause `flag` is no longer booked — audit round 4, B7: on the members of the class the generator draws, no visit wraps, so the
            # flag is right on /repo and a wrong flag is a violation)
            if f["clause"] == "keys":
                got = ast.literal_eval(re.search(r"result has (\[.*?\]) \(original keys", f["detail"]).group(1))
                return [tuple(x) for x in got] == tonic_timeline(tin, reps * by)
        except Exception:
            return False
        return False
    ctx.kf_predicates["D24a"] = kf_d24
    import json as _json
    import os as _os
    with open(_os.path.join(_os.path.dirname(_os.path.dirname(_os.path.dirname(_os.path.abspath(__file__)))), "known_findings.json")) as _f:
        _d29 = next(x for x in _json.load(_f)["findings"] if x["id"] == "D29")
    _pairs = {tuple(x) for x in _d29["key_interval_pairs"]}
    _respelled = {int(k): v for k, v in (_d29.get("respelled_to") or {}).items()}        # key index -> the key it reads after k, -k (stored data)
    # the stored outcome is checked against music theory here, not against the library: the key a name is re-spelled to has the same tonic
    assert all(H.tonic_of_index(a) == H.tonic_of_index(b) and a != b for a, b in _respelled.items())

    def kf_d29(f):
        # a key (of a key-signature event or of the bar) whose transposition there and back is another spelling.  CLASS: the recorded (key,
        # interval) pairs.  OUTCOME (audit round 4, B7): WHICH key failed and WHAT it became — every key of the input reads, after k and -k,
        # exactly as the stored table says (D flat -> C sharp, G flat -> F sharp, C flat -> B when (key, interval) is a recorded pair; itself
        # otherwise), at its tick, nothing added or lost.  A key that comes back as anything else is reported
        if f["clause"] != "inverse-keys":
            return False
        by = f["input"]["by"]
        r = by % 12 if by % 12 <= 11 else by
        cands = {r, r - 12}

        def back(k):
            return _respelled[k] if (k in _respelled and any((k, c) in _pairs for c in cands)) else k
        d = H.data_of(f)
        if "before" in d:
            pred = [(t, back(k)) for (t, k) in d["before"]]
            return pred != [tuple(x) for x in d["before"]] and [tuple(x) for x in d["after"]] == pred
        if "bar_before" in d:
            return back(d["bar_before"]) != d["bar_before"] and d["bar_after"] == back(d["bar_before"])
        return False
    ctx.kf_predicates["D29"] = kf_d29


def generate(ctx):
    rng = ctx.rng
    ctx.check("transpose", {"rel": [G.pm(KEYSIG, 0, None, key=12), G.pm(ON, 0, None, note=60, vel=64), G.pm(WAIT, 0, 12), G.pm(OFF, 0, None, note=60)],
                            "by": 1, "bar": None})        # D29: Db + 1 - 1 = C#
    ctx.check("transpose", D24_EXAMPLE)         # the recorded instance of the known finding (message objects shared through concatenate)
    # every one of the fifteen keys, as a key-signature event and as a bar's key, there and back by a few intervals (audit round 4, B7: D29 says
    # WHICH keys read differently afterwards — D flat, G flat, C flat — so every other key must be seen to come back as itself)
    for k in range(15):
        for by in (1, -5, 7, 12):
            ctx.count("key-sweep")
            ctx.check("transpose", {"rel": [G.pm(KEYSIG, 0, None, key=k), G.pm(ON, 0, None, note=60, vel=64), G.pm(WAIT, 0, 12), G.pm(OFF, 0, None, note=60)],
                                    "by": by, "bar": None})
            ctx.check("transpose", {"rel": [G.pm(ON, 0, None, note=60, vel=64), G.pm(WAIT, 0, 12), G.pm(OFF, 0, None, note=60)], "by": by, "bar": [4, 4, k]})
    for i in range(ctx.n(400, 12000)):
        pitches = rng.choice([[21, 22, 30], [108, 107, 100], [60, 64, 67], list(range(21, 109, 7)), [21, 108]])
        chans = rng.choice([(0,), (0,), (0, 1), (3,)])
        ctx.count("channels:%d" % len(chans) if chans != (3,) else "channels:one-not-0")
        rel, notes = G.gen_wf_rel(rng, pitches=pitches, channels=chans, max_tick=90, max_dur=30)
        if rng.random() < 0.25:
            rel = G.unconsolidate(rng, rel)
            ctx.count("rel:unconsolidated")
        by = rng.choice([0, 1, -1, 12, -12, 24, 7, -5, 87, -87, 88, 100, -100, 200, -200, rng.randint(-200, 200)])
        bar = None
        if rng.random() < 0.3:
            rel = [m for m in rel if m[TY] != TIMESIG]
            bn, bd = rng.choice([(4, 4), (4, 4), (3, 4), (6, 8), (2, 2), (5, 4)])
            bar = [bn, bd, rng.choice([None, 0, 5, 12, 14, rng.randrange(15)])]
            ctx.count("bar:4/4" if (bn, bd) == (4, 4) else "bar:other-signature")
        ctx.case((rel, by, bar), len(notes) > 0 and by != 0)
        ctx.count("bar" if bar else "sequence")
        if by % 12 == 0:
            ctx.count("multiple-of-12")
        ctx.check("transpose", {"rel": rel, "by": by, "bar": bar})
        if i % 4 == 0:
            ctx.count("wrapper-states")
            ctx.check("transpose", {"rel": rel, "by": by, "bar": bar, "state": rng.choice(P.SEQ_STATES[1:])})
        if i % 10 == 0:
            # members of D24a's class: the message objects occur two or three times (mid-range pitches, small intervals: no octave wrap)
            arel, _ = G.gen_wf_rel(rng, pitches=[55, 60, 64, 67], channels=(0,), max_tick=60, max_dur=20)
            ctx.count("aliased-objects(D24a class)")
            # (mid-range pitches and small intervals on purpose: when a LATER visit of a shared object leaves the range although one visit would
            # not — 60 + 24 + 24 —, transpose also normalises and re-quantises the note lengths; that outcome is D24a's consequence too, but the
            # predicate has no model of it and does not book it: tried in audit round 4, 9 of 9 such inputs fail `exact` / `inverse` unbooked)
            ctx.check("transpose", {"rel": arel, "by": rng.choice([1, -1, 2, 3, -5, 0, 12]), "bar": None, "aliased": rng.choice([2, 2, 3])})
        ctx.corr("transposeRel", P.op_transposeRel(by, rel))
        if bar is not None:
            ctx.corr("barTranspose", P.op_barTranspose(bar[0], bar[1], bar[2], rel, by))
        ctx.corr("seq", P.op_seq(("rel", rel), [("transpose", by), ("readAbs",), ("readRel",)]))
        ctx.sample({"rel": rel[:6], "by": by, "bar": bar})
    for k in range(15):
        for n in range(-24, 25):
            ctx.corr("transposeKey", P.op_transposeKey(k, n))
