"""C09 — bar splitting follows the time signatures and conserves the music."""
import gens as G
import pyimpl as P
from oracle_util import *  # noqa
from protocol import from_real, KEY_IDX
import h2bars_util as U

ID = "C09"
LEAN_MODULE = ["SCoda.Props.C09", "SCoda.Props.Purity", "SCoda.Props.C16b", "SCoda.Props.Strong589", "SCoda.Props.ElemTie", "SCoda.Props.StaticTie", "SCoda.Props.RelTie2", "SCoda.Props.C09n", "SCoda.Props.AbsTie2", "SCoda.Props.StaticLink", "SCoda.Props.StaticTie2"]
LEVEL = "proof"
CLAUSES = [
    ("every track gets the same number of bars (one list per input track, all of one positive length); the loop terminates for positive bar lengths",
     ["SCoda.C09.equal_counts", "SCoda.C09.terminates"]),
    ("bar k lasts exactly the length of the signature it carries, starts with that signature and holds no other; it carries the same signature and key on "
     "every track: the signature and the key in force at its start (boundary-aligned changes, 4/4 and no key before any)",
     ["SCoda.C09.bars_exact", "SCoda.C09.same_column", "SCoda.C09.bar_signature"]),
    ("bars cover the longest track with less than one bar to spare", ["SCoda.C09.coverage"]),
    ("re-quantisation off: a track's bars reproduce its sounding set exactly — proved for tracks without zero-length notes (hypothesis "
     "NoZeroNotes; a zero-length note on a bar line is known finding D18b, replayed on the implementation)", ["SCoda.C09.sound_exact"]),
    ("re-quantisation on: a subset of it (same hypothesis)", ["SCoda.C09.sound_subset"]),
    ("EXACT finding classes and NOTES (audit A6): re-quantisation off — the sounding clause is refuted in general (D18b witness, model bars = implementation's bars) and proved "
     "when no zero-length note sits on a bar line, with every hypothesis input-level (positive bar lengths, meta signatures on the grid they induce, `NoZeroOnGrid` over the "
     "independent grid `gridStart`); the bars' notes are a permutation of the track's notes cut at the bar lines. Re-quantisation on — the subset clause is refuted, and so is "
     "its narrowing to bar lines (a zero-length note ANYWHERE makes the bars sound where the track is silent: known finding D18c); proved for tracks without zero-length "
     "notes; what re-quantisation really does, per key and in time order: the bars' notes are the cut fragments, a fragment is dropped only if its duration is not an allowed "
     "value, every other fragment keeps channel, pitch, velocity and onset, ends no later, has an allowed duration and is unchanged if its duration was allowed already "
     "('only boundary-cut fragments may shrink' does not describe the code: any fragment of non-allowed length shrinks or goes)",
     ["SCoda.Strong589.sound_exact_statement_false", "SCoda.Strong589.sound_exact_barlines", "SCoda.Strong589.sound_exact_boundary", "SCoda.Strong589.notes_cut_bars", "SCoda.Strong589.notes_cut_bars_key",
      "SCoda.Strong589.d18b_bars", "SCoda.Strong589.sound_subset_statement_false", "SCoda.Strong589.sound_subset_boundary_statement_false", "SCoda.Strong589.sound_subset_partial",
      "SCoda.Strong589.requant_bars_key", "SCoda.Strong589.requant_bars_onsets_kept", "SCoda.Strong589.requant_bars_allowed_unchanged", "SCoda.Strong589.requant_run_key",
      "SCoda.Strong589.requant_onsets_kept", "SCoda.Strong589.requant_allowed_unchanged", "SCoda.Strong589.requant_no_duplicates", "SCoda.Strong589.requant_all_allowed"]),
    ("SUCCESS and failure (audit A6b): under input-level conditions (valid meta index, non-negative waits, positive bar lengths, the meta track's signatures on the grid they "
     "induce and on distinct ticks, side tracks only repeating the signature in force; with re-quantisation also positive note values and well-formed tracks without "
     "zero-length notes) sequences_split_bars SUCCEEDS; a first bar of capacity 0 with a non-empty track is a BarException (re-quantisation off; with it on, short notes are "
     "silently dropped instead — refuted statement, replayed), an all-empty input gives one bar, a bad meta index an IndexError",
     ["SCoda.Strong589.split_bars_succeeds", "SCoda.Strong589.split_bars_succeeds_requant", "SCoda.Strong589.split_bars_spec", "SCoda.Strong589.split_bars_zero_len", "SCoda.Strong589.split_bars_zero_len_at",
      "SCoda.Strong589.split_bars_all_empty", "SCoda.Strong589.split_bars_bad_meta", "SCoda.Strong589.split_bars_zero_len_requant_statement_false"]),
    ("signature and key of bar k from an INPUT-ONLY alignment predicate (no bound by the number of bars, changes on the final boundary allowed): the bar's signature is the one in "
     "force at `gridStart k` on every track; the key is the one in force when key changes come one per bar start; the queue consumes at most ONE change per bar, so two key "
     "(or time-signature) changes due at one bar start leave the bar with the first (refuted statements, replayed: known finding D23), and the lag is characterised exactly",
     ["SCoda.Strong589.bar_signature_in", "SCoda.Strong589.bar_key_in", "SCoda.Strong589.bar_sig_partial", "SCoda.Strong589.bar_key_partial", "SCoda.Strong589.bar_key_statement_false",
      "SCoda.Strong589.bar_sig_statement_false", "SCoda.Strong589.bar_key_lag", "SCoda.Strong589.bar_key_caught_up", "SCoda.Strong589.bar_key_two_changes", "SCoda.Strong589.sigsOf_roll", "SCoda.Strong589.keysOf_roll"]),
    ("TIE BY TRANSLATION: Sequence.sequences_split_bars is re-translated statement by statement on every run (Gen/StaticFns.lean: the `while not tracks_synchronised` "
     "loop with the model's fuel, the signature / key queues consumed by next(...) + pop(0), per-track split, placeholders, optional re-quantisation, Bar construction "
     "through the translated bar.py) and proved equal to the model `splitBars` the clauses above are about — same exception or same bars — for inputs that can be read, "
     "whose meta sequence's fresh absolute view agrees with its relative view, and whose signatures have numerator >= 0, denominator > 0 (where Python's "
     "int(PPQN*(n/(d/4))) is the model's integer bar length); every returned bar has its relative view fresh and its absolute view stale; the inner "
     "RelativeSequence.split is itself translated and proved (RelTie2)",
     ["SCoda.StaticTie.sequencesSplitBars_eq", "SCoda.StaticTie.sequencesSplitBars_ofRel", "SCoda.StaticTie.sequencesSplitBars_constructed",
      "SCoda.StaticTie.seq_split_bars_link", "SCoda.ElemTie.barInit_eq", "SCoda.ElemTie.barInit_flags", "SCoda.RelTie2.split_eq"]),
    ("the input sequences are left unchanged: sequences_split_bars works on private copies and no write site acts on an object that existed "
     "before the call (purity typing over regenerated facts); the bars are fresh (C16b); observed on the real objects by the oracle's `inputs` "
     "clause from five wrapper states",
     ["SCoda.Purity.purity_cert_closed", "SCoda.Purity.routes_write_nothing_shared", "SCoda.Purity.purity_routes_seen", "SCoda.C16.derivations_return_fresh"]),
    ('re-quantisation off, D18b carve-out exact at tick 0 (audit round 2 F5): the bars reproduce the sounding set exactly for every track with no zero-length note on a bar start AFTER tick 0 of the grid (a zero-length note at tick 0 is allowed: tick 0 is a bar start but no cut point; the output-level bar-LINE predicate never excluded it)',
     ["SCoda.C09n.sound_exact_boundary'", "SCoda.C09n.sound_exact_barlines'", "SCoda.C09n.noZeroOnBarLine_iff", "SCoda.C09n.noZeroOnGrid'_of_B"]),
    ('TIE BY TRANSLATION, absolute view with object identity: the dict-heavy / aliasing methods of AbsoluteSequence are re-translated statement by statement on every run (Gen/AbsFns2.lean, tools/py2lean_abs2.py: Message objects live in a heap, a reference is a position tag, stores through any alias update the heap cell, dicts are insertion-ordered association lists, while loops carry proved fuel bounds) and proved equal to the hand models, for every heap and reference list with references into the heap and channels not None: get_message_times_of_type (the link of the static translator through which sequences_split_bars reads signatures and keys, audit round 3 R1) returns the references filtered by type paired with their times = the model timesOfType, no hypothesis',
     ["SCoda.AbsTie2.getMessageTimesOfType_eq", "SCoda.AbsTie2.timesOfType_eq", "SCoda.AbsTie2.timesOfType_init"]),
    ('the link through which the translated sequences_split_bars reads the signature and key queues (AbsoluteSequence.get_message_times_of_type, a hand-written definition in Model/StaticLib.lean) is what the TRANSLATED method computes on a freshly built list, read back through the heap (audit round 3 R1: an edit of that method now breaks this obligation)',
     ["SCoda.StaticLink.timesOfType_link", "SCoda.AbsTie2.getMessageTimesOfType_eq", "SCoda.AbsTie2.timesOfType_init"]),
    ("TIE BY TRANSLATION under the weakest hypothesis on the wrapper state (audit round 3 R6): the translated sequences_split_bars equals the model for inputs whose meta sequence's fresh absolute view has the same TIME_SIGNATURE and the same KEY_SIGNATURE events (time, numerator, denominator, key), each kind in the same order, as the conversion of its relative view — a stale absolute view, or a view built through add_absolute_message with the signatures of each kind in sort-key order, qualifies; notes, channels and the place of a signature among the other messages of its tick are free. Without that hypothesis the equality is FALSE inside C04's invariant: two key signatures at one tick inserted against the key order give bar keys [G,D,D] from the code and [D,G,G] from the model and from the same content given as a relative view (kernel-checked, replayed: known findings D23 / D36 — sequences_split_bars depends on the wrapper state)",
     ["SCoda.StaticTie2.sequencesSplitBars_eq", "SCoda.StaticTie2.sequencesSplitBars_absStale", "SCoda.StaticTie2.absCoherentSigs_of_keyOrder", "SCoda.StaticTie2.seq_split_bars_link", "SCoda.StaticTie2.sequencesSplitBars_constructed", "SCoda.StaticTie2.sequencesSplitBars_eq_statement_false", "SCoda.StaticTie2.witSeq_not_coherentSigs"]),
]
RULE = ("multi-track pieces (1-3 tracks, 1-5 bars, 9 signatures with boundary-aligned changes, key changes on bar lines, "
        "tracks of unequal length, empty tracks, notes crossing bar lines) x re-quantisation on/off x meta_track_index 0..2; since audit round 3 also: "
        "zero-length notes (anywhere / on bar lines), two key signatures or two time signatures (different / identical) on one tick, a second key change "
        "before the next bar line, signature events on channels 0-2, key signatures and (repeating / conflicting) time signatures on side tracks, inputs in "
        "seven wrapper states built from plain data incl. an absolute view with the meta events of one tick in another order (add_absolute_message); "
        "since the post-merge soak also: pieces of 1-6 short bars (1/16 .. 3/8, bars shorter than the 24-tick standard length) with zero-length notes on / off "
        "bar lines, zero-duration and empty tracks, tracks ending before / on / after the last bar line; "
        "non-trivial = a signature change or a note crossing a bar line or tracks of unequal length")
ASSUMPTIONS = ["model: SCoda.splitBars (Model/Bar.lean), tied by translation (StaticTie, for AbsCoherent meta sequences) and sampled by correspondence from relative "
               "views and from wrapper states whose supplied absolute view holds the meta events in the model's order",
               "hypothesis of the property: signature changes fall on bar boundaries of the grid they induce; bar lengths 96*n/d are positive integers",
               "reading (audit R6): of two signature / key events on one tick the later one IN THE ORDER THE CALLER GAVE (relative list, or the absolute list "
               "handed over) is the one in force; signatures and keys are those of the meta track, other tracks' key signatures are ignored, their time "
               "signatures must repeat the one in force (otherwise: outside the hypothesis, skipped)",
               "a BarException on an ill-formed track (unclosed / orphaned / re-triggered notes) is not judged (success is claimed for well-formed tracks)",
               "reading (audit round 4, A6): for a piece of duration 0 (all tracks empty or only zero-time events on tick 0) `less than one bar to spare` is judged as "
               "`exactly one bar` (counted: note:coverage:zero-duration-piece-judged-as-exactly-one-bar)",
               "known findings are PREDICTED from the order of the meta events that the meta track's wrapper state really hands over (audit round 4, B1) and, for "
               "D18b / D18c / D34 / D38, by h2bars_util.bars_model, a harness-side transcription of the recorded mechanism (equal to the code's bars on 24 000 generated inputs)"]


def given_meta_events(track, state="rel", abs_list=None):
    """signature / key events of the meta track as [(tick, value, channel)] in the order in which the CALLER gave them: the order
    of the relative list, or — when the sequence was handed over through its absolute view (`abs`, `stale-rel`, `insort` with a
    supplied absolute list) — the order of that list.  Of two events on one tick the later one of this order is the one `in force`
    (audit R6: the text is silent about the order inside a tick; this is the reading the oracle commits to)."""
    if abs_list is not None and state in ("abs", "stale-rel", "insort"):
        ts = [(m[TIME], (m[NUM], m[DEN]), m[CH]) for m in abs_list if m[TY] == TIMESIG]
        ks = [(m[TIME], m[KEY], m[CH]) for m in abs_list if m[TY] == KEYSIG]
        return ts, ks
    return U.meta_events(track, "list")


def grid_of(piece_tracks, meta=0):
    """bar grid induced by the meta track's signature / key events: lists of (tick, value)"""
    ts, ks = U.meta_events(piece_tracks[meta], "list")
    return [(t, v) for t, v, _ in ts], [(t, v) for t, v, _ in ks]


def signatures_on_grid(tracks, meta=0):
    """every time-signature change of the meta track sits on a bar start of the grid induced by the earlier ones, every other
    track only repeats the signature in force there, and all bar lengths are positive"""
    ts, _ = grid_of(tracks, meta)
    end = max([rel_timed(t)[1] for t in tracks] + [t for t, _ in ts] + [0])
    start, cur = 0, (4, 4)
    pending = list(ts)
    force = []           # (start, end, sig) per bar
    for _ in range(400):
        due = [x for x in pending if x[0] <= start]
        if any(x[0] < start for x in due):
            return False
        if due:
            cur = due[-1][1]
            pending = [x for x in pending if x[0] > start]
        step = 96 * cur[0] // cur[1]
        if step <= 0 or (96 * cur[0]) % cur[1]:
            return False
        if any(start < x[0] < start + step for x in pending):
            return False
        force.append((start, start + step, cur))
        start += step
        if start > end and not pending:
            break
    for i, t in enumerate(tracks):
        if i == meta:
            continue
        for tick, m in rel_timed(t)[0]:
            if m[TY] == TIMESIG:
                bar = [f for f in force if f[0] <= tick < f[1]]
                if not bar or (m[NUM], m[DEN]) != bar[0][2]:
                    return False
    return True


def bar_starts_of(tracks, meta=0):
    """bar starts of the text's grid (signature in force at each start) up to the end of the longest track"""
    ts, _ = U.meta_events(tracks[meta], "list")
    end = max([rel_timed(t)[1] for t in tracks] + [0])
    starts = []
    for (s, length, _, _) in U.text_walk(ts, [], 400):
        if s > end:
            break
        starts.append(s)
        if length <= 0:
            break
    return starts


def zero_on_barline_keys(tracks, ti, meta=0):
    """D18b: (channel, pitch) of the zero-length notes of track `ti` that sit on a bar start AFTER tick 0 (tick 0 is a bar start
    but no cut point: a zero-length note there is not torn apart — audit round 2)"""
    starts = set(bar_starts_of(tracks, meta)) - {0}
    return {(c, p) for (c, p, _, _) in U.zero_length_keys(tracks[ti], at=starts)}


def zero_length_on_barline(tracks, meta=0):
    return any(zero_on_barline_keys(tracks, ti, meta) for ti in range(len(tracks)))


def o_split_bars(inp):
    from scoda.sequences.sequence import Sequence
    tracks = [[tuple(m) for m in t] for t in inp["tracks"]]
    requant = inp["requant"]
    if not tracks:
        return [("~skip:no-sequences", "")]
    meta = inp.get("meta", 0)
    if not (0 <= meta < len(tracks)):
        return [("~skip:bad-meta-index", "")]
    states = inp.get("states") or ["rel"] * len(tracks)
    abs_lists = inp.get("abs") or [None] * len(tracks)
    abs_lists = [None if a is None else [tuple(m) for m in a] for a in abs_lists]
    # the inputs are built from plain data (h2bars_util.build_state); what each holds BEFORE and AFTER the call is read off the view
    # objects attribute by attribute and judged against the plain data — not through copy() (audit round 3, table of part 3)
    built = [U.build_state(t, st, a) for t, st, a in zip(tracks, states, abs_lists)]
    seqs = [b[0] for b in built]
    before = [U.raw_views(s) for s in seqs]
    for t, b, bv, st in zip(tracks, built, before, states):
        if U.views_hold(bv, t, b[1]) is not None:
            return [("~skip:state-not-built:" + st, "")]
    try:
        tb = Sequence.sequences_split_bars(seqs, meta_track_index=meta, quantise_note_lengths=requant)
    except Exception as e:
        # hypothesis of the property: signature changes fall on bar boundaries of the grid they induce (a shrunk input may have left it)
        if not signatures_on_grid(tracks, meta):
            return [("~skip:not-boundary-aligned", "")]
        if any(wf_violations(rel_timed(t)[0]) for t in tracks):
            # success is claimed for well-formed tracks (Strong589.split_bars_succeeds_requant); an unclosed note-on is given the standard length by
            # the re-quantiser and may overrun its bar.  Only a shrunk input gets here: the generators draw well-formed tracks.
            return [("~skip:raises-on-ill-formed-track", "")]
        return [("raises", U.Detail(f"{type(e).__name__}: {e}", exc=type(e).__name__, msg=str(e)))]
    fails = []
    for ti, (t, s, b, bv) in enumerate(zip(tracks, seqs, built, before)):
        av = U.raw_views(s)
        for name in ("rel", "abs"):
            if bv[name] is not None and av[name] != bv[name]:
                fails.append(("inputs", f"track {ti}: the {name} view of the input changed (or went stale)"))
        bad = U.views_hold(av, t, b[1])
        if bad:
            fails.append(("inputs", f"track {ti}: {bad}"))
    counts = {len(b) for b in tb}
    if len(tb) != len(tracks):
        fails.append(("equal-counts", f"{len(tb)} bar lists for {len(tracks)} tracks"))
        return fails
    if len(counts) != 1 or 0 in counts:
        fails.append(("equal-counts", f"bar counts {[len(b) for b in tb]}"))
        return fails
    ts, ks = given_meta_events(tracks[meta], states[meta], abs_lists[meta])
    durs = [rel_timed(t)[1] for t in tracks]
    maxdur = max(durs + [0])
    nb = len(tb[0])
    walk = U.text_walk(ts, ks, nb)
    if len(walk) < nb:
        return [("~skip:non-positive-bar-length", "")]
    bar_starts = []
    bars_plain = [[[from_real(m) for m in b.sequence.rel._messages] for b in bars] for bars in tb]
    for k, (start, length, cur_sig, cur_key) in enumerate(walk):
        bar_starts.append(start)
        # hypothesis: changes are boundary aligned
        if any(start < t < start + length for t, _, _ in ts):
            return [("~skip:not-boundary-aligned", "")]
        for ti, bars in enumerate(tb):
            b = bars[k]
            rel = bars_plain[ti][k]
            _, d = rel_timed(rel)
            if d != length:
                fails.append(("bar-length", U.Detail(f"track {ti} bar {k} lasts {d}, signature {cur_sig} gives {length}",
                                                      track=ti, bar=k, got=d, want=length)))
            carried = (b.time_signature_numerator, b.time_signature_denominator)
            if carried != cur_sig:
                fails.append(("bar-sig", U.Detail(f"track {ti} bar {k} carries {carried}, in force {cur_sig}", track=ti, bar=k, got=carried, want=cur_sig)))
            bk = None if b.key_signature is None else KEY_IDX[b.key_signature]
            if bk != cur_key:
                fails.append(("bar-key", U.Detail(f"track {ti} bar {k} carries key {bk}, in force {cur_key}", track=ti, bar=k, got=bk, want=cur_key)))
            # "carries that signature": the bar's own sequence starts with exactly that signature event and holds no other (C10's invariant,
            # here for bars made by the splitter — also from side tracks that repeat the signature in force)
            tsi = [(i, (m[NUM], m[DEN])) for i, m in enumerate(rel) if m[TY] == TIMESIG]
            if tsi != [(0, carried)]:
                fails.append(("bar-one-sig", f"track {ti} bar {k} carries {carried} but its sequence holds time signatures {tsi}"))
    # coverage: about the bars as they are (their lengths are judged above)
    real = [rel_timed(r)[1] for r in bars_plain[0]]
    end = sum(real)
    if maxdur > 0:
        if not (maxdur <= end and end - real[-1] < maxdur):
            fails.append(("coverage", f"bars end at {end} (last bar {real[-1]}), longest track {maxdur}"))
    else:
        # audit round 4, A6 — DECISION.  A piece of duration 0 (all tracks empty, or only zero-time events on tick 0): read literally, "less than
        # one bar to spare" would demand NO bar (the one bar the splitter returns is exactly one bar to spare), while "every track gets the same
        # number of bars" / "bar k carries the signature in force" are about at least one bar and every consumer (Track, Composition, the
        # tokeniser) needs one.  The text's coverage clause presupposes a longest track of positive duration; for a piece of duration 0 the
        # oracle judges the closest thing the text supports instead of skipping: EXACTLY ONE bar (the minimum that the equal-count clause
        # allows — `Strong589.split_bars_all_empty` proves it for the model), counted so that the evidence shows how often this reading is used.
        fails.append(("~note:coverage:zero-duration-piece-judged-as-exactly-one-bar", ""))
        if nb != 1:
            fails.append(("coverage", f"a piece of duration 0 gets {nb} bars (bars end at {end}): more than the one bar every piece gets"))
    lines = set(bar_starts) | {bar_starts[-1] + walk[-1][1]}
    for ti, t in enumerate(tracks):
        laid = []
        off = 0
        for rel in bars_plain[ti]:
            tp, d = rel_timed(rel)
            laid.extend((x + off, m) for x, m in tp)
            off += d
        src, _ = rel_timed(t)
        if wf_violations(src):
            continue        # the sounding clauses are about notes: a track with unclosed / orphaned / re-triggered notes has no sounding set to conserve
        a, b_ = sounding(src), sounding(laid)
        if not requant:
            for key in sorted(set(a) | set(b_)):
                if a.get(key) != b_.get(key):
                    fails.append(("sound-exact", U.Detail(f"track {ti}: {key} sounds {a.get(key)} in the track, {b_.get(key)} in the bars",
                                                          track=ti, key=key, orig=a.get(key), bars=b_.get(key))))
        else:
            # "only boundary-cut fragments may shrink": a note that no bar line cuts must come back with its onset and its end
            laid_notes = notes_of(laid)
            got = {(c_, p_, on_, off_) for (c_, p_, on_, off_, _) in laid_notes}
            for (c_, p_, on_, off_, _) in notes_of(src):
                if on_ < off_ and not any(on_ < x < off_ for x in lines) and (c_, p_, on_, off_) not in got:
                    back = sorted((o1, o2) for (c1, p1, o1, o2, _) in laid_notes if (c1, p1) == (c_, p_) and o1 == on_)
                    fails.append(("shrink-uncut", U.Detail(f"track {ti}: note {(c_, p_, on_, off_)} is cut by no bar line but does not come back unchanged "
                                                           f"(notes of that key with that onset in the bars: {back})",
                                                           track=ti, note=(c_, p_, on_, off_), key=(c_, p_), back=back)))
            # subset: every sounding interval of the bars lies inside an original one
            for key, ivs in b_.items():
                for (s_, e_) in ivs:
                    if not any(s0 <= s_ and e_ is not None and e0 is not None and e_ <= e0 for (s0, e0) in a.get(key, [])):
                        fails.append(("sound-subset", U.Detail(f"track {ti}: interval {(s_, e_)} of {key} not inside the original {a.get(key)}",
                                                               track=ti, key=key, interval=(s_, e_), orig=a.get(key), bars=ivs)))
    return fails


def _tracks_of(f):
    return [[tuple(m) for m in t] for t in f["input"]["tracks"]]


def _meta_given(f):
    inp = f["input"]
    tracks = _tracks_of(f)
    meta = inp.get("meta", 0)
    states = inp.get("states") or ["rel"] * len(tracks)
    abs_lists = inp.get("abs") or [None] * len(tracks)
    a = abs_lists[meta]
    return tracks, meta, given_meta_events(tracks[meta], states[meta], None if a is None else [tuple(m) for m in a])


CANONICAL_STATES = ("rel", "stale-abs", "churned")


def _canon(events):
    return sorted(events, key=lambda x: (x[0], -1 if x[2] is None else x[2]))


def handed_over(f):
    """the meta track's signature / key events in the order in which the splitter's queues hold them: the splitter reads them off the
    ABSOLUTE view of (a copy of) the meta sequence.  From a wrapper state whose relative view is the fresh one (`rel`, `stale-abs`,
    `churned`) that view is rebuilt and sorted by (tick, channel, ...): the canonical order; from every other state (`abs`, `both`,
    `stale-rel`, `insort`) it is the absolute list as handed over, i.e. the given order.  Returns (tracks, meta, given ts, given ks,
    queue ts, queue ks, canonical?) — audit round 4, B1: D23 / D36 / D34 / D35 / D38 all predict from THIS order."""
    tracks, meta, (ts, ks) = _meta_given(f)
    st = (f["input"].get("states") or ["rel"] * len(tracks))[meta]
    if st in CANONICAL_STATES:
        return tracks, meta, ts, ks, _canon(ts), _canon(ks), True
    return tracks, meta, ts, ks, list(ts), list(ks), False


def lag_explains(f, finding):
    """K2 / audit round 4 B1: is this bar-key / bar-sig / bar-length failure what the splitter's one-change-per-bar queue produces, and is it
    D23's or D36's?  The failing bar must carry exactly the value that the lag model (`Strong589.bar_key_lag`, h2bars_util.lag_walk) delivers
    to THAT bar from the queue in the order the meta track's wrapper state really hands over (`handed_over`), and
      D23 — up to that bar's start the queue holds the events in the order given (no re-ordering is involved) and the queue is BEHIND there:
            more changes are due at the bar's start than were delivered (keys: at bar k; signatures: at bar k or at an earlier bar, after
            which the whole grid is displaced) — `bar_key_caught_up` says a bar cannot fail otherwise;
      D36 — the state hands over the canonical (sorted) order and, among the events due at or before that bar's start, that order differs
            from the given one (for the key: the key events, or the signature events, whose re-ordering displaces the grid).
    A splitter that sorts its queues itself (audit mutant b6) delivers the canonical order from the states that hand over the given one: the
    bars then carry neither prediction and the failure is a VIOLATION."""
    d = U.data_of(f)
    if "bar" not in d or "got" not in d:
        return False
    tracks, meta, ts, ks, ts_q, ks_q, canonical = handed_over(f)
    k = d["bar"]
    lag = U.lag_walk(ts_q, ks_q, k + 1)
    if len(lag) <= k:
        return False
    start, length, sig, key, _sig_lag, key_lag = lag[k]
    due = lambda ev: [x for x in ev if x[0] <= start]      # noqa: E731
    re_ts, re_ks = due(ts_q) != due(ts), due(ks_q) != due(ks)
    clause = f["clause"]
    if clause == "bar-key":
        carried, reordered = d["got"] == key, re_ks or re_ts
    elif clause == "bar-sig":
        carried, reordered = tuple(d["got"]) == tuple(sig), re_ts
    elif clause == "bar-length":
        carried, reordered = d["got"] == length, re_ts
    else:
        return False
    if not carried:
        return False
    if finding == "D36":
        return canonical and reordered
    # D23: the lag it claims
    sig_behind = any(x[4] for x in lag[:k + 1])
    behind = (key_lag or sig_behind) if clause == "bar-key" else sig_behind
    return behind and not reordered


D18C_EXAMPLE = {"requant": True, "tracks": [[G.pm(WAIT, 0, 10), G.pm(ON, 0, None, note=60, vel=64), G.pm(OFF, 0, None, note=60),
                                             G.pm(WAIT, 0, 10), G.pm(ON, 0, None, note=60, vel=64), G.pm(WAIT, 0, 10),
                                             G.pm(OFF, 0, None, note=60), G.pm(WAIT, 0, 100)]]}
D23_EXAMPLE = {"requant": False, "tracks": [[G.pm(KEYSIG, 0, None, key=0), G.pm(KEYSIG, 0, None, key=7), G.pm(WAIT, 0, 200)]]}
# D23, second member: a second key change before the next bar line (tick 10 and tick 96 are both due at bar 1)
D23_EXAMPLE2 = {"requant": False, "tracks": [[G.pm(WAIT, 0, 10), G.pm(KEYSIG, 0, None, key=3), G.pm(WAIT, 0, 86), G.pm(KEYSIG, 0, None, key=5),
                                              G.pm(WAIT, 0, 200)]]}
D18B_EXAMPLE = {"requant": False, "tracks": [[G.pm(WAIT, 0, 96), G.pm(ON, 0, None, note=60, vel=64), G.pm(OFF, 0, None, note=60),
                                               G.pm(WAIT, 0, 10), G.pm(ON, 0, None, note=60, vel=64), G.pm(WAIT, 0, 10),
                                               G.pm(OFF, 0, None, note=60), G.pm(WAIT, 0, 5)]]}
D26_EXAMPLE = {"requant": True, "tracks": [[G.pm(ON, 0, None, note=60, vel=64), G.pm(WAIT, 0, 10), G.pm(OFF, 0, None, note=60), G.pm(WAIT, 0, 86)]]}
# D34 (audit K1a): a zero-length note 22 ticks before the bar line, re-quantisation on
D34_EXAMPLE = {"requant": True, "tracks": [[G.pm(WAIT, 0, 74), G.pm(ON, 0, None, note=60, vel=64), G.pm(OFF, 0, None, note=60)]]}
# D38 (soak after the merge): a zero-length note on the bar line at tick 36 (3/8 bars); its remainder is re-struck at 72 and is still open in the
# last bar, a 1/8 bar of 12 ticks: 0 + 24 > 12
D38_EXAMPLE = {"requant": True, "tracks": [[G.pm(TIMESIG, 0, None, num=3, den=8), G.pm(WAIT, 0, 36), G.pm(ON, 0, None, note=62, vel=33), G.pm(OFF, 0, None, note=62),
                                            G.pm(WAIT, 0, 36), G.pm(TIMESIG, 0, None, num=1, den=8), G.pm(WAIT, 0, 12)]]}
# D35 (audit K1b): two different time signatures on one tick
D35_EXAMPLE = {"requant": False, "tracks": [[G.pm(TIMESIG, 0, None, num=3, den=4), G.pm(TIMESIG, 0, None, num=4, den=4), G.pm(WAIT, 0, 200)]]}
D35_EXAMPLE2 = {"requant": False, "tracks": [[G.pm(TIMESIG, 0, None, num=4, den=4), G.pm(TIMESIG, 0, None, num=4, den=4), G.pm(WAIT, 0, 96),
                                              G.pm(TIMESIG, 0, None, num=7, den=8), G.pm(WAIT, 0, 84)]]}
# D36 (audit R6): two key signatures on one tick, given as [G on channel 1, D on channel 0]; from a relative view the splitter's queue holds
# them in the order of the absolute view's sort key (channel): bars carry D, G, G — from an absolute view built by add_absolute_message in
# this order the queue is [G, D]: bars carry G, D, D (D23).  The key in force after the tick (the later event as given) is D.
_R6_REL = [G.pm(KEYSIG, 1, None, key=1), G.pm(KEYSIG, 0, None, key=2), G.pm(ON, 0, None, note=60, vel=90), G.pm(WAIT, 0, 288), G.pm(OFF, 0, None, note=60)]
D36_EXAMPLE = {"requant": False, "tracks": [_R6_REL]}
R6_INSORT_EXAMPLE = {"requant": False, "tracks": [_R6_REL], "states": ["insort"], "abs": [U.abs_of_rel(_R6_REL)]}
# D36, second member (audit round 4, B7: the clauses bar-sig / bar-length of D36 do fail on the unchanged tree, here): two time signatures on the
# meta track's FINAL tick, given as [3/4 on channel 1, 2/4 on channel 0], beside a longer track.  split drops the two events from the meta
# track's bars (D8), so no bar holds two signatures and nothing raises; the queue, rebuilt from the relative view, holds [2/4, 3/4]: bar 1
# carries 2/4 (in force as given), bar 2 and every later bar 3/4.
D36_EXAMPLE2 = {"requant": False, "tracks": [[G.pm(WAIT, 0, 96), G.pm(TIMESIG, 1, None, num=3, den=4), G.pm(TIMESIG, 0, None, num=2, den=4)],
                                             [G.pm(ON, 0, None, note=60, vel=64), G.pm(WAIT, 0, 300), G.pm(OFF, 0, None, note=60)]]}
# audit round 4, A6: pieces of duration 0 (the coverage clause is judged as "exactly one bar", see o_split_bars)
EMPTY_EXAMPLES = [{"tracks": [[], []], "requant": False}, {"tracks": [[G.pm(TIMESIG, 0, None, num=3, den=4)], []], "requant": False},
                  {"tracks": [[]], "requant": True}, {"tracks": [[G.pm(KEYSIG, 0, None, key=3)], [], []], "requant": True, "meta": 0}]


def setup(ctx):
    ctx.oracle("split_bars", o_split_bars)
    import json as _json
    import os as _os
    with open(_os.path.join(_os.path.dirname(_os.path.dirname(_os.path.dirname(_os.path.abspath(__file__)))), "known_findings.json")) as _f:
        _kf = {x["id"]: x for x in _json.load(_f)["findings"]}
    _allowed = set(_kf["D26"]["default_note_values"])
    _std = _kf["D34"]["standard_length"]

    # ---- audit round 4, B5: D18b / D18c PREDICT the damage (h2bars_util.bars_model: split's tear, the re-quantiser's sort + pairing + shortening
    # with the stored standard length and note values, Bar's normalise) instead of testing whether the damaged key is the key of some
    # zero-length note.  The model is a harness-side transcription of the recorded mechanism; on the unchanged tree it reproduces the bars'
    # note events exactly (250 000 split inputs, 24 000 bar-splitting inputs of these generators: 0 differences).
    _cache = {}

    def _model(f, track=None, key=None):
        """the predicted bars of this input — with `track` / `key`: of the input WITHOUT the zero-length notes of that key in that track"""
        inp = f["input"]
        ck = (id(inp), track, None if key is None else tuple(key))
        hit = _cache.get(ck)
        if hit is not None and hit[0] is inp:
            return hit[1]
        tracks, _meta, _ts, _ks, ts_q, _ks_q, _c = handed_over(f)
        if key is not None:
            tracks = [U.without_zero_notes(t, key) if i == track else t for i, t in enumerate(tracks)]
        m = U.bars_model(tracks, ts_q, inp["requant"], _allowed, _std)
        if len(_cache) > 64:
            _cache.clear()
        _cache[ck] = (inp, m)
        return m

    def _datum(m, f):
        """what the sounding clauses look at, read off the predicted bars: the sounding intervals of the damaged key"""
        d = U.data_of(f)
        if m["overflow"] is not None or d["track"] >= len(m["laid"]):
            return ("no-prediction",)
        return sounding(m["laid"][d["track"]]).get(tuple(d["key"]))

    def _observed(f):
        d = U.data_of(f)
        return None if d.get("bars") is None else [tuple(x) for x in d["bars"]]

    def _zero_note_explains(f, torn_only):
        """the damaged key is the key of a zero-length note of THAT track (`torn_only`: one that sits on a bar start after tick 0 of the grid
        the splitter walks — tick 0 is a bar start but no cut point), the bars show for that key exactly what the mechanism's model predicts,
        and the model predicts something else once the zero-length notes of that key are taken out of the track (they are the cause: every
        other note comes back as it would without them)."""
        d = U.data_of(f)
        if "key" not in d or "track" not in d:
            return False
        tracks = _tracks_of(f)
        key, ti = tuple(d["key"]), d["track"]
        m = _model(f)
        at = (set(m["starts"]) - {0}) if torn_only else None
        if key not in {(c, p) for (c, p, _, _) in U.zero_length_keys(tracks[ti], at=at)}:
            return False
        predicted = _datum(m, f)
        return predicted != ("no-prediction",) and _observed(f) == predicted and _datum(_model(f, ti, key), f) != predicted

    def kf_d18b(f):
        # a zero-length note on a bar line is torn by split; the orphaned note-on swallows the next note of its key in the bar where they meet
        # (re-quantisation off), or is closed at the next onset of its key / 24 ticks later and shortened to an allowed value (on)
        # (clause list narrowed to what fails on the unchanged tree, audit round 4 B7: `shrink-uncut` never comes from a zero-length note — the
        # orphaned note-on is closed AT the next onset of its key, that next note itself comes back as it would without it; 0 of 11 000
        # bookings in thorough runs — it is D26's clause)
        return f["clause"] in ("sound-exact", "sound-subset") and _zero_note_explains(f, torn_only=True)
    ctx.kf_predicates["D18b"] = kf_d18b

    def kf_d18c(f):
        # re-quantisation on: a zero-length note ANYWHERE is re-sorted off-before-on in its bar piece; same prediction
        return f["clause"] == "sound-subset" and bool(f["input"]["requant"]) and _zero_note_explains(f, torn_only=False)
    ctx.kf_predicates["D18c"] = kf_d18c

    def kf_d23(f):
        # the failing bar carries exactly what the one-change-per-bar queue delivers to it while that queue is behind (audit K2), the queue
        # being in the order the meta track's wrapper state hands over, which here is the order given (audit round 4, B1)
        return f["clause"] in ("bar-key", "bar-sig", "bar-length") and lag_explains(f, "D23")
    ctx.kf_predicates["D23"] = kf_d23

    def kf_d36(f):
        # the meta track's state hands over the canonical order (tick, channel), that order differs from the given one among the events due at
        # the failing bar's start, and the bar carries what the queue delivers in the canonical order (audit R6; round 4, B1).  Clauses: bar-key
        # (D36_EXAMPLE) and bar-sig / bar-length (D36_EXAMPLE2: two signatures on the meta track's final tick, which split drops from the bars
        # but the queue still holds — anywhere else two different signatures on one tick end in D35's exception)
        return f["clause"] in ("bar-key", "bar-sig", "bar-length") and lag_explains(f, "D36")
    ctx.kf_predicates["D36"] = kf_d36

    def kf_d26(f):
        # re-quantisation on: THE failing note has a length outside the stored default note values and comes back with the largest stored
        # value not above its length — or not at all when there is none (audit K3)
        d = U.data_of(f)
        if f["clause"] != "shrink-uncut" or not f["input"]["requant"] or "note" not in d:
            return False
        c, p, on, off = d["note"]
        if (off - on) in _allowed:
            return False
        best = U.requant_prediction(off - on, _allowed)
        return [tuple(x) for x in d["back"]] == ([] if best is None else [(on, on + best)])
    ctx.kf_predicates["D26"] = kf_d26

    def _overflow_origins(f):
        # re-quantisation on and exactly `BarException: Bar capacity exceeded`: the origins (torn / sorted / other) of the orphaned note-ons in
        # the FIRST bar piece that the harness-side model of the splitter sees overrunning its bar — the splitter builds the bars round by
        # round, track by track, and the first such piece is the one that raises (audit round 4, B7: a later overflow of another origin does
        # not explain this exception).  The grid is the one the splitter walks: its signature queue in the order handed over.
        d = U.data_of(f)
        if f["clause"] != "raises" or not f["input"]["requant"] or d.get("exc") != "BarException" or d.get("msg") != "Bar capacity exceeded":
            return set()
        tracks, _meta, _ts, _ks, ts_q, _ks_q, _c = handed_over(f)
        first = _model(f)["overflow"]
        if first is None:
            return set()
        return {o[0] for o in U.classify_overflows(tracks, ts_q, _std, _allowed) if (o[1], o[2]) == first}

    def kf_d34(f):
        # the first overflowing bar piece holds a zero-length note whose note-off the sort put before its note-on, and the orphaned note-on,
        # closed `standard_length` (stored: 24) later, overruns the bar (predicted by the model, not only by the input's shape)
        return "sorted" in _overflow_origins(f)
    ctx.kf_predicates["D34"] = kf_d34

    def kf_d38(f):
        # the never-ending remainder of a zero-length note torn on a bar line (D18b) is still open in the first overflowing bar piece (the track
        # ends there, or the piece is the tear's own bar) and, closed `standard_length` later, overruns that bar
        return "torn" in _overflow_origins(f)
    ctx.kf_predicates["D38"] = kf_d38

    def kf_d35(f):
        # a BarException about time signatures, and it is exactly the one that D23's one-change-per-bar queue leads to on this input (two
        # time signatures on one tick: the bar takes the first and holds both events, or a duplicate keeps the queue one bar behind); the queue
        # in the order handed over
        d = U.data_of(f)
        if f["clause"] != "raises" or d.get("exc") != "BarException":
            return False
        tracks, meta, _ts, _ks, ts_q, _ks_q, _c = handed_over(f)
        return bool(U.same_tick_pairs(ts_q, different=False)) and d.get("msg") == U.lag_predicts_exception(tracks, meta, ts_q)
    ctx.kf_predicates["D35"] = kf_d35


def add_same_tick_pairs(rng, ctx, track, bars):
    """audit K1 / R1: two signatures of a kind on one tick of the meta track, and a second change before the next bar line"""
    kind = rng.choice(["key-pair", "key-pair", "key-pair-channels", "ts-pair-different", "ts-pair-identical", "ts-pair-final-tick", "key-midbar", "ts-midbar"])
    start, length, n, d = rng.choice(bars)
    ctx.count("same-tick:" + kind)
    if kind in ("key-pair", "key-pair-channels"):
        k1, k2 = rng.sample(range(15), 2)
        c1, c2 = (0, 0) if kind == "key-pair" else rng.choice([(1, 0), (2, 1), (0, 1), (1, 0)])
        return U.insert_at_tick(track, start, [G.pm(KEYSIG, c1, None, key=k1), G.pm(KEYSIG, c2, None, key=k2)], before=rng.random() < 0.5)
    if kind == "ts-pair-different":
        other = rng.choice([s for s in G.SIGS if s != (n or 4, d or 4)])
        # before the signature already on that tick (the grid of the text stays the piece's grid) or after it (the pair's last one is in force)
        pair = [G.pm(TIMESIG, 0, None, num=other[0], den=other[1])] + ([] if n else [G.pm(TIMESIG, 0, None, num=4, den=4)])
        return U.insert_at_tick(track, start, pair, before=True)
    if kind == "ts-pair-identical":
        sig = (n or 4, d or 4)
        return U.insert_at_tick(track, start, [G.pm(TIMESIG, 0, None, num=sig[0], den=sig[1])] * (1 if n else 2), before=rng.random() < 0.5)
    if kind == "ts-pair-final-tick":
        # on the last tick of the meta track (where split drops zero-time events, D8) beside a longer track: the Lean witness of bar_sig_statement_false
        _, dur = rel_timed(track)
        end = bars[-1][0] + bars[-1][1]
        a, b = rng.sample(G.SIGS, 2)
        return track + ([G.pm(WAIT, 0, end - dur)] if end > dur else []) + [G.pm(TIMESIG, 0, None, num=a[0], den=a[1]), G.pm(TIMESIG, 0, None, num=b[0], den=b[1])]
    if kind == "key-midbar":
        # a key change inside the bar and another on the next bar line: both are due at the next bar start
        t1 = start + rng.randint(1, max(1, length - 1))
        tr = U.insert_at_tick(track, t1, [G.pm(KEYSIG, 0, None, key=rng.randrange(15))])
        return U.insert_at_tick(tr, start + length, [G.pm(KEYSIG, 0, None, key=rng.randrange(15))])
    # a second time-signature change before the next bar line: outside the property's hypothesis (the oracle skips it), counted
    t1 = start + rng.randint(1, max(1, length - 1))
    other = rng.choice(G.SIGS)
    return U.insert_at_tick(track, t1, [G.pm(TIMESIG, 0, None, num=other[0], den=other[1])])


def add_side_signatures(rng, ctx, track, bars):
    """audit table, C09: signature / key events on a track that is NOT the meta track: key signatures anywhere (the bar's key is the meta
    track's), time signatures repeating the one in force on a bar start (accepted; the bar still holds exactly one), rarely a conflicting one
    (outside the hypothesis: BarException, skipped by the oracle)"""
    _, dur = rel_timed(track)
    out = track
    for _ in range(rng.choice([1, 1, 2])):
        r = rng.random()
        start, length, n, d = rng.choice(bars)
        if r < 0.45:
            out = U.insert_at_tick(out, rng.randint(0, max(1, dur)), [G.pm(KEYSIG, 0, None, key=rng.randrange(15))])
            ctx.count("side-track:key-signature")
        elif r < 0.9:
            if start <= dur:
                out = U.insert_at_tick(out, start, [G.pm(TIMESIG, 0, None, num=n or 4, den=d or 4)], before=rng.random() < 0.5)
                ctx.count("side-track:time-signature-in-force")
        else:
            if start <= dur:
                other = rng.choice([s for s in G.SIGS if s != (n or 4, d or 4)])
                out = U.insert_at_tick(out, start, [G.pm(TIMESIG, 0, None, num=other[0], den=other[1])])
                ctx.count("side-track:time-signature-conflicting")
    return out


def shuffle_same_tick(rng, a):
    """an absolute list with the messages of each tick in another order (what add_absolute_message leaves behind: insertion order); note-offs
    stay before the note-ons of their tick and a note-on before its own note-off, so that the notes stay what they were"""
    out, i = [], 0
    while i < len(a):
        j = i
        while j < len(a) and a[j][TIME] == a[i][TIME]:
            j += 1
        grp = list(a[i:j])
        meta = [m for m in grp if m[TY] in (TIMESIG, KEYSIG)]
        if len(meta) > 1:
            rng.shuffle(meta)
            it = iter(meta)
            grp = [next(it) if m[TY] in (TIMESIG, KEYSIG) else m for m in grp]
        out.extend(grp)
        i = j
    return out


SHORT_SIGS = [(1, 8), (2, 8), (3, 8), (1, 8), (3, 16), (1, 16), (1, 4), (4, 4), (3, 4), (5, 8), (2, 4)]


def gen_short_bar_case(rng, ctx):
    """the class of D38 (soak after the merge of audit round 3): bars shorter than the 24-tick standard length (1/8, 3/16, 1/16; also 2/8, 3/8)
    x zero-length notes on and off bar lines x tracks of zero duration (only a zero-length note, or empty) x tracks ending on / before / after
    the last bar line x meta index x re-quantisation"""
    nb = rng.randint(1, 6)
    t, cur, bars = 0, rng.choice(SHORT_SIGS), []
    ev = [(0, cur)] if rng.random() < 0.8 else []
    if not ev:
        cur = (4, 4)
    for b in range(nb):
        if b and rng.random() < 0.4:
            cur = rng.choice(SHORT_SIGS)
            ev.append((t, cur))
        bars.append(t)
        t += 96 * cur[0] // cur[1]
    total, starts = t, bars + [t]
    tracks = []
    for i in range(rng.choice([1, 2, 2, 3])):
        r = rng.random()
        if i > 0 and r < 0.2:
            tracks.append([])
            ctx.count("short-bars:empty-track")
            continue
        if i > 0 and r < 0.4:
            tracks.append([G.pm(ON, 0, None, note=58, vel=127), G.pm(OFF, 0, None, note=58)])
            ctx.count("short-bars:zero-duration-track-with-zero-length-note")
            continue
        end = rng.choice([total, total, max(1, total - rng.randint(0, 30)), total + rng.randint(0, 20)])
        notes = []
        for _ in range(rng.randint(0, 4)):
            p, on, dur = rng.choice([56, 58, 60, 62]), rng.randint(0, max(0, end - 1)), rng.choice([1, 2, 6, 10, 12, 24, 30, 48, 5])
            if any(x[1] == p and not (on + dur <= x[2] or x[2] + x[3] <= on) for x in notes):
                continue
            notes.append((0, p, on, dur, rng.choice([1, 64, 127])))
        rel = G.abs_to_rel(G.notes_to_abs(notes, [], cap=(end if rng.random() < 0.5 else None)))
        if rng.random() < 0.75:
            rel = U.inject_zero_notes(rng, rel, ticks=(starts if rng.random() < 0.6 else None), pitches=(56, 58, 60, 62), n=rng.choice([1, 1, 2]))
        tracks.append(rel)
    for (tick, sig) in ev:
        tracks[0] = U.insert_at_tick(tracks[0], tick, [G.pm(TIMESIG, 0, None, num=sig[0], den=sig[1])], before=True)
    meta = 0
    if len(tracks) > 1 and rng.random() < 0.5:
        meta = rng.randrange(1, len(tracks))
        tracks[0], tracks[meta] = tracks[meta], tracks[0]
    inp = {"tracks": tracks, "requant": rng.random() < 0.75}
    if meta:
        inp["meta"] = meta
    if any(96 * n // d < 24 for _, (n, d) in ev):
        ctx.count("short-bars:a-bar-shorter-than-24-ticks")
    if any(z[2] in starts and z[2] > 0 for tr in tracks for z in U.zero_length_keys(tr)):
        ctx.count("short-bars:zero-length-note-on-a-bar-line")
    return inp


def generate(ctx):
    rng = ctx.rng
    for ex in (D18B_EXAMPLE, D18C_EXAMPLE, D23_EXAMPLE, D23_EXAMPLE2, D26_EXAMPLE, D34_EXAMPLE, D38_EXAMPLE, D35_EXAMPLE, D35_EXAMPLE2, D36_EXAMPLE, R6_INSORT_EXAMPLE,
               D36_EXAMPLE2):
        ctx.check("split_bars", ex)      # the recorded instances of the known findings
    for ex in EMPTY_EXAMPLES:
        ctx.count("zero-duration-piece")
        ctx.check("split_bars", ex)
    # the same content as D36_EXAMPLE / R6_INSORT_EXAMPLE in every wrapper state: what the bars carry depends on the state (audit R6)
    for st in U.STATES:
        ctx.check("split_bars", {"requant": False, "tracks": [_R6_REL], "states": [st]})
    for i in range(ctx.n(150, 2000)):
        inp = gen_short_bar_case(rng, ctx)
        ctx.count("short-bars")
        ctx.case((inp["tracks"], inp["requant"], inp.get("meta", 0)), True)
        ctx.check("split_bars", inp)
        if i % 3 == 0:
            ctx.check("split_bars", dict(inp, states=[rng.choice(U.STATES + ["insort"]) for _ in inp["tracks"]]))
        ctx.corr("splitBars", P.op_splitBars(inp.get("meta", 0), inp["requant"], inp["tracks"]))
    # signature changes between signatures of EQUAL bar length (3/4 <-> 6/8, 4/4 <-> 2/2, 2/4 <-> 4/8) while side tracks have already ended or
    # are empty: the bars of an ended track must carry the signature in force too (seeded change C09_agent7: rest bars cached by length and key)
    same_len = [[(3, 4), (6, 8)], [(4, 4), (2, 2), (8, 8)], [(2, 4), (4, 8)], [(6, 4), (12, 8)]]
    for i in range(ctx.n(60, 600)):
        fam = rng.choice(same_len)
        n_bars = rng.randint(3, 6)
        sigs, cur = [], None
        for b in range(n_bars):
            nxt = rng.choice([x for x in fam if x != cur]) if (cur is None or rng.random() < 0.6) else cur
            sigs.append(nxt)
            cur = nxt
        length = 96 * sigs[0][0] // sigs[0][1]
        meta_abs, t = [], 0
        for b, (n_, d_) in enumerate(sigs):
            if b == 0 or sigs[b - 1] != (n_, d_):
                meta_abs.append(G.pm(TIMESIG, 0, t, num=n_, den=d_))
            if rng.random() < 0.3:
                meta_abs.append(G.pm(KEYSIG, 0, t, key=rng.randrange(15)))
            if b == n_bars - 1 or rng.random() < 0.6:          # the meta track sounds to the end, so it is the longest
                meta_abs += [G.pm(ON, 0, t + 12, note=60 + b, vel=64), G.pm(OFF, 0, t + 24, note=60 + b)]
            t += length
        meta_abs.append(G.pm(INTERNAL, 0, t))
        side = rng.choice(["empty", "one-bar", "half"])
        side_abs = [] if side == "empty" else \
            [G.pm(ON, 0, 6, note=72, vel=80), G.pm(OFF, 0, 18, note=72)] + ([G.pm(INTERNAL, 0, length * (n_bars // 2))] if side == "half" else [])
        tracks = [G.abs_to_rel(sorted(meta_abs, key=lambda m: m[TIME])), G.abs_to_rel(side_abs)]
        if rng.random() < 0.4:
            tracks.append([])
        requant = rng.random() < 0.5
        ctx.count("same-length-signature-changes:side-" + side)
        ctx.case((tracks, requant, 0), True)
        ctx.check("split_bars", {"tracks": tracks, "requant": requant})
        ctx.corr("splitBars", P.op_splitBars(0, requant, tracks))
    for i in range(ctx.n(400, 4000)):
        piece = G.gen_piece(rng, key_changes=True, unequal=rng.random() < 0.5, tail_ok=True, values=[6, 12, 24, 36, 48, 96, 5])
        tracks = [list(t) for t in piece["tracks"]]
        bars = piece["bars"]
        plain = True                  # the shapes the generator drew before audit round 3 (the correspondence is run on all shapes)
        if rng.random() < 0.35:
            # multi-channel tracks: a rest that crosses a bar line may carry another channel than the note held across it
            tracks = [tracks[0]] + [G.spread_channels(rng, t) for t in tracks[1:]] \
                if rng.random() < 0.5 else [G.spread_channels(rng, t) for t in tracks]
            ctx.count("multi-channel-tracks")
        if rng.random() < 0.3:
            # zero-length notes: anywhere, or on bar lines (audit K1)
            j = rng.randrange(len(tracks))
            chans = tuple(sorted({m[CH] for m in tracks[j] if m[TY] == ON})) or (0,)
            if rng.random() < 0.5:
                tracks[j] = U.inject_zero_notes(rng, tracks[j], channels=chans, pitches=(60, 61, 62))
                ctx.count("zero-length-note:anywhere")
            else:
                tracks[j] = U.inject_zero_notes(rng, tracks[j], ticks=[b[0] for b in bars] + [bars[-1][0] + bars[-1][1]], channels=chans, pitches=(60, 61, 62))
                ctx.count("zero-length-note:on-bar-line")
            plain = False
        if rng.random() < 0.25:
            tracks[0] = add_same_tick_pairs(rng, ctx, tracks[0], bars)
            plain = False
        if len(tracks) > 1 and rng.random() < 0.35:
            j = rng.randrange(1, len(tracks))
            tracks[j] = add_side_signatures(rng, ctx, tracks[j], bars)
            plain = False
        if rng.random() < 0.15:
            # signature / key events of the meta track on other channels than 0 (the absolute view sorts the events of one tick by channel)
            tracks[0] = [((m[0], rng.choice([0, 1, 2])) + tuple(m[2:])) if m[TY] in (TIMESIG, KEYSIG) else m for m in tracks[0]]
            ctx.count("meta-events-on-other-channels")
        meta = 0
        if len(tracks) > 1 and rng.random() < 0.4:
            # the meta track is not the first one (audit table: meta_track_index was always 0)
            meta = rng.randrange(1, len(tracks))
            tracks[0], tracks[meta] = tracks[meta], tracks[0]
        ctx.count("meta-index:%d" % meta)
        requant = rng.random() < 0.5
        nt = len(piece["sigs"]) > 1 or len(set(rel_timed(t)[1] for t in tracks)) > 1
        ctx.case((tracks, requant, meta), nt)
        ctx.count("requant" if requant else "exact")
        ctx.count("bars:%d" % len(bars))
        if any(U.zero_length_keys(t) for t in tracks):
            ctx.count("zero-length-note:" + ("requant" if requant else "exact"))
        inp = {"tracks": tracks, "requant": requant}
        if meta:
            inp["meta"] = meta
        ctx.check("split_bars", inp)
        if i % 2 == 0:
            sts = [rng.choice(U.STATES + ["churned", "insort"]) for _ in tracks]
            ctx.count("wrapper-states")
            trs = tracks
            if rng.random() < 0.5:
                # one track ends in whole bars of silence (the rest that makes it the longest may live in only one of its views)
                j = rng.randrange(len(trs))
                last = bars[-1][1]
                gap = max(0, piece["total"] - rel_timed(trs[j])[1])
                trs = [list(t) for t in trs]
                trs[j] = trs[j] + [G.pm(WAIT, 0, gap + last * rng.randint(1, 2))]
                ctx.count("wrapper-states:trailing-silence")
            inp2 = dict(inp, tracks=trs, states=sts)
            if sts[meta] in ("abs", "stale-rel", "insort") and rng.random() < 0.7:
                # the meta track handed over through its absolute view with the signature events of one tick in another order (audit R6)
                ab = [None] * len(trs)
                ab[meta] = shuffle_same_tick(rng, U.abs_of_rel(trs[meta]))
                if ab[meta] != U.abs_of_rel(trs[meta]):
                    ctx.count("wrapper-states:meta-absolute-view-in-another-same-tick-order")
                inp2["abs"] = ab
            ctx.check("split_bars", inp2)
            # the correspondence from wrapper states whose relative view is the given list and whose absolute view (which the splitter reads the
            # signatures from) was supplied by the harness: model = code as long as that view holds the meta events in the model's order
            if U.meta_events(trs[meta], "list") == U.meta_events(trs[meta], "canonical"):
                cst = [rng.choice(["both", "both", "stale-abs", "rel"]) for _ in trs]
                ctx.corr("splitBars", U.op_splitBars_states(meta, requant, trs, cst), meta={"states": cst})
                ctx.count("corr:splitBars:from-wrapper-states")
            else:
                ctx.count("corr:splitBars:skipped(meta events of one tick not in the model's order: judged by the oracle, D36)")
        ctx.corr("splitBars", P.op_splitBars(meta, requant, tracks))
        ctx.count("corr:splitBars:" + ("plain-shapes" if plain else "new-shapes"))
        ctx.sample({"tracks": [t[:6] for t in tracks], "requant": requant, "meta": meta})
