"""C09 — bar splitting follows the time signatures and conserves the music."""
import gens as G
import pyimpl as P
from oracle_util import *  # noqa
from protocol import from_real, KEY_IDX

ID = "C09"
LEAN_MODULE = ["SCoda.Props.C09", "SCoda.Props.Purity", "SCoda.Props.C16b", "SCoda.Props.Strong589", "SCoda.Props.ElemTie", "SCoda.Props.StaticTie", "SCoda.Props.RelTie2", "SCoda.Props.C09n", "SCoda.Props.AbsTie2", "SCoda.Props.StaticLink"]
LEVEL = "proof"
CLAUSES = [
    ("every track gets the same number of bars (one list per input track, all of one positive length); the loop terminates for positive bar lengths",
     ["SCoda.C09.equal_counts", "SCoda.C09.terminates"]),
    ("bar k lasts exactly the length of the signature it carries, starts with that signature and holds no other; it carries the same signature and key on "
     "every track: the signature and the key in force at its start (boundary-aligned changes, 4/4 and no key before any)",
     ["SCoda.C09.bars_exact", "SCoda.C09.same_column", "SCoda.C09.bar_signature"]),
    ("bars cover the longest track with less than one bar to spare", ["SCoda.C09.coverage"]),
    ("re-quantisation off: a track's bars reproduce its sounding set exactly — proved for tracks without zero-length notes (hypothesis "
     "NoZeroNotes; a zero-length note on a bar line is known finding D18b, replayed on the implementation)", ["SCoda.C09.sound_exact"]),
    ("re-quantisation on: a subset of it (same hypothesis)", ["SCoda.C09.sound_subset"]),
    ("EXACT finding classes and NOTES (audit A6): re-quantisation off — the sounding clause is refuted in general (D18b witness, model bars = implementation's bars) and proved "
     "when no zero-length note sits on a bar line, with every hypothesis input-level (positive bar lengths, meta signatures on the grid they induce, `NoZeroOnGrid` over the "
     "independent grid `gridStart`); the bars' notes are a permutation of the track's notes cut at the bar lines. Re-quantisation on — the subset clause is refuted, and so is "
     "its narrowing to bar lines (a zero-length note ANYWHERE makes the bars sound where the track is silent: known finding D18c); proved for tracks without zero-length "
     "notes; what re-quantisation really does, per key and in time order: the bars' notes are the cut fragments, a fragment is dropped only if its duration is not an allowed "
     "value, every other fragment keeps channel, pitch, velocity and onset, ends no later, has an allowed duration and is unchanged if its duration was allowed already "
     "('only boundary-cut fragments may shrink' does not describe the code: any fragment of non-allowed length shrinks or goes)",
     ["SCoda.Strong589.sound_exact_statement_false", "SCoda.Strong589.sound_exact_barlines", "SCoda.Strong589.sound_exact_boundary", "SCoda.Strong589.notes_cut_bars", "SCoda.Strong589.notes_cut_bars_key",
      "SCoda.Strong589.d18b_bars", "SCoda.Strong589.sound_subset_statement_false", "SCoda.Strong589.sound_subset_boundary_statement_false", "SCoda.Strong589.sound_subset_partial",
      "SCoda.Strong589.requant_bars_key", "SCoda.Strong589.requant_bars_onsets_kept", "SCoda.Strong589.requant_bars_allowed_unchanged", "SCoda.Strong589.requant_run_key",
      "SCoda.Strong589.requant_onsets_kept", "SCoda.Strong589.requant_allowed_unchanged", "SCoda.Strong589.requant_no_duplicates", "SCoda.Strong589.requant_all_allowed"]),
    ("SUCCESS and failure (audit A6b): under input-level conditions (valid meta index, non-negative waits, positive bar lengths, the meta track's signatures on the grid they "
     "induce and on distinct ticks, side tracks only repeating the signature in force; with re-quantisation also positive note values and well-formed tracks without "
     "zero-length notes) sequences_split_bars SUCCEEDS; a first bar of capacity 0 with a non-empty track is a BarException (re-quantisation off; with it on, short notes are "
     "silently dropped instead — refuted statement, replayed), an all-empty input gives one bar, a bad meta index an IndexError",
     ["SCoda.Strong589.split_bars_succeeds", "SCoda.Strong589.split_bars_succeeds_requant", "SCoda.Strong589.split_bars_spec", "SCoda.Strong589.split_bars_zero_len", "SCoda.Strong589.split_bars_zero_len_at",
      "SCoda.Strong589.split_bars_all_empty", "SCoda.Strong589.split_bars_bad_meta", "SCoda.Strong589.split_bars_zero_len_requant_statement_false"]),
    ("signature and key of bar k from an INPUT-ONLY alignment predicate (no bound by the number of bars, changes on the final boundary allowed): the bar's signature is the one in "
     "force at `gridStart k` on every track; the key is the one in force when key changes come one per bar start; the queue consumes at most ONE change per bar, so two key "
     "(or time-signature) changes due at one bar start leave the bar with the first (refuted statements, replayed: known finding D23), and the lag is characterised exactly",
     ["SCoda.Strong589.bar_signature_in", "SCoda.Strong589.bar_key_in", "SCoda.Strong589.bar_sig_partial", "SCoda.Strong589.bar_key_partial", "SCoda.Strong589.bar_key_statement_false",
      "SCoda.Strong589.bar_sig_statement_false", "SCoda.Strong589.bar_key_lag", "SCoda.Strong589.bar_key_caught_up", "SCoda.Strong589.bar_key_two_changes", "SCoda.Strong589.sigsOf_roll", "SCoda.Strong589.keysOf_roll"]),
    ("TIE BY TRANSLATION: Sequence.sequences_split_bars is re-translated statement by statement on every run (Gen/StaticFns.lean: the `while not tracks_synchronised` "
     "loop with the model's fuel, the signature / key queues consumed by next(...) + pop(0), per-track split, placeholders, optional re-quantisation, Bar construction "
     "through the translated bar.py) and proved equal to the model `splitBars` the clauses above are about — same exception or same bars — for inputs that can be read, "
     "whose meta sequence's fresh absolute view agrees with its relative view, and whose signatures have numerator >= 0, denominator > 0 (where Python's "
     "int(PPQN*(n/(d/4))) is the model's integer bar length); every returned bar has its relative view fresh and its absolute view stale; the inner "
     "RelativeSequence.split is itself translated and proved (RelTie2)",
     ["SCoda.StaticTie.sequencesSplitBars_eq", "SCoda.StaticTie.sequencesSplitBars_ofRel", "SCoda.StaticTie.sequencesSplitBars_constructed",
      "SCoda.StaticTie.seq_split_bars_link", "SCoda.ElemTie.barInit_eq", "SCoda.ElemTie.barInit_flags", "SCoda.RelTie2.split_eq"]),
    ("the input sequences are left unchanged: sequences_split_bars works on private copies and no write site acts on an object that existed "
     "before the call (purity typing over regenerated facts); the bars are fresh (C16b); observed on the real objects by the oracle's `inputs` "
     "clause from five wrapper states",
     ["SCoda.Purity.purity_cert_closed", "SCoda.Purity.routes_write_nothing_shared", "SCoda.Purity.purity_routes_seen", "SCoda.C16.derivations_return_fresh"]),
    ('re-quantisation off, D18b carve-out exact at tick 0 (audit round 2 F5): the bars reproduce the sounding set exactly for every track with no zero-length note on a bar start AFTER tick 0 of the grid (a zero-length note at tick 0 is allowed: tick 0 is a bar start but no cut point; the output-level bar-LINE predicate never excluded it)',
     ["SCoda.C09n.sound_exact_boundary'", "SCoda.C09n.sound_exact_barlines'", "SCoda.C09n.noZeroOnBarLine_iff", "SCoda.C09n.noZeroOnGrid'_of_B"]),
    ('TIE BY TRANSLATION, absolute view with object identity: the dict-heavy / aliasing methods of AbsoluteSequence are re-translated statement by statement on every run (Gen/AbsFns2.lean, tools/py2lean_abs2.py: Message objects live in a heap, a reference is a position tag, stores through any alias update the heap cell, dicts are insertion-ordered association lists, while loops carry proved fuel bounds) and proved equal to the hand models, for every heap and reference list with references into the heap and channels not None: get_message_times_of_type (the link of the static translator through which sequences_split_bars reads signatures and keys, audit round 3 R1) returns the references filtered by type paired with their times = the model timesOfType, no hypothesis',
     ["SCoda.AbsTie2.getMessageTimesOfType_eq", "SCoda.AbsTie2.timesOfType_eq", "SCoda.AbsTie2.timesOfType_init"]),
    ('the link through which the translated sequences_split_bars reads the signature and key queues (AbsoluteSequence.get_message_times_of_type, a hand-written definition in Model/StaticLib.lean) is what the TRANSLATED method computes on a freshly built list, read back through the heap (audit round 3 R1: an edit of that method now breaks this obligation)',
     ["SCoda.StaticLink.timesOfType_link", "SCoda.AbsTie2.getMessageTimesOfType_eq", "SCoda.AbsTie2.timesOfType_init"]),
]
RULE = ("multi-track pieces (1-3 tracks, 1-5 bars, 9 signatures with boundary-aligned changes, key changes on bar lines, "
        "tracks of unequal length, empty tracks, notes crossing bar lines) x re-quantisation on/off; "
        "non-trivial = a signature change or a note crossing a bar line or tracks of unequal length")
ASSUMPTIONS = ["model: SCoda.splitBars (Model/Bar.lean), tied by correspondence",
               "hypothesis of the property: signature changes fall on bar boundaries of the grid they induce; bar lengths 96*n/d are positive integers"]


def grid_of(piece_tracks):
    """bar grid induced by track 0's signature / key events: list of (start, len, (n, d), key)"""
    timed, _ = rel_timed(piece_tracks[0])
    ts = sorted([(t, (m[NUM], m[DEN])) for t, m in timed if m[TY] == TIMESIG], key=lambda x: x[0])
    ks = sorted([(t, m[KEY]) for t, m in timed if m[TY] == KEYSIG], key=lambda x: x[0])
    return ts, ks


def signatures_on_grid(tracks):
    """every time-signature change of the meta track (track 0) sits on a bar start of the grid induced by the earlier ones, every other
    track only repeats the signature in force there, and all bar lengths are positive"""
    ts, _ = grid_of(tracks)
    end = max([rel_timed(t)[1] for t in tracks] + [t for t, _ in ts] + [0])
    start, cur = 0, (4, 4)
    pending = sorted(ts, key=lambda x: x[0])
    force = []           # (start, end, sig) per bar
    for _ in range(400):
        due = [x for x in pending if x[0] <= start]
        if any(x[0] < start for x in due):
            return False
        if due:
            cur = due[-1][1]
            pending = [x for x in pending if x[0] > start]
        step = 96 * cur[0] // cur[1]
        if step <= 0 or (96 * cur[0]) % cur[1]:
            return False
        if any(start < x[0] < start + step for x in pending):
            return False
        force.append((start, start + step, cur))
        start += step
        if start > end and not pending:
            break
    for t in tracks[1:]:
        for tick, m in rel_timed(t)[0]:
            if m[TY] == TIMESIG:
                bar = [f for f in force if f[0] <= tick < f[1]]
                if not bar or (m[NUM], m[DEN]) != bar[0][2]:
                    return False
    return True


def zero_length_on_barline(tracks):
    """D18b: some track holds a note whose on and off share a tick that is a bar start of the piece"""
    ts, _ = grid_of(tracks)
    end = max([rel_timed(t)[1] for t in tracks] + [0])
    starts, start, cur = set(), 0, (4, 4)
    while start <= end:
        for (t, v) in ts:
            if t <= start:
                cur = v
        starts.add(start)
        step = 96 * cur[0] // cur[1]
        if step <= 0:
            break
        start += step
    for t in tracks:
        timed, _ = rel_timed(t)
        # tick 0 is a bar start but no cut point: a zero-length note there is not torn apart (audit round 2)
        if any(on == off and on > 0 and on in starts for (_, _, on, off, _) in notes_of(timed)):
            return True
    return False


def o_split_bars(inp):
    from scoda.sequences.sequence import Sequence
    tracks = [[tuple(m) for m in t] for t in inp["tracks"]]
    requant = inp["requant"]
    if not tracks:
        return [("~skip:no-sequences", "")]
    states = inp.get("states") or ["rel"] * len(tracks)
    seqs = [P.seq_in_state(t, st) for t, st in zip(tracks, states)]
    # what each input holds BEFORE the call, read through a copy (a state built through the absolute view has the canonical order of
    # simultaneous events, which need not be the order of `t`)
    held_before = [rel_timed(P.content_of(s)) for s in seqs]
    try:
        tb = Sequence.sequences_split_bars(seqs, meta_track_index=0, quantise_note_lengths=requant)
    except Exception as e:
        # hypothesis of the property: signature changes fall on bar boundaries of the grid they induce (a shrunk input may have left it)
        if not signatures_on_grid(tracks):
            return [("~skip:not-boundary-aligned", "")]
        return [("raises", f"{type(e).__name__}: {e}")]
    fails = []
    for t, s, st, hb in zip(tracks, seqs, states, held_before):
        if (st == "rel" and [from_real(m) for m in s.rel._messages] != t) or rel_timed(P.content_of(s)) != hb:
            fails.append(("inputs", "an input sequence changed"))
    counts = {len(b) for b in tb}
    if len(counts) != 1:
        fails.append(("equal-counts", f"bar counts {[len(b) for b in tb]}"))
        return fails
    ts, ks = grid_of(tracks)
    durs = [rel_timed(t)[1] for t in tracks]
    maxdur = max(durs + [0])
    # walk the bar grid
    start = 0
    cur_sig, cur_key = (4, 4), None
    nb = len(tb[0])
    bar_starts = []
    for k in range(nb):
        bar_starts.append(start)
        for (t, v) in ts:
            if t <= start:
                cur_sig = v
        for (t, v) in ks:
            if t <= start:
                cur_key = v
        # hypothesis: changes are boundary aligned
        if any(start < t < start + 96 * cur_sig[0] // cur_sig[1] for t, _ in ts):
            return [("~skip:not-boundary-aligned", "")]
        length = 96 * cur_sig[0] // cur_sig[1]
        for ti, bars in enumerate(tb):
            b = bars[k]
            rel = [from_real(m) for m in b.sequence.rel._messages]
            _, d = rel_timed(rel)
            if d != length:
                fails.append(("bar-length", f"track {ti} bar {k} lasts {d}, signature {cur_sig} gives {length}"))
            if (b.time_signature_numerator, b.time_signature_denominator) != cur_sig:
                fails.append(("bar-sig", f"track {ti} bar {k} carries {(b.time_signature_numerator, b.time_signature_denominator)}, in force {cur_sig}"))
            bk = None if b.key_signature is None else KEY_IDX[b.key_signature]
            if bk != cur_key:
                fails.append(("bar-key", f"track {ti} bar {k} carries key {bk}, in force {cur_key}"))
        start += length
    end = start
    if maxdur > 0:
        last_len = 96 * cur_sig[0] // cur_sig[1]
        if not (maxdur <= end and end - last_len < maxdur):
            fails.append(("coverage", f"bars end at {end} (last bar {last_len}), longest track {maxdur}"))
    for ti, (t, bars) in enumerate(zip(tracks, tb)):
        laid = []
        off = 0
        for b in bars:
            rel = [from_real(m) for m in b.sequence.rel._messages]
            tp, d = rel_timed(rel)
            laid.extend((x + off, m) for x, m in tp)
            off += d
        src, _ = rel_timed(t)
        if wf_violations(src):
            continue        # the sounding clauses are about notes: a track with unclosed / orphaned / re-triggered notes has no sounding set to conserve
        a, b_ = sounding(src), sounding(laid)
        if not requant:
            if a != b_:
                fails.append(("sound-exact", f"track {ti}: {a} vs {b_}"))
        else:
            # "only boundary-cut fragments may shrink": a note that no bar line cuts must come back with its onset and its end
            lines = set(bar_starts) | {end}
            got = {(c_, p_, on_, off_) for (c_, p_, on_, off_, _) in notes_of(laid)}
            for (c_, p_, on_, off_, _) in notes_of(src):
                if on_ < off_ and not any(on_ < x < off_ for x in lines) and (c_, p_, on_, off_) not in got:
                    fails.append(("shrink-uncut", f"track {ti}: note {(c_, p_, on_, off_)} is cut by no bar line but does not come back unchanged"))
            # subset: every sounding interval of the bars lies inside an original one
            for key, ivs in b_.items():
                for (s_, e_) in ivs:
                    if not any(s0 <= s_ and e_ <= e0 for (s0, e0) in a.get(key, [])):
                        fails.append(("sound-subset", f"track {ti}: interval {(s_, e_)} of {key} not inside the original {a.get(key)}"))
    return fails


def two_changes_in_one_bar(ts, ks):
    """some bar of the grid (walked with one change per bar, as the implementation does) has two changes of one kind due at its start"""
    for seq in (ks, ts):
        ticks = sorted(t for t, _ in seq)
        if len(ticks) != len(set(ticks)):
            return True
    # changes on different ticks but inside one bar are excluded by the property's hypothesis (bar boundaries) for signatures; for keys the
    # implementation applies a change at the first bar start at or after its tick, one per bar
    start, cur, pending_k = 0, (4, 4), sorted(ks, key=lambda x: x[0])
    tsq = sorted(ts, key=lambda x: x[0])
    for _ in range(200):
        if tsq and tsq[0][0] <= start:
            cur = tsq.pop(0)[1]
        due = [k for k in pending_k if k[0] <= start]
        if len(due) > 1:
            return True
        if due:
            pending_k.remove(due[0])
        step = 96 * cur[0] // cur[1]
        if step <= 0 or not (pending_k or tsq):
            break
        start += step
    return False


D18C_EXAMPLE = {"requant": True, "tracks": [[G.pm(WAIT, 0, 10), G.pm(ON, 0, None, note=60, vel=64), G.pm(OFF, 0, None, note=60),
                                             G.pm(WAIT, 0, 10), G.pm(ON, 0, None, note=60, vel=64), G.pm(WAIT, 0, 10),
                                             G.pm(OFF, 0, None, note=60), G.pm(WAIT, 0, 100)]]}
D23_EXAMPLE = {"requant": False, "tracks": [[G.pm(KEYSIG, 0, None, key=0), G.pm(KEYSIG, 0, None, key=7), G.pm(WAIT, 0, 200)]]}
D18B_EXAMPLE = {"requant": False, "tracks": [[G.pm(WAIT, 0, 96), G.pm(ON, 0, None, note=60, vel=64), G.pm(OFF, 0, None, note=60),
                                               G.pm(WAIT, 0, 10), G.pm(ON, 0, None, note=60, vel=64), G.pm(WAIT, 0, 10),
                                               G.pm(OFF, 0, None, note=60), G.pm(WAIT, 0, 5)]]}


def setup(ctx):
    ctx.oracle("split_bars", o_split_bars)

    def kf_d18b(f):
        return f["clause"] in ("sound-exact", "sound-subset") and zero_length_on_barline([[tuple(m) for m in t] for t in f["input"]["tracks"]])
    ctx.kf_predicates["D18b"] = kf_d18b

    def kf_d18c(f):
        # re-quantisation on and some track holds a zero-length note (anywhere)
        ts = [[tuple(m) for m in t] for t in f["input"]["tracks"]]
        return f["clause"] == "sound-subset" and f["input"]["requant"] and \
            any(on == off for t in ts for (_, _, on, off, _) in notes_of(rel_timed(t)[0]))
    ctx.kf_predicates["D18c"] = kf_d18c

    def kf_d23(f):
        # two key changes (or two time-signature changes) of the meta track are due at one bar start
        if f["clause"] not in ("bar-key", "bar-sig", "bar-length", "coverage"):
            return False
        ts, ks = grid_of([[tuple(m) for m in t] for t in f["input"]["tracks"]])
        return two_changes_in_one_bar(ts, ks)
    ctx.kf_predicates["D23"] = kf_d23

    def kf_d26(f):
        # re-quantisation on: some note that no bar line cuts has a length that is not one of the default note values (data of the finding)
        if f["clause"] != "shrink-uncut" or not f["input"]["requant"]:
            return False
        ts = [[tuple(m) for m in t] for t in f["input"]["tracks"]]
        return any((off - on) not in _allowed for t in ts for (_, _, on, off, _) in notes_of(rel_timed(t)[0]))
    import json as _json
    import os as _os
    with open(_os.path.join(_os.path.dirname(_os.path.dirname(_os.path.dirname(_os.path.abspath(__file__)))), "known_findings.json")) as _f:
        _allowed = set(next(x for x in _json.load(_f)["findings"] if x["id"] == "D26")["default_note_values"])
    ctx.kf_predicates["D26"] = kf_d26


def generate(ctx):
    rng = ctx.rng
    ctx.check("split_bars", D18B_EXAMPLE)      # the recorded instances of the known findings
    ctx.check("split_bars", D18C_EXAMPLE)
    ctx.check("split_bars", D23_EXAMPLE)
    ctx.check("split_bars", {"requant": True, "tracks": [[G.pm(ON, 0, None, note=60, vel=64), G.pm(WAIT, 0, 10), G.pm(OFF, 0, None, note=60), G.pm(WAIT, 0, 86)]]})   # D26
    for i in range(ctx.n(120, 3000)):
        piece = G.gen_piece(rng, key_changes=True, unequal=rng.random() < 0.5, tail_ok=True, values=[6, 12, 24, 36, 48, 96, 5])
        if rng.random() < 0.35:
            # multi-channel tracks: a rest that crosses a bar line may carry another channel than the note held across it
            piece["tracks"] = [piece["tracks"][0]] + [G.spread_channels(rng, t) for t in piece["tracks"][1:]] \
                if rng.random() < 0.5 else [G.spread_channels(rng, t) for t in piece["tracks"]]
            ctx.count("multi-channel-tracks")
        requant = rng.random() < 0.5
        nt = len(piece["sigs"]) > 1 or len(set(rel_timed(t)[1] for t in piece["tracks"])) > 1
        ctx.case((piece["tracks"], requant), nt)
        ctx.count("requant" if requant else "exact")
        ctx.count("bars:%d" % len(piece["bars"]))
        ctx.check("split_bars", {"tracks": piece["tracks"], "requant": requant})
        if i % 2 == 0:
            sts = [rng.choice(P.SEQ_STATES) for _ in piece["tracks"]]
            ctx.count("wrapper-states")
            trs = piece["tracks"]
            if rng.random() < 0.5:
                # one track ends in whole bars of silence (the rest that makes it the longest may live in only one of its views)
                j = rng.randrange(len(trs))
                last = piece["bars"][-1][1]
                gap = max(0, piece["total"] - rel_timed(trs[j])[1])
                trs = [list(t) for t in trs]
                trs[j] = trs[j] + [G.pm(WAIT, 0, gap + last * rng.randint(1, 2))]
                ctx.count("wrapper-states:trailing-silence")
            ctx.check("split_bars", {"tracks": trs, "requant": requant, "states": sts})
        ctx.corr("splitBars", P.op_splitBars(0, requant, piece["tracks"]))
        ctx.sample({"tracks": [t[:6] for t in piece["tracks"]], "requant": requant})
