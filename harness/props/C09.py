"""C09 — bar splitting follows the time signatures and conserves the music."""
import gens as G
import pyimpl as P
from oracle_util import *  # noqa
from protocol import from_real, KEY_IDX

ID = "C09"
LEAN_MODULE = ["SCoda.Props.C09", "SCoda.Props.Purity", "SCoda.Props.C16b"]
LEVEL = "proof"
CLAUSES = [
    ("every track gets the same number of bars (one list per input track, all of one positive length); the loop terminates for positive bar lengths",
     ["SCoda.C09.equal_counts", "SCoda.C09.terminates"]),
    ("bar k lasts exactly the length of the signature it carries, starts with that signature and holds no other; it carries the same signature and key on "
     "every track: the signature and the key in force at its start (boundary-aligned changes, 4/4 and no key before any)",
     ["SCoda.C09.bars_exact", "SCoda.C09.same_column", "SCoda.C09.bar_signature"]),
    ("bars cover the longest track with less than one bar to spare", ["SCoda.C09.coverage"]),
    ("re-quantisation off: a track's bars reproduce its sounding set exactly — proved for tracks without zero-length notes (hypothesis "
     "NoZeroNotes; a zero-length note on a bar line is known finding D18b, replayed on the implementation)", ["SCoda.C09.sound_exact"]),
    ("re-quantisation on: a subset of it (same hypothesis)", ["SCoda.C09.sound_subset"]),
    ("the input sequences are left unchanged: sequences_split_bars works on private copies and no write site acts on an object that existed "
     "before the call (purity typing over regenerated facts); the bars are fresh (C16b); observed on the real objects by the oracle's `inputs` "
     "clause from five wrapper states",
     ["SCoda.Purity.purity_cert_closed", "SCoda.Purity.routes_write_nothing_shared", "SCoda.Purity.purity_routes_seen", "SCoda.C16.derivations_return_fresh"]),
]
RULE = ("multi-track pieces (1-3 tracks, 1-5 bars, 9 signatures with boundary-aligned changes, key changes on bar lines, "
        "tracks of unequal length, empty tracks, notes crossing bar lines) x re-quantisation on/off; "
        "non-trivial = a signature change or a note crossing a bar line or tracks of unequal length")
ASSUMPTIONS = ["model: SCoda.splitBars (Model/Bar.lean), tied by correspondence",
               "hypothesis of the property: signature changes fall on bar boundaries of the grid they induce; bar lengths 96*n/d are positive integers"]


def grid_of(piece_tracks):
    """bar grid induced by track 0's signature / key events: list of (start, len, (n, d), key)"""
    timed, _ = rel_timed(piece_tracks[0])
    ts = sorted([(t, (m[NUM], m[DEN])) for t, m in timed if m[TY] == TIMESIG], key=lambda x: x[0])
    ks = sorted([(t, m[KEY]) for t, m in timed if m[TY] == KEYSIG], key=lambda x: x[0])
    return ts, ks


def zero_length_on_barline(tracks):
    """D18b: some track holds a note whose on and off share a tick that is a bar start of the piece"""
    ts, _ = grid_of(tracks)
    end = max([rel_timed(t)[1] for t in tracks] + [0])
    starts, start, cur = set(), 0, (4, 4)
    while start <= end:
        for (t, v) in ts:
            if t <= start:
                cur = v
        starts.add(start)
        step = 96 * cur[0] // cur[1]
        if step <= 0:
            break
        start += step
    for t in tracks:
        timed, _ = rel_timed(t)
        if any(on == off and on in starts for (_, _, on, off, _) in notes_of(timed)):
            return True
    return False


def o_split_bars(inp):
    from scoda.sequences.sequence import Sequence
    tracks = [[tuple(m) for m in t] for t in inp["tracks"]]
    requant = inp["requant"]
    if not tracks:
        return [("~skip:no-sequences", "")]
    states = inp.get("states") or ["rel"] * len(tracks)
    seqs = [P.seq_in_state(t, st) for t, st in zip(tracks, states)]
    try:
        tb = Sequence.sequences_split_bars(seqs, meta_track_index=0, quantise_note_lengths=requant)
    except Exception as e:
        return [("raises", f"{type(e).__name__}: {e}")]
    fails = []
    for t, s, st in zip(tracks, seqs, states):
        if (st == "rel" and [from_real(m) for m in s.rel._messages] != t) or rel_timed(P.content_of(s)) != rel_timed(t):
            fails.append(("inputs", "an input sequence changed"))
    counts = {len(b) for b in tb}
    if len(counts) != 1:
        fails.append(("equal-counts", f"bar counts {[len(b) for b in tb]}"))
        return fails
    ts, ks = grid_of(tracks)
    durs = [rel_timed(t)[1] for t in tracks]
    maxdur = max(durs + [0])
    # walk the bar grid
    start = 0
    cur_sig, cur_key = (4, 4), None
    nb = len(tb[0])
    for k in range(nb):
        for (t, v) in ts:
            if t <= start:
                cur_sig = v
        for (t, v) in ks:
            if t <= start:
                cur_key = v
        # hypothesis: changes are boundary aligned
        if any(start < t < start + 96 * cur_sig[0] // cur_sig[1] for t, _ in ts):
            return [("~skip:not-boundary-aligned", "")]
        length = 96 * cur_sig[0] // cur_sig[1]
        for ti, bars in enumerate(tb):
            b = bars[k]
            rel = [from_real(m) for m in b.sequence.rel._messages]
            _, d = rel_timed(rel)
            if d != length:
                fails.append(("bar-length", f"track {ti} bar {k} lasts {d}, signature {cur_sig} gives {length}"))
            if (b.time_signature_numerator, b.time_signature_denominator) != cur_sig:
                fails.append(("bar-sig", f"track {ti} bar {k} carries {(b.time_signature_numerator, b.time_signature_denominator)}, in force {cur_sig}"))
            bk = None if b.key_signature is None else KEY_IDX[b.key_signature]
            if bk != cur_key:
                fails.append(("bar-key", f"track {ti} bar {k} carries key {bk}, in force {cur_key}"))
        start += length
    end = start
    if maxdur > 0:
        last_len = 96 * cur_sig[0] // cur_sig[1]
        if not (maxdur <= end and end - last_len < maxdur):
            fails.append(("coverage", f"bars end at {end} (last bar {last_len}), longest track {maxdur}"))
    for ti, (t, bars) in enumerate(zip(tracks, tb)):
        laid = []
        off = 0
        for b in bars:
            rel = [from_real(m) for m in b.sequence.rel._messages]
            tp, d = rel_timed(rel)
            laid.extend((x + off, m) for x, m in tp)
            off += d
        src, _ = rel_timed(t)
        a, b_ = sounding(src), sounding(laid)
        if not requant:
            if a != b_:
                fails.append(("sound-exact", f"track {ti}: {a} vs {b_}"))
        else:
            # subset: every sounding interval of the bars lies inside an original one
            for key, ivs in b_.items():
                for (s_, e_) in ivs:
                    if not any(s0 <= s_ and e_ <= e0 for (s0, e0) in a.get(key, [])):
                        fails.append(("sound-subset", f"track {ti}: interval {(s_, e_)} of {key} not inside the original {a.get(key)}"))
    return fails


D18B_EXAMPLE = {"requant": False, "tracks": [[G.pm(WAIT, 0, 96), G.pm(ON, 0, None, note=60, vel=64), G.pm(OFF, 0, None, note=60),
                                               G.pm(WAIT, 0, 10), G.pm(ON, 0, None, note=60, vel=64), G.pm(WAIT, 0, 10),
                                               G.pm(OFF, 0, None, note=60), G.pm(WAIT, 0, 5)]]}


def setup(ctx):
    ctx.oracle("split_bars", o_split_bars)

    def kf_d18b(f):
        return f["clause"] in ("sound-exact", "sound-subset") and zero_length_on_barline([[tuple(m) for m in t] for t in f["input"]["tracks"]])
    ctx.kf_predicates["D18b"] = kf_d18b


def generate(ctx):
    rng = ctx.rng
    ctx.check("split_bars", D18B_EXAMPLE)      # the recorded instance of the known finding
    for i in range(ctx.n(120, 3000)):
        piece = G.gen_piece(rng, key_changes=True, unequal=rng.random() < 0.5, tail_ok=True, values=[6, 12, 24, 36, 48, 96, 5])
        if rng.random() < 0.35:
            # multi-channel tracks: a rest that crosses a bar line may carry another channel than the note held across it
            piece["tracks"] = [piece["tracks"][0]] + [G.spread_channels(rng, t) for t in piece["tracks"][1:]] \
                if rng.random() < 0.5 else [G.spread_channels(rng, t) for t in piece["tracks"]]
            ctx.count("multi-channel-tracks")
        requant = rng.random() < 0.5
        nt = len(piece["sigs"]) > 1 or len(set(rel_timed(t)[1] for t in piece["tracks"])) > 1
        ctx.case((piece["tracks"], requant), nt)
        ctx.count("requant" if requant else "exact")
        ctx.count("bars:%d" % len(piece["bars"]))
        ctx.check("split_bars", {"tracks": piece["tracks"], "requant": requant})
        if i % 4 == 0:
            sts = [rng.choice(P.SEQ_STATES) for _ in piece["tracks"]]
            ctx.count("wrapper-states")
            ctx.check("split_bars", {"tracks": piece["tracks"], "requant": requant, "states": sts})
        ctx.corr("splitBars", P.op_splitBars(0, requant, piece["tracks"]))
        ctx.sample({"tracks": [t[:6] for t in piece["tracks"]], "requant": requant})
