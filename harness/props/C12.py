"""C12 — saving to MIDI and loading back returns the same music."""
import ast
import os
import re
import gens as G
import h3midi_util as H
import pyimpl as P
from oracle_util import *  # noqa
from protocol import from_real, pm

ID = "C12"
LEAN_MODULE = ["SCoda.Props.C13", "SCoda.Props.C12", "SCoda.Props.C12b", "SCoda.Props.C13b", "SCoda.Props.ViewTie", "SCoda.Props.StaticTie", "SCoda.Props.C12n", "SCoda.Props.C12c"]
CLAUSES = [
    ("one sequence per saved sequence, in the same order", ["SCoda.C13.one_per_group"]),
    ("save: summing the delta times of the written track puts every emitted event back on its original tick, in order, with pitch and velocity kept "
     "(the delta buffer is carried across waits and non-emitting messages); at equal resolution loading moves nothing",
     ["SCoda.C13.toMido_ticks_partial", "SCoda.C13.toMido_ticks_nonneg", "SCoda.C13.round_int", "SCoda.C13.convTrack_ticks", "SCoda.C13.notes_to_group"]),
    ("the meta sequence has a time signature at tick 0: the saved one, or 4/4 when the file says nothing there", ["SCoda.C13.default_signature", "SCoda.C13.signatures_to_meta_fields"]),
    ("end-to-end notes: save ∘ codec ∘ load returns one sequence per saved sequence and sequence i sounds exactly what saved sequence i sounded "
     "(pitch, onset, duration as the sounding set at every tick; everything comes back on channel 0)",
     ["SCoda.C13.save_load_sounding", "SCoda.C13.load_sounding"]),
    ("end-to-end velocities and signatures in force: the note-on events (pitch, tick, velocity) of loaded sequence i are those of saved sequence i; "
     "the time / key signature in force at every tick on the meta sequence is the one in force among everything saved, 4/4 from tick 0 when nothing "
     "is saved there — for signature messages that carry their own fields only and no two saved signatures of a kind on one tick "
     "(without the field hypothesis the statement is false of the model: `save_load_signatures_statement_false`, a time signature carrying a key)",
     ["SCoda.C13.save_load_note_ons", "SCoda.C13.save_load_signatures_partial", "SCoda.C13.save_load_signatures_statement_false"]),
    ("TIE BY TRANSLATION (save side): RelativeSequence.to_midi_track and MidiTrack.to_mido_track (the delta buffer across waits and non-emitting messages) as "
     "re-translated from the source on every run equal the model toMido, up to the fields a mido message does not carry",
     ["SCoda.ViewTie.toMidoTrack_eq", "SCoda.ViewTie.toMidi_toMido_eq", "SCoda.ViewTie.toMidiTrack_eq", "SCoda.ViewTie.parseInternalMessage_eq"]),
    ("TIE BY TRANSLATION (both halves): Sequence.sequences_save / to_midi_track and Sequence.sequences_load / MidiFile.convert as re-translated from the source equal the "
     "models (mido's file codec is the one remaining assumption)",
     ["SCoda.StaticTie.sequencesSave_eq", "SCoda.StaticTie.toMidiTrack_eq", "SCoda.StaticTie.sequencesLoad_path_eq", "SCoda.StaticTie.convert_eq"]),
    ("NOTES, not only sounding sets (audit A8): the notes (pitch, onset, duration, velocity) of loaded sequence i are a permutation of the notes of saved sequence i with "
     "the channel set to 0, for single-channel sequences with notes of positive length; dropping those two hypotheses is refuted (cross-channel same pitch: known finding "
     "D21; a zero-length note swallows the next note of its pitch: D17's mechanism, booked for C12 as D17b); the round trip always succeeds for a non-empty list and raises "
     "ValueError for an empty one; signatures in force without any tick-distinctness hypothesis (two sequences that both start with 4/4 at tick 0 are covered)",
     ["SCoda.C13b.save_load_notes", "SCoda.C13b.save_load_notes_statement_false", "SCoda.C13b.save_load_succeeds", "SCoda.C13b.save_load_empty",
      "SCoda.C13b.save_load_time_signature_in_force", "SCoda.C13b.save_load_key_signature_in_force", "SCoda.C13b.key_table_round_trip", "SCoda.C13b.saved_key_parses"]),
    ("NOTES and sounding set for MULTI-CHANNEL sequences (audit round 2 F5/A8): for sequences in which no two notes of equal pitch on different channels overlap or touch (the complement of D21's recorded class), and more generally for every sequence that stays well-formed with positive-length notes once the channels are forgotten (experimentally the exact class: touching is fine when the note-off is listed first), loaded sequence i holds exactly the notes of saved sequence i relabelled to channel 0, sounds pitch p at t iff saved sequence i did on some channel, has the same note-ons (pitch, tick, velocity), and the signatures in force are those saved",
     ["SCoda.C12n.save_load_notes'", "SCoda.C12n.save_load_sounding'", "SCoda.C12n.save_load_notesX", "SCoda.C12n.save_load_soundingX", "SCoda.C12n.save_load_note_onsX", "SCoda.C12n.save_load_time_signature_in_forceX", "SCoda.C12n.save_load_key_signature_in_forceX", "SCoda.C12n.saved_saved'", "SCoda.C12n.saved'_savedX", "SCoda.C12n.touch_on_first_fuses"]),
    ('SAVE SIDE COMPOSED WITH LOAD SIDE (audit round 3 M5): the translated sequences_save, then MidiFile.save up to the write (translated to_mido_track, its literals read as mido objects: Model/MidoCodec.lean), then ASSUMED about mido only that a written file is read back with the same ticks_per_beat and, per track, the same messages as far as parse_mido_message reads them followed by one end_of_track (ReadBack; replayed on 300 random in-domain files), then the translated sequences_load (open, parse_mido, parse_mido_track, parse_mido_message, convert) equals C13.saveLoad — for relative views whose key signatures carry one of the 15 keys and that hold no note-on of velocity 0; the sounding and notes theorems are restated about that pipeline. Both conditions are needed and replayed through real files: a KEY_SIGNATURE message whose key is None makes sequences_save raise AttributeError; a note-on of velocity 0 is written as note_on velocity=0 and loaded as a note-off, so the note is lost (the property says velocities 1..127)',
     ["SCoda.C12c.parse_encode_saved", "SCoda.C12c.save_then_load", "SCoda.C12c.save_load_sounding_gen", "SCoda.C12c.save_load_notes_gen", "SCoda.C12c.save_raises_on_key_None", "SCoda.C12c.save_succeeds_statement_false", "SCoda.C12c.save_load_vel0_statement_false"]),
]
RULE = ("lists of 1-3 integer-tick well-formed sequences (<=6 notes, one or three channels, velocities 1..127, all 15 keys, signatures at "
        "arbitrary ticks — also several of a kind on one tick: every track starting with the same / its own time signature at tick 0 —, "
        "control and program changes (value 0 included) between waits and notes, zero-length notes (often next to a note of their pitch), leading rests, "
        "time signatures at the limits of the MIDI encoding (255/4, 4/128) and beyond it (6/6, 5/6, 3/3, 300/4: saving must refuse)); real file round trip "
        "through mido in a temp dir by sequences_save/sequences_load, Sequence.save, Composition.save and Composition.from_midi_file; "
        "non-trivial = at least two sequences or a signature event")
ASSUMPTIONS = ["mido's writer/reader is assumed to carry (type, delta, fields) unchanged",
               "DOMAIN (audit round 4, A4b): a time signature with a denominator that is no power of two or a numerator outside 0..255 has no encoding in a MIDI "
               "file (FF 58: numerator byte, denominator EXPONENT byte); for sequences holding one the round trip is not defined and the oracle judges instead "
               "that saving refuses with ValueError before the target file is touched (w_c12_sig_6_6.json replays to `no violation`)",
               "models: SCoda.toMido, SCoda.convert (Model/Midi.lean), tied by correspondence on the same inputs"]
SCRATCH = None


def cross_channel_overlap(rels):
    """D21: some saved sequence holds two notes of equal pitch on different channels whose intervals overlap or touch
    (at a shared tick the saved order is by channel first, so the later note's on can precede the earlier note's off)"""
    for r in rels:
        tr, _ = rel_timed(r)
        ns = notes_of(tr)
        for i, (c1, p1, on1, off1, _) in enumerate(ns):
            for (c2, p2, on2, off2, _) in ns[i + 1:]:
                if p1 == p2 and c1 != c2 and on1 <= off2 and on2 <= off1:
                    return True
    return False


def breaks_without_channels(rels):
    """the exact class of D21 (found by experiment and proved sufficient in Props/C12n.lean, `SavedX`): with every channel set to 0, in the
    order the sequence lists its messages, some saved sequence is no longer well-formed or gets a zero-length note.  Equal-pitch notes on
    different channels that merely touch are fine when the note-off is listed before the note-on of that tick."""
    for r in rels:
        tr, _ = rel_timed(r)
        mono = [(t, (m[0], 0) + tuple(m[2:])) for t, m in tr]
        if wf_violations(mono) or any(on >= off for (_, _, on, off, _) in notes_of(mono)):
            return True
    return False


D21_EXAMPLE = {"rels": [[pm(ON, 0, None, note=60, vel=64), pm(WAIT, 1, 12), pm(ON, 1, None, note=60, vel=80), pm(WAIT, 0, 12),
                         pm(OFF, 0, None, note=60), pm(WAIT, 1, 12), pm(OFF, 1, None, note=60)]]}


def o_save_load(inp):
    from scoda.sequences.sequence import Sequence
    import tempfile
    rels = [[tuple(m) for m in r] for r in inp["rels"]]
    for r in rels:
        tr, _ = rel_timed(r)
        if wf_violations(tr) or any(on > off for (_, _, on, off, _) in notes_of(tr)) \
                or any(m[TY] == ON and not (1 <= (m[VEL] or 0) <= 127) for m in r):
            return [("~skip:outside-domain", "")]
    unrep = [(m[NUM], m[DEN]) for r in rels for m in r if m[TY] == TIMESIG and not H.midi_representable_sig(m[NUM], m[DEN])]
    if unrep:
        # DOMAIN NOTE (audit round 4, A4b; not a finding): a time signature whose denominator is no power of two (6/6, 5/6, 3/3) or whose numerator
        # does not fit one byte (300/4) has no encoding in a MIDI file — "loading back returns the same music" cannot hold for it whatever the
        # library does, and there is nothing to approximate it by.  What the library can do is REFUSE, and that is what is judged: saving raises
        # ValueError (mido's, naming the field) before anything is written — a file already at that path keeps its content.  Writing a file
        # after all, another exception, or touching the target are reported.  (The library accepts such signatures everywhere else — Bar, the
        # bar splitter, the tokeniser for n/6 = 8n/6 eighths —, so they are legal content; they just cannot be saved.)
        route = inp.get("route") or "sequences_save"
        if inp.get("resave") is not None or route not in ("sequences_save", "Sequence.save") or (route == "Sequence.save" and len(rels) != 1):
            return [("~skip:outside-domain", "")]
        fd, path = tempfile.mkstemp(suffix=".mid", dir=SCRATCH)
        os.write(fd, b"what was here before")
        os.close(fd)
        try:
            seqs = [P.seq_of_rel(r) for r in rels]
            try:
                seqs[0].save(path) if route == "Sequence.save" else Sequence.sequences_save(seqs, path)
                return [("unrepresentable-signature", f"time signature {unrep[0][0]}/{unrep[0][1]} has no MIDI encoding, yet saving succeeded (route {route})")]
            except ValueError as e:
                with open(path, "rb") as fh:
                    if fh.read() != b"what was here before":
                        return [("unrepresentable-signature", f"saving refused the time signature {unrep[0][0]}/{unrep[0][1]} ({e}) but had already written to the target (route {route})")]
                return [("~domain:time-signature-without-MIDI-encoding(save refuses, target untouched)", "")]
            except Exception as e:
                return [("unrepresentable-signature", f"time signature {unrep[0][0]}/{unrep[0][1]}: saving raised {type(e).__name__}: {e}, not ValueError (route {route})")]
        finally:
            if os.path.exists(path):
                os.unlink(path)
    seqs = [P.seq_of_rel(r) for r in rels]
    if inp.get("resave") is not None:
        # the same Sequence objects were saved once before and then changed through public operations: the earlier save and the
        # operations are part of the replayable input; what is judged is the second save of what the sequences hold now
        fd0, path0 = tempfile.mkstemp(suffix=".mid", dir=SCRATCH)
        os.close(fd0)
        try:
            Sequence.sequences_save(seqs, path0)
        except Exception:
            pass
        finally:
            if os.path.exists(path0):
                os.unlink(path0)
        new = []
        for s_, ops in zip(seqs, inp["resave"]):
            s2, content = P.seq_after_prelude_obj(s_, ops)
            new.append((s2, content))
        seqs = [x for x, _ in new]
        rels = [c for _, c in new]
        for r in rels:
            tr, _ = rel_timed(r)
            if wf_violations(tr) or any(on >= off for (_, _, on, off, _) in notes_of(tr)) or cross_channel_overlap([r]):
                return [("~skip:outside-domain", "")]
    route = inp.get("route") or "sequences_save"
    if route == "Sequence.save" and len(seqs) != 1:
        return [("~skip:route-needs-one-sequence", "")]
    if route in ("Composition.save", "Composition.from_midi_file") and not composition_safe(rels):
        return [("~skip:route-outside-its-class", "")]
    fd, path = tempfile.mkstemp(suffix=".mid", dir=SCRATCH)
    os.close(fd)
    try:
        try:
            # the same round trip through the other public entry points (audit 3, table C12)
            if route == "Sequence.save":
                seqs[0].save(path)
                loaded = Sequence.sequences_load(file_path=path)
            elif route == "Composition.save":
                from scoda.elements.composition import Composition
                Composition.from_sequences(seqs, 0).save(path)
                loaded = Sequence.sequences_load(file_path=path)
            elif route == "Composition.from_midi_file":
                from scoda.elements.composition import Composition
                Sequence.sequences_save(seqs, path)
                loaded = Composition.from_midi_file(path, [[j] for j in range(len(seqs))], list(range(len(seqs))), 0).to_sequences()
            else:
                Sequence.sequences_save(seqs, path)
                loaded = Sequence.sequences_load(file_path=path)
        except Exception as e:
            return [("raises", f"{type(e).__name__}: {e} (route {route})")]
    finally:
        if os.path.exists(path):
            os.unlink(path)
    fails = []
    if len(loaded) != len(rels):
        return [("count", f"{len(loaded)} sequences loaded for {len(rels)} saved")]
    allsig = []
    for i, (r, l) in enumerate(zip(rels, loaded)):
        tin, _ = rel_timed(r)
        la = [from_real(m) for m in l.abs._messages]
        if not all_int_times(la):
            fails.append(("int", "non-integer tick after loading"))
        tout, _ = abs_timed(la)
        a = sorted((p, on, off - on, v) for (c, p, on, off, v) in notes_of(tin))
        b = sorted((p, on, off - on, v) for (c, p, on, off, v) in notes_of(tout))
        if a != b:
            fails.append(("notes", f"sequence {i}: saved {a}, loaded {b}"))
        allsig.extend((t, m) for t, m in tin if m[TY] in (TIMESIG, KEYSIG))
    allsig.sort(key=lambda x: x[0])
    meta = [from_real(m) for m in loaded[0].abs._messages]
    tm, _ = abs_timed(meta)
    for ty, name in ((TIMESIG, "time"), (KEYSIG, "key")):
        ticks = [t for t, m in allsig if m[TY] == ty]
        if len(ticks) != len(set(ticks)):
            # several saved signatures of this kind on one tick — the normal case "every saved track starts with 4/4 at tick 0"
            # (audit 3, O10).  The text: "the signature in force at every tick is the one that was saved": the value in force from such
            # a tick on must be one of those saved there (THE one when they agree), and nothing may change on a tick without an event.
            given = [(t, (m[NUM], m[DEN]) if ty == TIMESIG else m[KEY]) for t, m in allsig if m[TY] == ty]
            if ty == TIMESIG and 0 not in ticks:
                given.append((0, (4, 4)))
            bad = H.in_force_violation(given, sig_in_force(tm, ty, None))
            if bad:
                fails.append((name + "-sig", f"signature in force (several saved on one tick): {bad}; loaded {sig_in_force(tm, ty, None)}"))
            continue
        # what must be in force: the saved signatures, with 4/4 from tick 0 when nothing is saved there.
        # The loaded meta sequence is read with *no* default: it has to say 4/4 itself.
        implicit = [(0, pm(TIMESIG, 0, 0, num=4, den=4))] if ty == TIMESIG else []
        expected = sig_in_force(implicit + allsig, ty, None)
        got = sig_in_force(tm, ty, None)
        if expected != got:
            fails.append((name + "-sig", f"signature in force: expected {expected}, loaded {got}"))
    return fails


def zero_length_saved(rels):
    for r in rels:
        tr, _ = rel_timed(r)
        if any(on == off for (_, _, on, off, _) in notes_of(tr)):
            return True
    return False


def composition_safe(rels):
    """the class on which building bars is the identity on notes (so that the Composition routes are the same round trip): one channel,
    only a 4/4 at tick 0 (on the first sequence) as signature, every note starts on a multiple of 12, lasts 12, 24 or 36 ticks (values of
    the library's default note-value list — building bars re-quantises every other length, documented behaviour recorded as D26 under
    C09; a half note, 48, is not in that list) and ends inside its 4/4 bar; no other events"""
    for i, r in enumerate(rels):
        tr, _ = rel_timed(r)
        for t, m in tr:
            if m[TY] == TIMESIG and not (i == 0 and t == 0 and (m[NUM], m[DEN]) == (4, 4)):
                return False
            if m[TY] not in (ON, OFF, TIMESIG) or (m[TY] in (ON, OFF) and m[CH] != 0):
                return False
        for (_, _, on, off, _) in notes_of(tr):
            if on % 12 or (off - on) not in (12, 24, 36) or on // 96 != (off - 1) // 96:
                return False
    tr0, _ = rel_timed(rels[0]) if rels else ([], 0)
    return any(m[TY] == TIMESIG for _, m in tr0)


def fused_without_channels(rel):
    """what D21 describes, computed from the saved list alone: the notes (pitch, onset, duration, velocity) one gets when every channel is
    forgotten and the events are read in the order the sequence lists them — a note-on of a sounding pitch is swallowed, the note lasts
    until as many note-offs have come as note-ons (nesting), its velocity is the first note-on's"""
    tr, _ = rel_timed(rel)
    depth, start, out = {}, {}, []
    for t, m in tr:
        if m[TY] == ON:
            d = depth.get(m[NOTE], 0)
            if d == 0:
                start[m[NOTE]] = (t, m[VEL])
            depth[m[NOTE]] = d + 1
        elif m[TY] == OFF:
            d = depth.get(m[NOTE], 0)
            if d == 1:
                on, v = start.pop(m[NOTE])
                out.append((m[NOTE], on, t - on, v))
            if d > 0:
                depth[m[NOTE]] = d - 1
    return sorted(out)


NOTES_DETAIL = re.compile(r"^sequence (\d+): saved (\[.*\]), loaded (\[.*\])$")


def failing_sequence(f):
    """(index, saved notes, loaded notes) parsed from the detail of a 'notes' failure"""
    m = NOTES_DETAIL.match(f["detail"])
    if not m:
        return None
    try:
        return int(m.group(1)), [tuple(x) for x in ast.literal_eval(m.group(2))], [tuple(x) for x in ast.literal_eval(m.group(3))]
    except Exception:
        return None


D17B_EXAMPLE = {"rels": [[pm(ON, 0, None, note=60, vel=64), pm(OFF, 0, None, note=60), pm(WAIT, 0, 10), pm(ON, 0, None, note=60, vel=64),
                          pm(WAIT, 0, 10), pm(OFF, 0, None, note=60), pm(WAIT, 0, 4)]]}
# a complete note BEFORE the zero-length note of its pitch: the orphaned note-off must not touch it (audit round 4, b14); the note comes back
D17B_AFTER_EXAMPLE = {"rels": [[pm(ON, 0, None, note=60, vel=64), pm(WAIT, 0, 10), pm(OFF, 0, None, note=60), pm(WAIT, 0, 5), pm(ON, 0, None, note=60, vel=90),
                                pm(OFF, 0, None, note=60), pm(WAIT, 0, 4)]]}
# D21, touching notes: it is the order in which the sequence LISTS the two events of the shared tick that decides, not the channels
D21_TOUCH_EXAMPLE = {"rels": [[pm(ON, 1, None, note=60, vel=50), pm(WAIT, 0, 10), pm(ON, 0, None, note=60, vel=70), pm(OFF, 1, None, note=60),
                               pm(WAIT, 0, 10), pm(OFF, 0, None, note=60)]]}
D21_TOUCH_FINE = {"rels": [[pm(ON, 1, None, note=60, vel=50), pm(WAIT, 0, 10), pm(OFF, 1, None, note=60), pm(ON, 0, None, note=60, vel=70),
                            pm(WAIT, 0, 10), pm(OFF, 0, None, note=60)]]}


def setup(ctx):
    global SCRATCH
    SCRATCH = ctx.scratch
    ctx.oracle("save_load", o_save_load)

    def explain(f):
        """pitch -> finding that explains why the notes of that pitch came back different in the FAILING sequence (None: nothing does).
        D17b (audit round 4, B5: the OUTCOME, not the mere presence of such a note): the sequence holds a zero-length note of that pitch (the
        channel is not in the file, so the pitch is the key) AND the notes loaded for the pitch are exactly what the mechanism gives
        (h3midi_util.merged_notes_model on the sequence's events of that pitch in LISTED order, channels forgotten: per-track normalise, canonical
        order — the note-off of the zero-length note now before its note-on —, normalise: the orphan note-off is dropped, or closes a note of
        the pitch that is sounding there; the note-on left open swallows every later note of the pitch and is removed at the end).
        D21: the pitch has two notes on different channels that overlap or touch, and what was loaded for that pitch is exactly the
        fusion the finding describes (`fused_without_channels` of the saved list), no zero-length note involved."""
        if f["clause"] != "notes" or f["input"].get("resave") is not None or str(f["input"].get("route")).startswith("Composition"):
            return None             # (re-saved inputs and the Composition routes never hold such notes — outside the oracle's domain there)
        got = failing_sequence(f)
        rels = [[tuple(m) for m in r] for r in f["input"]["rels"]]
        if got is None or not (0 <= got[0] < len(rels)):
            return None
        i, saved, loaded = got
        r = rels[i]
        tr, _ = rel_timed(r)
        ns = notes_of(tr)
        zero = {p for (_, p, on, off, _) in ns if on == off}
        fused = fused_without_channels(r)
        out = {}
        for p in {x[0] for x in saved} | {x[0] for x in loaded}:
            lp = sorted(x for x in loaded if x[0] == p)
            if sorted(x for x in saved if x[0] == p) == lp:
                continue
            only_p = [m for m in r if m[TY] == WAIT or (m[TY] in (ON, OFF) and m[NOTE] == p)]
            if p in zero:
                evs = [(t, m[TY], 0, p, m[VEL]) for t, m in tr if m[TY] in (ON, OFF) and m[NOTE] == p]
                model = sorted((p_, on, off - on, v) for (_, p_, on, off, v) in H.notes_of_events(H.merged_notes_model([evs], normalise_each=True)))
                out[p] = "D17b" if lp == model else None
            elif cross_channel_overlap([only_p]) and breaks_without_channels([only_p]) and lp == [x for x in fused if x[0] == p]:
                out[p] = "D21"
            else:
                out[p] = None
        return out

    def kf_d21(f):
        e = explain(f)
        return bool(e) and all(v is not None for v in e.values()) and "D21" in e.values()
    ctx.kf_predicates["D21"] = kf_d21

    def kf_d17b(f):
        e = explain(f)
        return bool(e) and all(v is not None for v in e.values()) and "D17b" in e.values()
    ctx.kf_predicates["D17b"] = kf_d17b


def generate(ctx):
    rng = ctx.rng
    ctx.check("save_load", D21_EXAMPLE)         # the recorded instance of the known finding
    ctx.check("save_load", D17B_EXAMPLE)        # zero-length note followed by a real note of the same pitch
    ctx.check("save_load", D17B_AFTER_EXAMPLE)  # a real note followed by a zero-length note of the same pitch: only the zero-length note is lost
    ctx.check("save_load", D21_TOUCH_EXAMPLE)   # D21, touching notes, note-on listed before the note-off of the shared tick: fused
    ctx.check("save_load", D21_TOUCH_FINE)      # the same notes with the note-off listed first: come back intact (must NOT fail)
    for sig in ((6, 6), (5, 6), (3, 3), (300, 4), (255, 4), (4, 128)):      # audit round 4, A4b: the first four cannot be saved (domain note), the last two can
        ctx.count("signature:%s" % ("without-MIDI-encoding" if not H.midi_representable_sig(*sig) else "at-the-limits-of-the-encoding"))
        for route in (None, "Sequence.save"):
            ctx.check("save_load", {"rels": [[pm(TIMESIG, 0, None, num=sig[0], den=sig[1]), pm(ON, 0, None, note=60, vel=64), pm(WAIT, 0, 24), pm(OFF, 0, None, note=60)]],
                                    **({"route": route} if route else {})})
    for i in range(ctx.n(120, 2500)):
        k = rng.choice([1, 2, 3])
        rels = []
        used = set()
        # the NORMAL case of real files (audit 3, O10): every saved track starts with a time signature at tick 0 — the same one, or
        # different ones; sometimes a key signature as well
        start_sigs = None
        if rng.random() < 0.35:
            if rng.random() < 0.6:
                one = rng.choice([(4, 4), (4, 4), (3, 4), (6, 8)])
                start_sigs = [one] * k
                ctx.count("every-track-starts-with-the-same-signature-at-0")
            else:
                start_sigs = [G.any_sig(rng) for _ in range(k)]
                ctx.count("every-track-starts-with-its-own-signature-at-0")
            start_keys = [rng.randrange(15) if rng.random() < 0.5 else None for _ in range(k)] if rng.random() < 0.5 else [None] * k
        for j in range(k):
            notes = G.gen_notes(rng, n_notes=rng.randint(0, 6), channels=(0,) if rng.random() < 0.75 else (0, 1, 2), max_tick=150, max_dur=50)
            extras = []
            for _ in range(rng.choice([0, 1, 2])):
                t = rng.choice([0, 0, 24, 96, rng.randint(0, 150)])
                if notes and rng.random() < 0.4:
                    # on the very tick where a note of this sequence starts or stops (same-tick order then depends on how it was entered)
                    n0 = rng.choice(notes)
                    t = rng.choice([n0[2], n0[2] + n0[3]])
                    ctx.count("signature-on-a-note-tick")
                kind = rng.choice([TIMESIG, KEYSIG])
                if (kind, t) in used:
                    continue
                used.add((kind, t))
                if kind == TIMESIG:
                    n_, d_ = G.any_sig(rng)
                    if rng.random() < 0.06:
                        # signatures no MIDI file can hold (audit round 4, A4b), and the largest ones it can
                        n_, d_ = rng.choice([(6, 6), (5, 6), (3, 3), (300, 4), (256, 8), (7, 12), (255, 4), (4, 64), (1, 1)])
                        ctx.count("signature:%s" % ("without-MIDI-encoding" if not H.midi_representable_sig(n_, d_) else "at-the-limits-of-the-encoding"))
                    extras.append(pm(TIMESIG, 0, t, num=n_, den=d_))
                else:
                    extras.append(pm(KEYSIG, 0, t, key=rng.randrange(15)))
            if start_sigs is not None:
                extras = [e for e in extras if not (e[0] == TIMESIG and e[2] == 0) and not (e[0] == KEYSIG and e[2] == 0 and start_keys[j] is not None)]
                extras.append(pm(TIMESIG, 0, 0, num=start_sigs[j][0], den=start_sigs[j][1]))
                if start_keys[j] is not None:
                    extras.append(pm(KEYSIG, 0, 0, key=start_keys[j]))
            elif rng.random() < 0.08 and extras:
                # two signatures of a kind on one tick inside ONE sequence
                e0 = rng.choice(extras)
                if e0[0] == TIMESIG:
                    n_, d_ = G.any_sig(rng)
                    extras.append(pm(TIMESIG, 0, e0[2], num=n_, den=d_))
                else:
                    extras.append(pm(KEYSIG, 0, e0[2], key=rng.randrange(15)))
                ctx.count("two-signatures-of-a-kind-on-one-tick-in-one-sequence")
            # events that write no MIDI message (program changes) or a channel message (control changes, the legal value 0 included),
            # anywhere between the waits and the notes (audit 3, O5): whatever happens to them, the notes must keep their onsets
            for _ in range(rng.choice([0, 0, 1, 2, 3])):
                t = rng.randint(0, 160)
                if notes and rng.random() < 0.5:
                    n0 = rng.choice(notes)
                    t = rng.choice([n0[2], n0[2] + n0[3], max(0, n0[2] - 1)])
                ch = rng.choice(sorted({n[0] for n in notes}) or [0])
                if rng.random() < 0.5:
                    extras.append(pm(CC, ch, t, vel=rng.choice([0, 0, 127, rng.randrange(128)]), ctl=rng.choice([0, 1, 7, 64, 127])))
                    ctx.count("control-change")
                else:
                    extras.append(pm(PC, ch, t, prog=rng.choice([0, 5, 127])))
                    ctx.count("program-change")
            if rng.random() < 0.12:
                # a zero-length note (D17b's class), often of a pitch that has other notes
                zp = rng.choice([n[1] for n in notes] + [61]) if notes else 61
                zt = rng.choice([n[2] + n[3] for n in notes] + [n[2] for n in notes] + [rng.randint(0, 150)]) if notes else 0
                if notes and rng.random() < 0.6:
                    # next to a note of ITS pitch: on its end or shortly after it (a complete note precedes the orphaned note-off), on its start
                    # or shortly before it (that note is the next one of the key)
                    n0 = rng.choice(notes)
                    zp = n0[1]
                    zt = rng.choice([n0[2] + n0[3], n0[2] + n0[3] + rng.randint(1, 20), n0[2], max(0, n0[2] - rng.randint(1, 20))])
                    ctx.count("zero-length-note-next-to-a-note-of-its-pitch")
                if not any(x[1] == zp and x[2] < zt < x[2] + x[3] for x in notes):
                    notes = notes + [(rng.choice(sorted({n[0] for n in notes}) or [0]), zp, zt, 0, 64)]
                    ctx.count("zero-length-note-saved(D17b class)")
            a = G.notes_to_abs(notes, extras, cap=None)
            if rng.random() < 0.3:
                a = G.shuffle_ties(rng, a)       # entered in another order (notes first, signatures later): same-tick messages not in canonical order
                ctx.count("abs:ties-shuffled")
            r_ = G.abs_to_rel(a)
            if rng.random() < 0.3:
                r_ = G.unconsolidate(rng, r_)
                ctx.count("rel:unconsolidated")
            rels.append(r_)
        ctx.case(rels, k > 1 or bool(used))
        ctx.count("sequences:%d" % k)
        ctx.check("save_load", {"rels": rels})
        if k == 1 and i % 2 == 0:
            ctx.count("route:Sequence.save")
            ctx.check("save_load", {"rels": rels, "route": "Sequence.save"})
        if i % 4 == 1:
            # the Composition routes, on the class where building bars keeps the notes (see composition_safe)
            crels = []
            for j in range(k):
                cn = []
                for _ in range(rng.randint(0, 5)):
                    dur = rng.choice([12, 24, 36])
                    bar0 = rng.randrange(3) * 96
                    on = bar0 + rng.randrange(0, (96 - dur) // 12 + 1) * 12
                    cand = (0, rng.choice([60, 62, 64, 21, 108]), on, dur, rng.choice([1, 64, 127, rng.randint(1, 127)]))
                    if not any(x[1] == cand[1] and not (on + dur <= x[2] or x[2] + x[3] <= on) for x in cn):
                        cn.append(cand)
                ex = [pm(TIMESIG, 0, 0, num=4, den=4)] if j == 0 else []
                crels.append(G.abs_to_rel(G.notes_to_abs(cn, ex, cap=None)))
            for route in ("Composition.save", "Composition.from_midi_file"):
                ctx.count("route:" + route)
                ctx.check("save_load", {"rels": crels, "route": route})
        if i % 3 == 0:
            # Sequence objects with a past: saved once, then changed through public operations, then saved again
            resave = [[rng.choice([("transpose", rng.choice([1, 2, -1])), ("editRel", 1, rng.randint(1, 127)), ("pad", rng.choice([0, 300])),
                                   ("addRel", pm(KEYSIG, 0, None, key=rng.randrange(15)), 0), ("normalise",), ("editAbs", 1, rng.randint(1, 127)),
                                   ("addAbs", pm(ON, 0, 500, note=70, vel=90)), ("readAbs",)])
                       for _ in range(rng.randint(1, 2))] for _ in rels]
            ctx.count("saved-before-and-changed-since")
            ctx.check("save_load", {"rels": rels, "resave": resave})
        if any(m[TY] == TIMESIG and not H.midi_representable_sig(m[NUM], m[DEN]) for r in rels for m in r):
            # outside the domain of the save-side models (they have no notion of an event mido refuses to build: audit round 4, C4 — reported,
            # the models are not this agent's): no correspondence request for these cases
            ctx.count("correspondence-skipped:signature-without-MIDI-encoding")
            ctx.sample({"rels": [r[:6] for r in rels]})
            continue
        for r in rels:
            ctx.corr("toMido", P.op_toMido(r))
            ctx.corr("encodeMido", P.op_encodeMido(r))
        # the load half, through the real file, against the model's convert
        evs = []
        for r in rels:
            words, py = P.op_toMido(r)
            track = []
            if py.startswith("["):
                body = py[1:-1]
                for item in (body.split(";") if body else []):
                    f = [None if x == "N" else int(x) for x in item.split(",")]
                    if f[0] == 2:
                        from protocol import KEYS
                        f[9] = KEYS[f[9]].value
                    track.append(tuple(f))
            evs.append(track)
        ctx.corr("convert", P.op_convert(24, 0, [[j] for j in range(k)], list(range(k)), evs, ctx.scratch))
        ctx.sample({"rels": [r[:6] for r in rels]})
