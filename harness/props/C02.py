"""C02 — vocabulary is closed under tokenise; encode and decode are inverse bijections."""
import gens as G
import pyimpl as P
from oracle_util import *  # noqa
from tokutil import *  # noqa
import h1tok_util as H

ID = "C02"
LEAN_MODULE = ["SCoda.Props.C02", "SCoda.Props.Glue", "SCoda.Props.C02b", "SCoda.Props.TokTie", "SCoda.Props.TokTie2", "SCoda.Props.Defs"]
LEVEL = "proof"
CLAUSES = [
    ("the vocabulary maps its tokens one-to-one onto the consecutive ids 0..size-1 (for duplicate-free bins: known finding D16)",
     ["SCoda.C02.vocab_nodup", "SCoda.C02.ids_consecutive", "SCoda.C02.vocab_not_nodup_with_duplicate_bins"]),
    ("the reported vocabulary size equals the number of entries", ["SCoda.C02.vocab_size", "SCoda.C02.size_mismatch_with_duplicate_bins"]),
    ("decode(encode(t)) = t and encode(decode(i)) = i for every member",
     ["SCoda.C02.decode_encode", "SCoda.C02.encode_decode", "SCoda.C02.decode_encode_list"]),
    ("every token tokenise emits for an accepted input is a member (from any carried state)",
     ["SCoda.C02.tokenise_closed", "SCoda.C02.encode_total_on_tokenise"]),
    ("every vocabulary token is accepted by detokenise", ["SCoda.C02.detok_accepts", "SCoda.C02.detokenise_accepts"]),
    ("STRING LEVEL (audit A9): the two string-building paths agree and every key parses — for tokens with non-negative fields `parseTok (render t) = t` "
     "(Python's `_split_token` + `int()` on the exact Python text), so `render` is injective, the rendered vocabulary has no duplicate key (the Python dict holds "
     "exactly the model's entries), every rendered tokenise output is a rendered vocabulary key, and every vocabulary string parses to its token and is accepted by "
     "the detokeniser step; the prefix facts (pairwise distinct, free of '-', '_' and digits) are decided over the regenerated prefix table; "
     "negative constructor arguments are outside (the real tokeniser rejects its own vocabulary there: `rst_-5`)",
     ["SCoda.C02b.parse_render", "SCoda.C02b.render_injective", "SCoda.C02b.render_vocab_nodup", "SCoda.C02b.vocab_tokens_parse",
      "SCoda.C02b.vocab_strings_detok_accept", "SCoda.C02b.tokenise_strings_in_vocab", "SCoda.C02b.prefixes_distinct", "SCoda.C02b.prefixes_clean",
      "SCoda.C02b.prefixes_used", "SCoda.C02b.parse_render_statement_false", "SCoda.C02b.vocab_tokens_parse_statement_false"]),
    ("glue: the merge/pairing code in front of the tokeniser core hands it events whose channels are track indices (hypothesis ChannelsOk)",
     ["SCoda.Glue.extract_channels"]),
    ("TIE BY TRANSLATION, tokeniser: MultiTrackLargeVocabularyNotelikeTokeniser is re-translated statement by statement on every run (Gen/TokFns.lean, tools/py2lean_tok.py: __init__, _construct_dictionary, tokenise with its closure _apply_rest as a fuelled loop, detokenise, get_info, encode, decode; f-strings as string concatenation, dicts as association lists, floats as exact rationals) and each translation is proved equal to the hand model the theorems above are about, on rendered token strings: _construct_dictionary never raises and stores exactly the model's vocabulary sequence (rendered) after the four literal ids, dictionary_size = the model's dictionarySize, __init__ fills defaults / sorts and de-duplicates (sorted(set(...)), repair of D31) / builds the vocabulary as the model configuration says; encode / decode = the model's id maps",
     ["SCoda.TokTie.constructDictionary_all", "SCoda.TokTie.constructDictionary_eq", "SCoda.TokTie.constructDictionary_dictionary", "SCoda.TokTie.dictionarySize_eq", "SCoda.TokTie.tokInit_eq'", "SCoda.TokTie.encode_eq", "SCoda.TokTie.decode_eq", "SCoda.TokTie.tokenise_eq", "SCoda.TokTie.detokenise_eq"]),
    ("EVERY TOKENISER __init__ CONSTRUCTS, FOR EVERY ARGUMENT LIST WITH velocity_bins ≠ 0 (repair of finding D31, tie by translation; the link for get_velocity_bins is the TRANSLATED function itself — Gen.Util.getVelocityBins, regenerated from util.py on every run and tied to its hand transcription by UtilTie.getVelocityBins_int — read as ints (TokLib.linkVelocityBinsFn), equal to the former 64-row table on 1..64 (TokLib3L.linkVelocityBinsFn_table); the translated __init__ SUCCEEDS for every velocity_bins ≠ 0, with velocity_bins many bins, none for a negative count (tokInit_eq_any, tokInit_total), and raises ZeroDivisionError for velocity_bins = 0 as the source does (tokInit_zero); closes audit round 4 C2): __init__ stores sorted(set(step_sizes)) / sorted(set(note_values)) "
     "(translated statement by statement: set(l) = the distinct elements, sorted(s) = ascending; the result does not depend on the order of a set); for every "
     "argument list - repeated entries included, unsorted, or None = the defaults - the object the translated __init__ returns has strictly ascending step sizes and "
     "note values with exactly the entries of the list passed, hence duplicate free: the hypotheses steps_nodup / values_nodup of CfgWF (under which the bijection "
     "theorems above are proved) hold for every tokeniser __init__ can build, they are no longer a condition on the caller's arguments; what is left of CfgWF as a "
     "condition is that get_velocity_bins returned distinct bins, a decidable condition on the NUMBER velocity_bins alone (tokInit_cfgWF_any; known finding D16b: 100 bins are distinct, 65 and 128 bins repeat 127 and dictionary_size overcounts — evaluated in the kernel and replayed); a caller who passes duplicate-free lists gets what .sort() stored before",
     ["SCoda.TokTie.tokInit_nodup", "SCoda.TokTie.tokInit_sorted", "SCoda.TokTie.tokInit_cfgWF", "SCoda.TokTie.tokInit_cfg", "SCoda.TokTie.initObj_of_nodup", "SCoda.TokTie2.tokInit_eq_any", "SCoda.TokTie2.tokInit_zero", "SCoda.TokTie2.tokInit_total", "SCoda.TokTie2.tokInit_cfgWF_any", "SCoda.TokLib3L.linkVelocityBinsFn_eq", "SCoda.TokLib3L.linkVelocityBinsFn_zero", "SCoda.TokLib3L.linkVelocityBinsFn_table"]),
    ('render is injective on ALL tokens, signed fields included, so the rendered vocabulary has no duplicate key for every configuration with duplicate-free step sizes, note values and bins (negative arguments included; closes the last open statement of audit A9); _construct_dictionary is described by the construction sequence exactly on objects with _dictionary_size = 0 — a second call keeps ids 0..3 and renumbers the rest from the old size + 4 (replayed: the method is private and only called from __init__); generated decode / encode equal the model for EVERY configuration (duplicate keys: overwritten ids are missing from the inverse dictionary)',
     ["SCoda.Defs.render_injective_all", "SCoda.Defs.render_vocab_nodup_general", "SCoda.Defs.render_vocab_nodup_iff", "SCoda.Defs.constructDictionary_anyObject_iff", "SCoda.Defs.constructDictionary_anyObject_statement_false", "SCoda.Defs.constructDictionary_second_call", "SCoda.Defs.decode_general", "SCoda.Defs.decode_eq_all", "SCoda.Defs.decode_one", "SCoda.Defs.encode_eq_all"]),
]
RULE = ("configurations: 16 flag combinations x velocity_bins x tracks 1..3 x pitch ranges x value sets (quick: 24 sampled, "
        "thorough: the lattice) + configurations off the default step list (quick 16, thorough 120: custom and unsorted step lists, a step above "
        "ppqn, three-digit steps, single-step lists, custom value sets, ppqn 12/48/96/6, and lists with a repeated entry = finding D31, repaired: regression inputs); "
        "closure is judged on pieces drawn on each configuration's own grid plus one piece per configuration that makes tokenise use every "
        "step size that fits a bar; the whole Python dictionary is compared with the model's rendered vocabulary entry by entry; "
        "non-trivial = every configuration (distinct)")
ASSUMPTIONS = ["models: SCoda.vocabSeq / encodeTok / decodeId / render, tied by translation (TokTie.constructDictionary_*, encode_eq, decode_eq, Defs.decode_eq_all; every velocity_bins ≠ 0) and by comparing the entire dictionary of every generated configuration"]
RANGES = [(60, 64), (21, 108), (0, 127), (60, 60)]
VALUESETS = [None, [6, 12, 24], [24, 12, 6, 16, 8, 4, 36, 18, 9, 48, 96], [24, 48, 96, 144, 192], [12, 100, 7]]   # incl. values of three digits


def _tk_of(inp):
    """the tokeniser under test; with "before" in the input, those configurations are constructed first, in order, and the
    one under test is constructed afresh after them (the history of the process is then part of the replayable input)"""
    cfg = P.TkCfg(**inp["cfg"])
    if inp.get("before"):
        for b in inp["before"]:
            try:
                P.TkCfg(**b).fresh()
            except Exception:
                pass
        return cfg, cfg.fresh()
    return cfg, cfg.tk()


def o_vocab(inp):
    try:
        cfg, tk = _tk_of(inp)
    except Exception as e:
        return [("construct-raises", f"{type(e).__name__}: {e}")]
    d = tk.dictionary
    fails = []
    ids = sorted(d.values())
    if ids != list(range(len(d))):
        fails.append(("bijection", f"ids are not 0..{len(d) - 1} (size {len(d)}, max id {ids[-1]})"))
    if tk.dictionary_size != len(d):
        fails.append(("size", f"dictionary_size {tk.dictionary_size} != {len(d)} entries"))
    keys = list(d.keys())
    step = max(1, len(keys) // 600)
    for t in keys[::step] + keys[:8] + keys[-8:]:
        try:
            if tk.decode(tk.encode([t])) != [t]:
                fails.append(("inverse", f"decode(encode({t})) != {t}")); break
        except Exception as e:
            fails.append(("inverse", f"{t}: {type(e).__name__}")); break
    for i in list(range(0, len(d), step)) + [len(d) - 1]:
        try:
            if tk.encode(tk.decode([i])) != [i]:
                fails.append(("inverse", f"encode(decode({i})) != {i}")); break
        except Exception as e:
            fails.append(("inverse", f"id {i}: {type(e).__name__}")); break
    for t in keys[::step] + keys[:40] + keys[-40:]:
        try:
            tk.detokenise([t])
        except Exception as e:
            fails.append(("accepts", f"detokenise([{t}]) raised {type(e).__name__}: {e}")); break
    return fails


def o_closed(inp):
    tracks = [[tuple(m) for m in t] for t in inp["tracks"]]
    try:
        cfg, tk = _tk_of(inp)
    except Exception:
        return [("~skip:construct-raises", "")]
    try:
        toks = tk.tokenise([P.seq_of_rel(t) for t in tracks])
    except Exception:
        return [("~skip:input-not-accepted", "")]
    missing = [t for t in toks if t not in tk.dictionary]
    if missing:
        return [("closed", f"emitted tokens not in the vocabulary: {missing[:4]}")]
    try:
        tk.encode(toks)
    except Exception as e:
        return [("closed", f"encode failed on tokenise output: {type(e).__name__}: {e}")]
    return []


def setup(ctx):
    ctx.oracle("vocab", o_vocab)
    ctx.oracle("closed", o_closed)

    import json as _json
    import os as _os
    with open(_os.path.join(_os.path.dirname(_os.path.dirname(_os.path.dirname(_os.path.abspath(__file__)))), "known_findings.json")) as _f:
        _dup = next(x for x in _json.load(_f)["findings"] if x["id"] == "D16b")["velocity_bins_duplicates"]

    import re as _re

    def _lost_ids_outcome(f):
        """the failure shows exactly what repeated keys do on the unchanged tree: every id but the last one assigned to a repeated key is
        lost.  The numbers are predicted from the configuration alone by the harness-side construction sequence (h1tok_util.d31_prediction:
        step list, value list, and the bin values of the harness-side bin formula): ids handed out, entries kept, which ids no key maps to."""
        if f["oracle"] != "vocab" or f["clause"] not in ("bijection", "size", "inverse"):
            return False
        handed, kept, lost = H.d31_prediction(P.TkCfg(**f["input"]["cfg"]).kw)          # TkCfg only fills in the constructor's default keywords
        d = f["detail"]
        if f["clause"] == "size":
            m = _re.search(r"dictionary_size (\d+) != (\d+) entries", d)
            return bool(m) and (int(m.group(1)), int(m.group(2))) == (handed, kept)
        if f["clause"] == "bijection":
            m = _re.search(r"\(size (\d+), max id (\d+)\)", d)
            return bool(m) and (int(m.group(1)), int(m.group(2))) == (kept, handed - 1)
        m = _re.search(r"^id (\d+): KeyError$", d)          # decode of a lost id; every other `inverse` failure is not such a finding
        return bool(m) and int(m.group(1)) in lost

    def kf_d16b(f):
        # the bin COUNTS for which the unchanged get_velocity_bins repeats 127 — recorded data, not recomputed from the implementation
        # under test (a change that makes other counts collide is a new violation) — and the outcome the repeated bins produce
        return f["input"]["cfg"].get("velocity_bins", 1) in _dup and _lost_ids_outcome(f)
    ctx.kf_predicates["D16b"] = kf_d16b

    def kf_d31(f):
        """a repeated entry in the USER-SUPPLIED step_sizes / note_values list; only the `vocab` clauses that fail because of it and only
        with the numbers the defect produces"""
        return any(H.user_duplicates(f["input"]["cfg"])) and _lost_ids_outcome(f)
    ctx.kf_predicates["D31"] = kf_d31


# finding D31 (audit round 3, O4): a repeated entry in step_sizes.  Repaired by fix_D31.diff (__init__ stores sorted(set(...))); the two examples stay
# in `generate` as regression inputs: with the repair they pass, without it they fail exactly as kf_d31 describes (a finding whose status is "fixed" is
# not matched by its predicate any more, so its return is reported as a violation)
D31_EXAMPLE = {"cfg": dict(num_tracks=1, pitch_range=(60, 62), step_sizes=[4, 4, 8])}
D31_EXAMPLE_VALUES = {"cfg": dict(num_tracks=1, pitch_range=(60, 62), note_values=[12, 12, 24])}
# audit round 3, O3: every step size the rests are cut into must be a vocabulary token, also a step above ppqn
STEP_EXAMPLE = {"cfg": dict(num_tracks=1, step_sizes=[2, 4, 8, 48], note_values=[24]),
                "tracks": [[G.pm(TIMESIG, 0, None, num=4, den=4), G.pm(WAIT, 0, 48), G.pm(ON, 0, None, note=60, vel=64), G.pm(WAIT, 0, 24),
                            G.pm(OFF, 0, None, note=60)]]}


def generate(ctx):
    rng = ctx.rng
    ctx.check("vocab", {"cfg": dict(num_tracks=1, velocity_bins=19, pitch_range=(60, 62))})
    ctx.check("vocab", D31_EXAMPLE)
    ctx.check("vocab", D31_EXAMPLE_VALUES)
    ctx.check("closed", STEP_EXAMPLE)
    cfgs = []
    # off the default step list (audit round 3, O3/O4): custom / unsorted step lists, a step above ppqn, three-digit steps, custom value
    # sets, other resolutions; some with a repeated list entry (D31)
    custom = []
    for j in range(ctx.n(16, 120)):
        kw = dict(num_tracks=rng.choice([1, 1, 2]), velocity_bins=rng.choice([1, 2, 3, 5]), running=rng.random() < 0.5,
                  fuse_track=rng.random() < 0.5, fuse_value=rng.random() < 0.5, fuse_velocity=rng.random() < 0.5,
                  pitch_range=rng.choice(RANGES[:1] + RANGES[3:]))
        kw.update(H.custom_cfg(rng, dup=0.25, ppqns=(24, 24, 12, 48, 96, 6)))
        custom.append(kw)
    if ctx.thorough:
        for flags in range(16):
            for bins in (1, 2, 3, 4, 5, 8, 12, 16):
                for nt in (1, 2, 3):
                    cfgs.append(dict(num_tracks=nt, velocity_bins=bins, running=bool(flags & 8), fuse_track=bool(flags & 4),
                                     fuse_value=bool(flags & 2), fuse_velocity=bool(flags & 1),
                                     pitch_range=rng.choice(RANGES[:1] + RANGES[3:]) if (bins > 4 or nt > 1) else rng.choice(RANGES),
                                     note_values=rng.choice(VALUESETS)))
    else:
        for flags in range(16):
            cfgs.append(dict(num_tracks=rng.choice([1, 2, 3]), velocity_bins=rng.choice([1, 2, 3, 4, 8, 16]),
                             running=bool(flags & 8), fuse_track=bool(flags & 4), fuse_value=bool(flags & 2),
                             fuse_velocity=bool(flags & 1), pitch_range=rng.choice(RANGES[:1] + RANGES[3:]),
                             note_values=rng.choice(VALUESETS)))
        for _ in range(8):
            cfgs.append(dict(num_tracks=rng.choice([1, 2]), velocity_bins=rng.choice([1, 2, 5]),
                             running=rng.random() < 0.5, fuse_track=rng.random() < 0.5, fuse_value=rng.random() < 0.5,
                             fuse_velocity=rng.random() < 0.5, pitch_range=rng.choice(RANGES), note_values=None))
    # every bin count 1..40 (quick: a rotating third of them; thorough: all of 1..64) on a cheap configuration: the bin edges come from a helper
    # whose rounding decides whether two bins collide — the counts that collide on the unchanged tree are recorded data (D16b)
    span = range(1, 65) if ctx.thorough else [n for n in range(1, 41) if n % 3 == ctx.seed % 3 or n in (9, 14, 19, 20)]
    for n in span:
        cfgs.append(dict(num_tracks=1, velocity_bins=n, running=True, fuse_track=True, fuse_value=True, fuse_velocity=rng.random() < 0.5,
                         pitch_range=RANGES[3], note_values=[12, 24]))
    # time-signature ranges other than the default, and *twins*: the same configuration again with exactly one parameter
    # changed, built in the same process (anything shared between tokeniser instances shows up on the second one)
    TS_RANGES = [(2, 16), (1, 17), (2, 24), (4, 12), (2, 8), (1, 32)]
    more = []
    for kw in cfgs:
        if rng.random() < 0.3:
            kw["ts_range"] = rng.choice(TS_RANGES)
        if rng.random() < (0.5 if not ctx.thorough else 0.25):
            twin = dict(kw)
            which = rng.choice(["ts_range", "ts_range", "note_values", "velocity_bins", "pitch_range", "num_tracks", "fuse_value"])
            if which == "ts_range":
                twin["ts_range"] = rng.choice([r for r in TS_RANGES if r != tuple(kw.get("ts_range", (2, 16)))])
            elif which == "note_values":
                twin["note_values"] = rng.choice([v for v in VALUESETS if v != kw.get("note_values")] or [None])
            elif which == "velocity_bins":
                twin["velocity_bins"] = rng.choice([b for b in (1, 2, 3, 4, 8) if b != kw["velocity_bins"]])
            elif which == "pitch_range":
                twin["pitch_range"] = rng.choice([r for r in RANGES[:1] + RANGES[3:] if tuple(r) != tuple(kw["pitch_range"])] or [kw["pitch_range"]])
            elif which == "num_tracks":
                twin["num_tracks"] = kw["num_tracks"] % 3 + 1
            else:
                twin["fuse_value"] = not kw["fuse_value"]
            more.append((kw, twin))
            ctx.count("twin:" + which)
    cfgs = cfgs + custom
    order = []
    before_of = {}
    for kw in cfgs:
        order.append(kw)
        for k, t in more:
            if k is kw:
                order.append(t)
                before_of[id(t)] = [dict(kw)]
    built = []
    for kw in order:
        # the configurations built just before this one in the process are part of the input (a twin's sibling is the last)
        before = [dict(b) for b in built[-3:]]
        built.append(kw)
        cfg = P.TkCfg(**kw)
        ctx.case(sorted((k, str(v)) for k, v in kw.items()), True)
        ctx.count("flags:%d%d%d%d" % (kw["running"], kw["fuse_track"], kw["fuse_value"], kw["fuse_velocity"]))
        ctx.check("vocab", {"cfg": kw, "before": before} if before else {"cfg": kw})
        ctx.count("vocab-entries", len(cfg.tk().dictionary))
        ctx.corr("vocab", P.op_vocab(cfg), post=P.vocab_view_from_lean)
        # closure on pieces drawn for this configuration (on its own grid: resolution, step unit, note values)
        lo, hi = kw["pitch_range"]
        off_default = kw.get("step_sizes") is not None or kw.get("ppqn") is not None
        for lab in H.describe_cfg(kw):
            ctx.count("cfg:" + lab)
        for pi in range(4 if off_default else 3):
            if pi == 3:
                # every step size that fits a bar is used by this piece's rests
                piece = {"tracks": [H.sweep_piece(cfg.kw)] + [[] for _ in range(kw["num_tracks"] - 1)]}
                ctx.count("closed:step-sweep")
            elif off_default:
                piece = H.gen_piece_p(rng, ppqn=kw.get("ppqn") or 24, steps=kw.get("step_sizes"), values=kw.get("note_values"),
                                      n_tracks=kw["num_tracks"], pitch_range=(lo, hi), max_notes_per_bar=rng.choice([1, 1, 2, 3]),
                                      ts_range=tuple(kw.get("ts_range", (2, 16))))
            else:
                piece = G.gen_piece(rng, n_tracks=kw["num_tracks"], pitch_range=(lo, hi), values=kw.get("note_values") or None)
            ctx.check("closed", {"cfg": kw, "tracks": piece["tracks"], "before": before} if (before and pi == 0) else {"cfg": kw, "tracks": piece["tracks"]})
            res = P.op_tokenise(cfg, None, piece["tracks"])
            ctx.corr("tokenise", res)
            if res[1].startswith("T "):
                toks = res[1][2:].split(" | ")[0].split()
                ctx.corr("encode", P.op_encode(cfg, toks))
        d = cfg.tk().dictionary
        keys = list(d.keys())
        sample = [keys[rng.randrange(len(keys))] for _ in range(30)]
        ctx.corr("encode", P.op_encode(cfg, sample))
        ctx.corr("decode", P.op_decode(cfg, [rng.randrange(len(keys)) for _ in range(30)]))
        ctx.corr("detokenise", P.op_detokenise(cfg, sample))
    ctx.sample({"cfg": {k: str(v) for k, v in cfgs[0].items()}})
