"""C13 — loading rescales file ticks exactly and routes every event to the right sequence."""
import os
from fractions import Fraction
import gens as G
import h3midi_util as H
import pyimpl as P
from oracle_util import *  # noqa
from protocol import from_real, KEY_IDX

ID = "C13"
LEAN_MODULE = ["SCoda.Props.C13", "SCoda.Props.C15", "SCoda.Props.C12", "SCoda.Props.C13b", "SCoda.Props.StaticTie"]
CLAUSES = [
    ("every created event sits at roundHalfEven(prefix sum of the deltas * 24 / file_ppq): error <= 1/2 tick, exact on integers, and the running file tick is "
     "the plain sum of deltas — no rounding is fed back (no accumulation)",
     ["SCoda.C13.round_error", "SCoda.C13.round_int", "SCoda.C13.convMsg_tick", "SCoda.C13.convTrack_ticks"]),
    ("one sequence per requested group; notes of a grouped track go to that track's own sequence with pitch, velocity and channel kept; "
     "a group is the merge of its tracks' sequences, whose sounding set is the union (C15.union)",
     ["SCoda.C13.one_per_group", "SCoda.C13.notes_to_group", "SCoda.C15.union"]),
    ("all time/key signatures go to the meta sequence whatever track they come from; the meta target has a signature at tick 0 (the file's or the default 4/4)",
     ["SCoda.C13.signatures_to_meta_fields", "SCoda.C13.signatures_to_meta_partial", "SCoda.C13.default_signature"]),
    ("tracks outside every group contribute no notes", ["SCoda.C13.outside_group_no_notes"]),
    ("an invalid meta target index is rejected (ValueError; IndexError only for an empty group)", ["SCoda.C13.bad_target"]),
    ("end-to-end composition (per-track insort, normalise, group merge, meta merge, final read-out): for a valid load with every track in at most one "
     "group, non-negative deltas and per track well-formed rounded note events of positive length, the sounding set of loaded sequence g is exactly the "
     "union over the group's tracks of their note events at the rounded exact positions; every signature on the meta target is the default 4/4 or comes "
     "from a considered track at its rounded position; the other sequences carry no signature (zero-length notes after rescaling: known finding D17, outside GoodTrack)",
     ["SCoda.C13.load_sounding", "SCoda.C13.trackMsgs_sorted", "SCoda.C13.load_signatures", "SCoda.C13.signatures_only_on_target"]),
    ("COMPLETENESS of meta routing (audit A7a): for any resolution, any grouping (overlapping included), any meta selection and any valid target, the time signature "
     "and the key signature in force at every tick on the loaded meta sequence are those in force in the independent list `fileSigs` (considered tracks in file order, "
     "every signature stamped with its rounded tick, 4/4 by default; on equal ticks the later event wins, as observed on the library); composed with the parser model at "
     "mido-file level the only hypotheses are the format's own (deltas >= 0, meta messages carry no channel); without the domain conditions the statements are refuted "
     "on messages no parser produces (model wider than the parser's range)",
     ["SCoda.C13b.load_time_signature_in_force", "SCoda.C13b.load_key_signature_in_force", "SCoda.C13b.load_signatures_in_force_file", "SCoda.C13b.parse_domain",
      "SCoda.C13b.load_time_signature_in_force_statement_false", "SCoda.C13b.load_key_signature_in_force_statement_false"]),
    ("routing for ARBITRARY files and groupings (audit A7b/c): every group receives exactly the tracks whose FIRST listing is in it (independent predicate FirstGroup) — "
     "the union over all listed tracks, which the property states, is refuted on groups [[0],[0,1]] (known finding D20) and proved when no track is listed twice; "
     "files with orphan note-offs, unclosed or overlapping notes: the sounding set is the union over the per-track normalised tracks, and over the raw tracks when every "
     "note is eventually closed; the hypothesis is the counting predicate NotesClosed (weaker than GoodTrack), its zero-length part being known finding D17 (refuted example)",
     ["SCoda.C13b.routing_first_group", "SCoda.C13b.routing_union_partial", "SCoda.C13b.routing_union_statement_false", "SCoda.C13b.routing_normalised",
      "SCoda.C13b.routing_orphans", "SCoda.C13b.routing_first_group_statement_false", "SCoda.C13b.notesClosed_of_goodTrack"]),
    ("every outcome of convert: IndexError exactly for an empty group, ValueError exactly for a target outside the groups when all groups are non-empty, success otherwise — "
     "for any tracks and any meta selection", ["SCoda.C13b.empty_group_error", "SCoda.C13b.bad_target_exact", "SCoda.C13b.convert_succeeds"]),
    ("TIE BY TRANSLATION: MidiFile.convert (per-track accumulation of the scaled position as an exact rational — the idealisation of the IEEE doubles recorded in "
     "DESIGN 5 —, round, routing to the first group, meta messages to the meta sequence, per-track normalise, group merge, default 4/4, the two error exits), "
     "MidiMessage.parse_mido_message / MidiTrack.parse_mido_track, MidiFile.__init__/open/parse_mido and Sequence.sequences_load are re-translated statement by "
     "statement on every run (Gen/StaticFns.lean) and proved equal to the models `convert`, `parseMido`, `parseTrack` — for ALL inputs, no hypothesis",
     ["SCoda.StaticTie.convert_eq", "SCoda.StaticTie.parseMidoMessage_eq", "SCoda.StaticTie.parseMidoTrack_eq", "SCoda.StaticTie.midiFileInit_eq",
      "SCoda.StaticTie.parseMido_eq", "SCoda.StaticTie.midiFileOpen_eq", "SCoda.StaticTie.sequencesLoad_eq", "SCoda.StaticTie.sequencesLoad_path_eq",
      "SCoda.StaticTie.translated_covered"]),
    ("parser (Model/MidiParse.lean, tied by the parseMido correspondence): a note-on with velocity 0 is a note-off and loads as one; each of the 15 key names the saver "
     "writes is looked up to its own key in the regenerated KeyKeyMapping (decided over the generated tables)",
     ["SCoda.C13b.parse_note_on_zero", "SCoda.C13b.note_on_zero_loads_as_off", "SCoda.C13b.parse_note_on_pos", "SCoda.C13b.key_table_round_trip",
      "SCoda.C13b.key_count", "SCoda.C13b.saved_key_parses"]),
]
RULE = ("MIDI files written with mido: resolutions from {1,7,24,48,96,100,480,960,997,32767}, 1-4 tracks, long delta "
        "patterns (drift), note-on velocity 0 as note-off, all groupings, meta selections and target indices, all 30 key names (each judged "
        "against the harness's own table of the format's key names), files whose tracks all start with a time signature at tick 0; "
        "notes that collapse to zero length after rescaling followed by notes of their key (D17's class), tracks listed in two groups in either "
        "order (D20's class); files with a conductor track (signatures only, in no group) and sometimes an unused part, each loaded through the "
        "public loader with the meta selection explicitly empty (only the grouped tracks are considered), left out (None: every track), the "
        "conductor track, a random non-empty selection; non-trivial = resolution != 24 or more than one track")
ASSUMPTIONS = ["mido's writer/reader assumed faithful",
               "the code accumulates IEEE doubles; the model uses exact rationals with round-half-even; both may differ only at exact .5 ties, where the oracle accepts either neighbour",
               "model: SCoda.convert (Model/Midi.lean), tied by correspondence"]
SCRATCH = None
KEYNAMES = None
KEY_BY_MEMBER = None


def expected_tick(cum, ppq):
    x = Fraction(cum * 24, ppq)
    lo = x.numerator // x.denominator
    if x - lo < Fraction(1, 2):
        return {lo}
    if x - lo > Fraction(1, 2):
        return {lo + 1}
    return {lo, lo + 1}


def zero_length_note(inp):
    """D17: some considered track holds a note whose note-on and note-off round to the same tick"""
    ppq = inp["ppq"]
    for evs in inp["tracks"]:
        cum = 0
        open_ = {}
        for e in evs:
            ty, ch, delta, note, vel = e[0], e[1], e[2], e[3], e[4]
            cum += delta
            if ty == 7 and vel != 0:
                open_[(ch, note)] = cum
            elif ty in (6, 7) and (ch, note) in open_:
                on = open_.pop((ch, note))
                if expected_tick(on, ppq) & expected_tick(cum, ppq):
                    return True
    return False


def o_load(inp):
    from scoda.sequences.sequence import Sequence
    import tempfile
    ppq, target = inp["ppq"], inp["target"]
    tracks = [[tuple(e) for e in t] for t in inp["tracks"]]
    groups = [list(g) for g in inp["groups"]]
    # the meta selection as the caller passes it to the public loader: a list (possibly EMPTY: no track is selected for meta messages, the
    # considered tracks are then exactly the grouped ones) or None (argument left out: the loader's default, every track of the file)
    meta_idx = None if inp["meta"] is None else list(inp["meta"])
    mf = P.mido_file_from_events(ppq, tracks)
    fd, path = tempfile.mkstemp(suffix=".mid", dir=SCRATCH)
    os.close(fd)
    err = None
    try:
        mf.save(path)
        try:
            if inp.get("earlier"):
                # the same opened MidiFile object is converted more than once (the documented `midi_file=` argument): the earlier
                # conversions, with other roles for the tracks, are part of the replayable input; the last one is judged
                from scoda.midi.midi_file import MidiFile
                opened = MidiFile.open(path)
                for e in inp["earlier"]:
                    try:
                        Sequence.sequences_load(midi_file=opened, track_indices=[list(g) for g in e["groups"]],
                                                meta_track_indices=None if e["meta"] is None else list(e["meta"]),
                                                target_meta_track_index=e["target"])
                    except Exception:
                        pass
                loaded = Sequence.sequences_load(midi_file=opened, track_indices=groups, meta_track_indices=meta_idx,
                                                 target_meta_track_index=target)
            else:
                loaded = Sequence.sequences_load(file_path=path, track_indices=groups, meta_track_indices=meta_idx,
                                                 target_meta_track_index=target)
        except ValueError as e:
            err = e
        except IndexError as e:
            if any(len(g) == 0 for g in groups):
                # a group that names no track is not a "requested track group" of the property; what the real code does there is proved
                # (C13b.empty_group_error: IndexError, exactly then).  No generator draws it: only shrinking arrives here (seed round 9).
                return [("~skip:empty-group", "")]
            return [("raises", f"{type(e).__name__}: {e}")]
        except Exception as e:
            return [("raises", f"{type(e).__name__}: {e}")]
    finally:
        if os.path.exists(path):
            os.unlink(path)
    if not (0 <= target < len(groups)):
        return [] if err is not None else [("errors", f"target {target} accepted for {len(groups)} groups")]
    if err is not None:
        return [("raises", f"ValueError: {err}")]
    fails = []
    if len(loaded) != len(groups):
        return [("routing", f"{len(loaded)} sequences for {len(groups)} groups")]
    # expected per-track events with admissible tick sets
    per_track = []
    for evs in tracks:
        cum = 0
        lst = []
        for (ty, ch, delta, note, vel, ctl, prog, num, den, key) in evs:
            cum += delta
            ty2 = 6 if (ty == 7 and vel == 0) else ty
            lst.append((ty2, ch, cum, note, vel, num, den, key))
        per_track.append(lst)
    in_any = lambda i: any(i in g for g in groups)  # noqa
    for gi, g in enumerate(groups):
        la = [from_real(m) for m in loaded[gi].abs._messages]
        if not all_int_times(la):
            fails.append(("rescale", "non-integer tick"))
        tl, _ = abs_timed(la)
        # exact placement: every loaded note event must match an expected event at an admissible tick
        exp_note_events = []
        for i in g:
            for (ty, ch, cum, note, vel, num, den, key) in per_track[i]:
                if ty in (6, 7):
                    exp_note_events.append((ty, ch, note, expected_tick(cum, ppq)))
        for t, m in tl:
            if m[TY] in (ON, OFF):
                if not any(e[0] == m[TY] and e[1] == m[CH] and e[2] == m[NOTE] and t in e[3] for e in exp_note_events):
                    fails.append(("rescale", f"group {gi}: note event {m[TY], m[CH], m[NOTE]} at {t} matches no file event at its exact position"))
        # union of per-track sounding sets, with rounded ticks (ties: the lower/upper choice is taken from what was loaded)
        ambiguous = any(len(e[3]) > 1 for e in exp_note_events)
        if not ambiguous:
            per = []
            for i in g:
                timed = [(min(expected_tick(cum, ppq)), (ty, ch, None, note, vel, None, None, None, None, None))
                         for (ty, ch, cum, note, vel, num, den, key) in per_track[i] if ty in (6, 7)]
                # per-track normalise removes unclosed notes: keep closed intervals only
                iv = {k: [(s, e) for (s, e) in v if e is not None] for k, v in intervals(timed).items()}
                per.append(norm_intervals(iv))
            u = {}
            for p in per:
                for k, v in p.items():
                    u.setdefault(k, []).extend(v)
            if norm_intervals(u) != sounding(tl):
                fails.append(("routing", H.Detail(f"group {gi}: expected union {norm_intervals(u)}, loaded {sounding(tl)}",
                                                  group=gi, expected=norm_intervals(u), loaded=sounding(tl))))
    # signatures
    # which tracks are "considered" (the text: "all time and key signatures of the considered tracks on the designated meta sequence"; the
    # docstrings: `track_indices` — which tracks are merged into which sequence, `meta_track_indices` — "indices of tracks of the MIDI file to
    # consider for meta messages"): the grouped tracks and the tracks selected for meta messages.  Judged from the plain input: an EMPTY
    # selection selects nothing (only the grouped tracks are considered; a conductor track outside every group contributes nothing), a
    # selection left out (None) is the loader's default, all tracks of the file
    selected = set(range(len(tracks))) if meta_idx is None else set(meta_idx)
    considered = [i for i in range(len(tracks)) if in_any(i) or i in selected]
    exp_sigs = []
    for i in considered:
        for (ty, ch, cum, note, vel, num, den, key) in per_track[i]:
            if ty == 3:
                exp_sigs.append((3, (num, den), expected_tick(cum, ppq)))
            elif ty == 2:
                # the key a name has to load as comes from the harness's own table of the 30 MIDI key names (name -> accidentals ->
                # major key; a minor key loads as its relative major), NOT from MusicMapping.KeyKeyMapping (audit 3, O2)
                exp_sigs.append((2, H.expected_key_index(key, KEY_BY_MEMBER), expected_tick(cum, ppq)))
    for gi in range(len(groups)):
        la = [from_real(m) for m in loaded[gi].abs._messages]
        for m in la:
            if m[TY] in (TIMESIG, KEYSIG):
                if gi != target:
                    fails.append(("meta", f"signature event on sequence {gi}, meta target is {target}"))
                    continue
                val = (m[NUM], m[DEN]) if m[TY] == TIMESIG else m[KEY]
                if m[TY] == TIMESIG and val == (4, 4) and m[TIME] == 0:
                    continue          # the default signature
                if not any(e[0] == m[TY] and e[1] == val and m[TIME] in e[2] for e in exp_sigs):
                    fails.append(("meta", f"signature {val} at {m[TIME]} matches no file event"))
    # every non-repeating file signature must be present on the target: compare in-force timelines when unambiguous
    if all(len(e[2]) == 1 for e in exp_sigs):
        la = [from_real(m) for m in loaded[target].abs._messages]
        tl, _ = abs_timed(la)
        for ty, default in ((TIMESIG, (4, 4)), (KEYSIG, None)):
            evs = sorted(((min(e[2]), e[1]) for e in exp_sigs if e[0] == ty), key=lambda x: x[0])
            if len({t for t, _ in evs}) != len(evs):
                # several signatures of this kind on one tick (the normal case of real files: every track starts with a time signature
                # at tick 0; audit 3, O10).  "All signatures of the considered tracks on the meta sequence": the value in force from such
                # a tick on is one of those the file gives there (THE one when they agree), nothing changes where the file has no event
                given = list(evs) + ([(0, (4, 4))] if ty == TIMESIG and not any(t == 0 for t, _ in evs) else [])
                bad = H.in_force_violation(given, sig_in_force(tl, ty, None))
                if bad:
                    fails.append(("meta", f"signature timeline (several on one tick): {bad}; loaded {sig_in_force(tl, ty, None)}"))
                continue
            # the loaded meta sequence is read with no default: it has to carry 4/4 at tick 0 itself
            # when the file says nothing there
            if ty == TIMESIG and not any(t == 0 for t, _ in evs):
                evs = [(0, (4, 4))] + evs
            exp_force, cur = [], None
            for t, v in evs:
                if v != cur:
                    exp_force.append((t, v)); cur = v
            if sig_in_force(tl, ty, None) != exp_force:
                fails.append(("meta", f"signature timeline: file {exp_force}, loaded {sig_in_force(tl, ty, None)}"))
    return fails


def _cums(evs):
    """running file ticks of a track's events"""
    cum, out = 0, []
    for e in evs:
        cum += e[2]
        out.append(cum)
    return out


def shared_track(inp):
    """D20: some track index is listed in more than one group"""
    seen = set()
    for g in inp["groups"]:
        for i in set(g):
            if i in seen:
                return True
            seen.add(i)
    return any(len(set(g)) != len(g) for g in inp["groups"])


def _routed(groups, gi):
    """the tracks whose FIRST listing (first group that lists them, in group order) is group `gi`, in the order the group lists them"""
    out = []
    for i in groups[gi]:
        if i not in out and next(g for g, grp in enumerate(groups) if i in grp) == gi:
            out.append(i)
    return out


def _track_events(evs, ppq):
    """note events (rounded tick, type, channel, pitch, velocity) of one file track in file order (a note-on of velocity 0 is a note-off);
    None when a position rounds ambiguously (exact .5 tie)"""
    cum, out = 0, []
    for e in evs:
        cum += e[2]
        if e[0] in (6, 7):
            ts = expected_tick(cum, ppq)
            if len(ts) != 1:
                return None
            out.append((min(ts), 6 if (e[0] == 7 and e[4] == 0) else e[0], e[1], e[3], e[4]))
    return out


def _text_union(lists):
    """the sounding set the property text gives a group of tracks: per track the closed intervals (saturating counter), united"""
    u = {}
    for l in lists:
        timed = [(t, (ty, ch, None, note, vel, None, None, None, None, None)) for (t, ty, ch, note, vel) in l]
        for k, v in norm_intervals({k: [(a, b) for (a, b) in v if b is not None] for k, v in intervals(timed).items()}).items():
            u.setdefault(k, []).extend(v)
    return norm_intervals(u)


def _routing_facts(f):
    """(loaded sounding set of the failing group, the text's union over ALL tracks the group lists, the text's union over the tracks ROUTED to
    it by first listing, the event lists of the routed tracks) — from the structured detail and the plain input; None if not applicable"""
    d = H.data_of(f)
    inp = f["input"]
    if f["clause"] != "routing" or "group" not in d:
        return None
    groups, gi = [list(g) for g in inp["groups"]], d["group"]
    if not (0 <= gi < len(groups)):
        return None
    if any(not (0 <= i < len(inp["tracks"])) for i in groups[gi]):
        return None
    lists = {i: _track_events([tuple(e) for e in inp["tracks"][i]], inp["ppq"]) for i in set(groups[gi])}
    if any(l is None for l in lists.values()):
        return None
    routed = [lists[i] for i in _routed(groups, gi)]
    return d["loaded"], _text_union([lists[i] for i in groups[gi]]), _text_union(routed), routed


def kf_d20(f):
    # OUTCOME (audit round 4, B2): the failing group lists a track whose first listing is another group, and what was loaded for it is exactly
    # the union over the tracks routed to it by FIRST listing — the doubly-listed track's notes are absent here (they are in the first group
    # that lists it: that group's own comparison), nothing else differs.  A group that LOSES notes of a track routed to it, or that receives
    # the track although an earlier group lists it, is not this finding
    r = _routing_facts(f)
    if r is None:
        return False
    loaded, listed_union, routed_union, _ = r
    return shared_track(f["input"]) and routed_union != listed_union and loaded == routed_union


def kf_d17(f):
    # OUTCOME (audit round 4, B2): what was loaded for the failing group is exactly what the mechanism (h3midi_util.merged_notes_model on the
    # events of the tracks routed to THIS group: per-track normalise, canonical order, merge, normalise) gives, and every (channel, pitch) on
    # which that differs from the union is the key of a note of one of THOSE tracks whose note-on and note-off round to one tick
    r = _routing_facts(f)
    if r is None:
        return False
    loaded, _, routed_union, routed = r
    model = H.sounding_of_events(H.merged_notes_model(routed, normalise_each=True))
    damaged = {k for k in set(model) | set(routed_union) if model.get(k) != routed_union.get(k)}
    collapsing = set()
    for l in routed:
        collapsing |= H.zero_length_keys(l)
    return bool(damaged) and damaged <= collapsing and loaded == model


def setup(ctx):
    global SCRATCH, KEYNAMES
    ctx.kf_predicates["D17"] = kf_d17
    ctx.kf_predicates["D20"] = kf_d20
    SCRATCH = ctx.scratch
    global KEY_BY_MEMBER
    KEYNAMES = sorted(H.MIDO_KEYS) + ["A#m", "Abm", "Am", "Em"]     # all 30 names of the format, from the harness's table
    KEY_BY_MEMBER = H.key_index_by_member()
    import mido.midifiles.meta as _meta
    if hasattr(_meta, "_key_signature_encode"):     # the third-party codec accepts exactly these names
        assert sorted(k for k in _meta._key_signature_encode if isinstance(k, str)) == sorted(H.MIDO_KEYS)
    ctx.oracle("load", o_load)


def gen_track(rng, ppq, n_events, wf=True, zero=False):
    evs = []
    open_ = {}
    for _ in range(n_events):
        delta = rng.choice([0, 1, ppq // 4, ppq // 3 + 1, ppq, 3 * ppq // 2, rng.randint(0, max(1, ppq))])
        if open_ and rng.random() < 0.85:
            delta = max(delta, ppq // 12 + 1)     # keep most notes at least one library tick long
        k = rng.random()
        ch = rng.randrange(2)
        if zero and rng.random() < 0.12:
            # a note that collapses to zero length after rescaling (D17's class): note-on and note-off on one file tick, or less than half a
            # library tick apart; the keys are few, so later notes of the same channel and pitch are likely
            note = rng.randint(58, 61)
            if (ch, note) not in open_:
                evs.append((7, ch, delta, note, rng.randint(1, 127), None, None, None, None, None))
                evs.append((rng.choice([6, 7]), ch, rng.choice([0, 0, max(0, ppq // 50)]), note, 0, None, None, None, None, None))
                continue
        if k < 0.45:
            note = rng.randint(58, 64)
            if wf and (ch, note) in open_:
                evs.append((6, ch, delta, note, 0, None, None, None, None, None)) if rng.random() < 0.5 else \
                    evs.append((7, ch, delta, note, 0, None, None, None, None, None))
                del open_[(ch, note)]
            else:
                evs.append((7, ch, delta, note, rng.randint(1, 127), None, None, None, None, None))
                open_[(ch, note)] = True
        elif k < 0.5 and not wf and rng.random() < 0.5:
            # ill-formed track: a stray note-off for a key that is not sounding (per-track normalise drops it)
            cand = [(c, n) for c in range(2) for n in range(58, 65) if (c, n) not in open_]
            c2, note = rng.choice(cand)
            evs.append((6, c2, delta, note, 0, None, None, None, None, None))
        elif k < 0.7 and open_:
            (c2, note) = rng.choice(sorted(open_))
            del open_[(c2, note)]
            if rng.random() < 0.5:
                evs.append((7, c2, delta, note, 0, None, None, None, None, None))
            else:
                evs.append((6, c2, delta, note, 0, None, None, None, None, None))
        elif k < 0.8:
            n_, d_ = G.any_sig(rng)
            evs.append((3, None, delta, None, None, None, None, n_, d_, None))
        elif k < 0.9:
            evs.append((2, None, delta, None, None, None, None, None, None, rng.choice(KEYNAMES)))
        elif k < 0.94:
            evs.append((4, rng.randrange(2), delta, None, rng.randrange(128), rng.choice([1, 7, 64]), None, None, None, None))   # control change (goes to the meta sequence)
        elif k < 0.97:
            evs.append((5, rng.randrange(2), delta, None, None, None, rng.randrange(128), None, None, None))     # program change (stays with its track)
        else:
            evs.append((1, None, delta, None, None, rng.randrange(9), None, None, None, None))   # uninterpreted event of some kind
    for (c2, note) in sorted(open_):
        if not wf and rng.random() < 0.5:
            continue          # ill-formed track: the note is never closed (per-track normalise removes it)
        evs.append((6, c2, rng.choice([1, ppq]), note, 0, None, None, None, None, None))
    return evs


def gen_conductor_file(rng, ppq):
    """a type-1 file as notation programs write it: track 0 is a CONDUCTOR track (time and key signatures at tick 0 and later, tempo / text
    events, no notes), the parts follow; the last part is sometimes an unused one (it has notes and signatures of its own but is left out of the
    grouping).  -> (tracks, groups): the groups never list the conductor track"""
    nt = rng.randint(2, 4)
    cond = []
    if rng.random() < 0.85:
        n_, d_ = G.any_sig(rng)
        cond.append((3, None, 0, None, None, None, None, n_, d_, None))
    if rng.random() < 0.7:
        cond.append((2, None, 0, None, None, None, None, None, None, rng.choice(KEYNAMES)))
    for _ in range(rng.randint(0, 3)):
        delta = rng.choice([ppq, 2 * ppq, 3 * ppq, 4 * ppq, rng.randint(1, max(1, 4 * ppq))])
        k = rng.random()
        if k < 0.45:
            n_, d_ = G.any_sig(rng)
            cond.append((3, None, delta, None, None, None, None, n_, d_, None))
        elif k < 0.8:
            cond.append((2, None, delta, None, None, None, None, None, None, rng.choice(KEYNAMES)))
        else:
            cond.append((1, None, delta, None, None, rng.choice([0, 1, 2, 5]), None, None, None, None))     # marker / text / tempo / cue
    if not any(e[0] in (2, 3) for e in cond):
        cond.append((3, None, 0, None, None, None, None, 3, 4, None))
    parts = [gen_track(rng, ppq, rng.randint(2, 10), wf=True) for _ in range(nt - 1)]
    idx = list(range(1, nt))
    if nt >= 3 and rng.random() < 0.4:
        idx = idx[:-1]                                    # the last part is in no group
    mode = rng.random()
    if mode < 0.5:
        groups = [[j] for j in idx]
    elif mode < 0.75:
        groups = [idx]
    else:
        rng.shuffle(idx)
        k_ = rng.randint(1, len(idx))
        groups = [sorted(idx[:k_])] + ([sorted(idx[k_:])] if idx[k_:] else [])
    return [cond] + parts, groups


def op_convert_default_meta(ppq, target, groups, tracks, scratch_dir):
    """correspondence request for a load whose meta selection is LEFT OUT (None): the model is asked with the documented default, every track
    of the file; the implementation is called through the public loader without the argument"""
    import tempfile
    from scoda.sequences.sequence import Sequence
    words, _ = P.op_convert(ppq, target, groups, list(range(len(tracks))), tracks, scratch_dir)

    def f():
        mf = P.mido_file_from_events(ppq, tracks)
        fd, path = tempfile.mkstemp(suffix=".mid", dir=scratch_dir)
        os.close(fd)
        try:
            mf.save(path)
            seqs = Sequence.sequences_load(file_path=path, track_indices=[list(g) for g in groups], target_meta_track_index=target)
        finally:
            os.unlink(path)
        return " | ".join(P.p_seq(s_) for s_ in seqs)
    return words, P.guarded(f)


def foreign_signature_track(tracks, groups, meta):
    """does the file hold a track that is in no group and not selected for meta messages, and carries a time or key signature — the tracks
    that must contribute NOTHING (for meta = None every track is selected: never)"""
    if meta is None:
        return False
    return any(not any(i in g for g in groups) and i not in meta and any(e[0] in (2, 3) for e in t) for i, t in enumerate(tracks))


# a conductor track with 6/8 and F major, two parts; the parts are the groups, the meta selection is explicitly EMPTY: the considered tracks
# are the two parts, the meta sequence carries the default 4/4 and the key of part 1 only
EMPTY_META_EXAMPLE = {"ppq": 48, "target": 0, "groups": [[1], [2]], "meta": [], "tracks": [
    [(3, None, 0, None, None, None, None, 6, 8, None), (2, None, 0, None, None, None, None, None, None, "F"),
     (3, None, 144, None, None, None, None, 3, 4, None)],
    [(2, None, 6, None, None, None, None, None, None, "G"), (7, 0, 0, 60, 64, None, None, None, None, None),
     (6, 0, 48, 60, 0, None, None, None, None, None)],
    [(7, 1, 0, 48, 64, None, None, None, None, None), (7, 1, 96, 48, 0, None, None, None, None, None)]]}


D20_EXAMPLE = {"ppq": 24, "target": 0, "groups": [[0], [0, 1]], "meta": [0], "tracks": [
    [(7, 0, 0, 60, 64, None, None, None, None, None), (6, 0, 24, 60, 0, None, None, None, None, None)],
    [(7, 0, 48, 62, 64, None, None, None, None, None), (6, 0, 24, 62, 0, None, None, None, None, None)]]}
D17_EXAMPLE = {"ppq": 24, "target": 0, "groups": [[0]], "meta": [0], "tracks": [[
    (7, 0, 1, 63, 64, None, None, None, None, None), (6, 0, 0, 63, 0, None, None, None, None, None),
    (7, 0, 7, 63, 64, None, None, None, None, None), (6, 0, 24, 63, 0, None, None, None, None, None)]]}


def generate(ctx):
    rng = ctx.rng
    ctx.check("load", D17_EXAMPLE)
    ctx.check("load", D20_EXAMPLE)
    # every one of the 30 key names of the format, once on its own and once after another key (so that none is dropped as a repeat)
    for name in sorted(H.MIDO_KEYS):
        other = "C" if H.MIDO_KEYS[name][0] != 0 else "G"
        ctx.count("key-name-sweep")
        ctx.check("load", {"ppq": 24, "target": 0, "groups": [[0]], "meta": [0], "tracks": [[
            (2, None, 0, None, None, None, None, None, None, other), (7, 0, 0, 60, 64, None, None, None, None, None),
            (2, None, 24, None, None, None, None, None, None, name), (6, 0, 24, 60, 0, None, None, None, None, None)]]})
    # the meta selection as a caller of the public loader gives it (seeded change C13_agent8): explicitly EMPTY, left out (None), non-empty —
    # on files with a conductor track (signatures, no notes, in no group) and sometimes an unused part with signatures of its own
    ctx.check("load", EMPTY_META_EXAMPLE)
    ctx.check("load", dict(EMPTY_META_EXAMPLE, meta=None))
    ctx.check("load", dict(EMPTY_META_EXAMPLE, meta=[0]))
    for i in range(ctx.n(40, 600)):
        ppq = rng.choice([24, 48, 96, 100, 384, 480, 960, 997])
        tracks, groups = gen_conductor_file(rng, ppq)
        nt = len(tracks)
        ctx.count("conductor-track-files")
        if any(not any(j in g for g in groups) for j in range(1, nt)):
            ctx.count("conductor-track-files:an-unused-part-in-no-group")
        sel = [j for j in range(nt) if rng.random() < 0.5] or [rng.randrange(nt)]
        for meta in ([], None, [0], sel):
            target = rng.choice([0, 0, len(groups) - 1])
            ctx.case((ppq, tracks, groups, meta, target), True)
            ctx.count("meta-selection:" + ("left-out(None)" if meta is None else "explicitly-empty" if not meta else "non-empty"))
            if foreign_signature_track(tracks, groups, meta):
                ctx.count("ungrouped-unselected-track-carries-a-signature")
            inp = {"ppq": ppq, "target": target, "tracks": tracks, "groups": groups, "meta": meta}
            ctx.check("load", inp)
            if i % 4 == 0 and not any(len(expected_tick(c_, ppq)) > 1 for t_ in tracks for c_ in _cums(t_)):
                if meta is None:
                    ctx.corr("convert", op_convert_default_meta(ppq, target, groups, tracks, ctx.scratch))
                else:
                    ctx.corr("convert", P.op_convert(ppq, target, groups, meta, tracks, ctx.scratch))
    for i in range(ctx.n(120, 2500)):
        ppq = rng.choice([1, 7, 24, 48, 96, 100, 480, 960, 997, 32767])
        nt = rng.randint(1, 4)
        long_ = rng.random() < 0.15
        zero_ = rng.random() < 0.15
        tracks = [gen_track(rng, ppq, rng.randint(0, 60 if long_ else 10), wf=rng.random() < 0.7, zero=zero_) for _ in range(nt)]
        if any(wf_violations([(0, (6 if (e[0] == 7 and e[4] == 0) else e[0], e[1], None, e[3])) for e in t if e[0] in (6, 7)]) for t in tracks):
            ctx.count("ill-formed-track")
        if rng.random() < 0.3:
            # the normal case of real files: every track starts with a time signature (sometimes a key) at tick 0 — the same or its own
            same = G.any_sig(rng) if rng.random() < 0.6 else None
            for t_ in tracks:
                n_, d_ = same or G.any_sig(rng)
                head = [(3, None, 0, None, None, None, None, n_, d_, None)]
                if rng.random() < 0.4:
                    head.append((2, None, 0, None, None, None, None, None, None, rng.choice(KEYNAMES)))
                t_[0:0] = head
            ctx.count("every-track-starts-with-a-signature-at-0:" + ("same" if same else "own"))
        idx = list(range(nt))
        mode = rng.random()
        if mode < 0.4:
            groups = [[j] for j in idx]
        elif mode < 0.6:
            groups = [idx]
        else:
            rng.shuffle(idx)
            cut = rng.randint(1, nt)
            used = idx[:cut]
            groups = []
            while used:
                kk = rng.randint(1, len(used))
                groups.append(sorted(used[:kk])); used = used[kk:]
        if nt > 1 and rng.random() < 0.15:
            # a track listed in two groups (D20's class): added to a group that does not list it yet, in front of or behind the group that does
            gi_ = rng.randrange(len(groups))
            extra = rng.randrange(nt)
            if extra not in groups[gi_]:
                groups[gi_] = sorted(groups[gi_] + [extra])
            if rng.random() < 0.4:
                groups.insert(rng.randint(0, len(groups)), [rng.randrange(nt)])
        meta = [j for j in range(nt) if rng.random() < 0.7] or [0]
        r_ = rng.random()
        if r_ < 0.12:
            meta = []             # explicitly empty: only the grouped tracks are considered
        elif r_ < 0.22:
            meta = None           # left out: the loader's default, every track
        ctx.count("meta-selection:" + ("left-out(None)" if meta is None else "explicitly-empty" if not meta else "non-empty"))
        if foreign_signature_track(tracks, groups, meta):
            ctx.count("ungrouped-unselected-track-carries-a-signature")
        target = rng.choice([0, 0, len(groups) - 1, rng.randint(-1, len(groups))])
        ctx.case((ppq, tracks, groups, meta, target), ppq != 24 or nt > 1)
        ctx.count("ppq:%d" % ppq)
        if not (0 <= target < len(groups)):
            ctx.count("bad-target")
        inp = {"ppq": ppq, "target": target, "tracks": tracks, "groups": groups, "meta": meta}
        ctx.check("load", inp)
        if i % 3 == 0 and len(tracks) >= 2:
            # one opened file, loaded repeatedly with different roles for its tracks
            nt = len(tracks)
            earlier = []
            for _ in range(rng.randint(1, 2)):
                g2 = [[j] for j in rng.sample(range(nt), rng.randint(1, nt))]
                earlier.append({"groups": g2, "meta": rng.sample(range(nt), rng.randint(1, nt)), "target": 0})
            ctx.count("opened-file-converted-again")
            ctx.check("load", dict(inp, earlier=earlier))
        # exact .5 ties: the code's accumulated doubles and the model's exact rationals may round differently there
        # (and only there), so those files are judged by the oracle alone (it accepts both neighbours)
        tie = False
        for t in tracks:
            cum = 0
            for e in t:
                cum += e[2]
                if len(expected_tick(cum, ppq)) > 1:
                    tie = True
        if zero_length_note(inp):
            ctx.count("zero-length-after-rounding(D17 class)")
        if shared_track(inp):
            ctx.count("track-in-two-groups(D20 class)")
        if tie:
            ctx.count("tie-skipped-correspondence")
        elif meta is None:
            ctx.corr("convert", op_convert_default_meta(ppq, target, groups, tracks, ctx.scratch))
        else:
            ctx.corr("convert", P.op_convert(ppq, target, groups, meta, tracks, ctx.scratch))
    # the parser, message by message: every mido kind the parser distinguishes, velocity 0, every key name mido accepts
    import mido.midifiles.meta as _meta
    names = sorted(set(_meta._key_signature_encode.keys())) if hasattr(_meta, "_key_signature_encode") else []
    names = [k for k in names if isinstance(k, str)] or ["C", "Am", "F#", "Ebm", "A#m", "Abm", "Cb", "C#"]
    for i in range(ctx.n(60, 600)):
        ty = rng.randrange(7)
        ctx.corr("parseMido", P.op_parseMido(ty, rng.choice([0, 1, 7, 480]), rng.choice([None, 0, 3, 15]), rng.randrange(128),
                                             rng.choice([0, 0, 1, 64, 127]), rng.choice([1, 3, 4, 12]), rng.choice([2, 4, 8, 16]),
                                             rng.choice(names), rng.randrange(128), rng.randrange(128), rng.randrange(128)))
        ctx.sample({"ppq": ppq, "groups": groups, "meta": meta, "target": target, "tracks": [t[:5] for t in tracks]})
