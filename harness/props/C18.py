"""C18 — pad, cut-off, integer scaling and channel assignment do exactly what they say."""
import gens as G
import h4seq_util as U
import pyimpl as P
from oracle_util import *  # noqa
from protocol import from_real

ID = "C18"
LEAN_MODULE = ["SCoda.Props.C18", "SCoda.Props.Notes", "SCoda.Props.Gaps", "SCoda.Props.WrapTie", "SCoda.Props.ViewTie", "SCoda.Props.AbsTie2", "SCoda.Props.SortTie"]
LEVEL = "proof"
CLAUSES = [
    ("pad: events untouched, duration = max(old, n)", ["SCoda.C18.pad_events", "SCoda.C18.pad_duration", "SCoda.C18.pad_ok"]),
    ("cutoff: non-note events and every onset untouched, result sorted, each loop step moves exactly a note-off paired more than m after its note-on to on+r",
     ["SCoda.C18.cutoff_others", "SCoda.C18.cutoff_note_ons", "SCoda.C18.cutoff_sorted", "SCoda.C18.cutoffGo_spec"]),
    ("cutoff at the level of notes: exactly the notes longer than m get duration r, every other note and every onset, pitch, channel, velocity unchanged "
     "(1 <= r <= m, notes of positive length)", ["SCoda.Notes.cutoff_notes"]),
    ("scale by integer k>=1: every onset, duration and the total duration multiplied by k, nothing else changes",
     ["SCoda.C18.scale_events", "SCoda.C18.scale_duration", "SCoda.C18.scale_notes"]),
    ("set_channel: channel of every event changed, nothing else", ["SCoda.C18.channel_events", "SCoda.C18.channel_duration"]),
    ("at the level of the Sequence wrapper (audit A17): from any state satisfying the wrapper invariant, pad / set_channel / scale(k, quantise_afterwards=False) / cutoff "
     "succeed, keep the invariant, and BOTH views show the content the list-level clauses describe; the wrapper methods themselves are the translated source "
     "(WrapTie); the default scale(k) is scale followed by quantise_and_normalise, for which 'durations x k' is refuted (k = 2: [0,30),[40,45) -> [0,36),[80,89), "
     "model and implementation agree); cutoff with r = 0 is refuted (note-off lands before its note-on) — recorded as finding D22",
     ["SCoda.Gaps.pad_seq", "SCoda.Gaps.setChannel_seq", "SCoda.Gaps.scale_seq", "SCoda.Gaps.cutoff_seq", "SCoda.Gaps.scale_default_eq",
      "SCoda.Gaps.scale_default_statement_false", "SCoda.Gaps.cutoff_r0_statement_false",
      "SCoda.WrapTie.pad_eq", "SCoda.WrapTie.setChannel_eq", "SCoda.WrapTie.scale_eq", "SCoda.WrapTie.cutoff_eq"]),
    ("TIE BY TRANSLATION, view level: RelativeSequence.pad, set_channel and scale (integer factor >= 1) as re-translated from the source on every run equal the models "
     "the clauses above are about (cutoff stores through an alias and stays tied by correspondence)",
     ["SCoda.ViewTie.pad_eq", "SCoda.ViewTie.setChannel_eq", "SCoda.ViewTie.scaleRel_eq"]),
    ('TIE BY TRANSLATION, absolute view with object identity: the dict-heavy / aliasing methods of AbsoluteSequence are re-translated statement by statement on every run (Gen/AbsFns2.lean, tools/py2lean_abs2.py: Message objects live in a heap, a reference is a position tag, stores through any alias update the heap cell, dicts are insertion-ordered association lists, while loops carry proved fuel bounds) and proved equal to the hand models, for every heap and reference list with references into the heap and channels not None: cutoff = the model cutoff (the result references are a permutation of the input) for pairwise distinct objects — with the same note-off object twice in the list the code shortens both occurrences where the value model shortens one (replayed; excluded by Nodup)',
     ["SCoda.AbsTie2.cutoff_eq", "SCoda.AbsTie2.cutoff_init", "SCoda.AbsTie2.pairings_eq"]),
    ("TIE BY TRANSLATION of the sort that every absolute-view operation goes through: AbsoluteSequence.sort (its list.sort call and the key lambda (time, -1 if channel is None else channel, message_type, note)), MessageType.__lt__ and the declaration order of the enum members are re-translated expression by expression on every run (Gen/SortFns.lean, tools/py2lean_sort.py; Python's == and < on None / int / enum members, tuple comparison, list.index and list.sort are the language model Model/SortLib.lean) and proved equal to the hand model: on every message list whose keys Python can compare (the times are all None or all ints; two messages equal in (time, channel, type) have both notes None or both ints) the translated sort returns exactly sortAbs l, through any projection (heap references, tagged messages); outside that domain it raises TypeError, as the real code does (replayed: a NOTE_ON with a note and a hand-built NOTE_ON without one on the same tick and channel; a message without a time in a timed sequence; two TIME_SIGNATUREs on one tick and channel are inside the domain); keyLe a b holds iff key(b) < key(a) is False; Python's key order is a strict weak order on the domain and ANY stable sort by it (a permutation that is sorted and keeps the relative order of equal keys) is sortAbs l — modelling CPython's timsort by an insertion sort is a theorem, the one assumption left is that list.sort is a stable comparison sort. This discharges the list.sort links of tools/py2lean.py (sort -> sortAbs) and tools/py2lean_abs2.py (sortRefs), which until now were only fingerprinted (tools/conventions.py)",
     ["SCoda.SortTie.sort_eq", "SCoda.SortTie.sortOf_eq_isort", "SCoda.SortTie.sort_raises", "SCoda.SortTie.sortOf_raises", "SCoda.SortTie.sort_ok_iff", "SCoda.SortTie.keyLe_iff", "SCoda.SortTie.keyLt_eq", "SCoda.SortTie.keyLt_ok_iff_comparable", "SCoda.SortTie.messageTypeLt_eq", "SCoda.SortTie.messageTypeLt_nonmember", "SCoda.SortTie.members_eq", "SCoda.SortTie.memberNames_eq", "SCoda.SortTie.generated_order_strictWeakOrder", "SCoda.SortTie.any_stable_sort_eq_sortAbs", "SCoda.SortTie.stable_sort_is_isortBy", "SCoda.SortTie.isortBy_is_stable_sort", "SCoda.SortTie.sortDom_of_wellFormed", "SCoda.SortTie.sortRefs_discharged", "SCoda.SortTie.viewSort_discharged", "SCoda.SortTie.sort_eq_statement_false", "SCoda.SortTie.keyLe_iff_statement_false"]),
]
RULE = ("well-formed multi-channel sequences (<=8 notes, ticks<200) x n in {below, at, above duration} / (m, r<=m) / k in 1..8 / "
        "channel 0..15; cutoff also on lists whose same-tick messages are stored in random order; all four operations and the default call "
        "scale(k) through the Sequence wrapper from every wrapper state (rel, abs, both, stale-rel, stale-abs, churned, an absolute list given "
        "or entered message by message with shuffled ties), both views read off the object itself in either order; "
        "HISTORIES of two to four of the operations on one object with nothing in between (pad -> scale, pad -> set_channel -> scale, scale -> pad, "
        "cutoff -> pad -> scale, ...; paddings of several whole notes beyond the duration, k >= 2), judged against the composition of the plain-data "
        "expectations; non-trivial = at least one note and for cutoff a note longer than m")
ASSUMPTIONS = ["models: SCoda.pad, SCoda.cutoff, SCoda.scaleRel, SCoda.setChannel, tied by correspondence"]


D25_STORED = None
WRAP_STATES = ["rel", "abs", "both", "stale-rel", "stale-abs", "churned", "abs-given", "abs-insort"]
OBS = " ## observed="


def _strip(m):
    """a plain message without its time (so that absolute and relative messages of the same event compare equal)"""
    return tuple(-1 if x is None else x for x in (m[0], m[1]) + tuple(m[3:]))


def _events(timed):
    return sorted((t,) + _strip(m) for t, m in timed)


def _canon(a):
    return sorted(a, key=lambda m: (m[2], m[1], m[0], -1 if m[3] is None else m[3]))


def _with_obs(text, observed):
    """failure detail = prose + the observed plain data (known-finding predicates judge the OUTCOME from it)"""
    import json
    return text + OBS + json.dumps(observed)


def observed_of(f):
    import json
    d = f.get("detail") or ""
    if OBS not in d:
        return None
    try:
        return json.loads(d.split(OBS, 1)[1])
    except Exception:
        return None


def cutoff_expect(timed, m_, r):
    """`timed`: (tick, msg) of a well-formed list in canonical order.  Returns (expected notes by the property text, the timed events with
    exactly the note-offs of the notes longer than m re-timed to on + r): harness-side re-implementation of the property text"""
    open_, out = {}, []
    for t, m in timed:
        if m[TY] == ON:
            open_[(m[CH], m[NOTE])] = t
            out.append((t, m))
        elif m[TY] == OFF and (m[CH], m[NOTE]) in open_:
            on = open_.pop((m[CH], m[NOTE]))
            out.append((on + r if t - on > m_ else t, m))
        else:
            out.append((t, m))
    exp_notes = sorted((c, p, on, (on + r if off - on > m_ else off), v) for (c, p, on, off, v) in notes_of(timed))
    return exp_notes, out


def o_pad(inp):
    rel = [tuple(m) for m in inp["rel"]]
    n = inp["n"]
    s = P.mk_rel(rel)
    s.pad(n)
    out = [from_real(m) for m in s._messages]
    tin, din = rel_timed(rel)
    tout, dout = rel_timed(out)
    fails = []
    if tin != tout:
        fails.append(("pad-events", "events changed"))
    if dout != max(din, n):
        fails.append(("pad-duration", f"duration {dout}, expected max({din},{n})"))
    return fails


def o_cutoff(inp):
    a = [tuple(m) for m in inp["abs"]]
    m_, r = inp["m"], inp["r"]
    pre, _ = abs_timed(_canon(a))       # expectations are read off the canonical order, whatever order the ties were entered in
    if wf_violations(pre) or any(on >= off for (_, _, on, off, _) in notes_of(pre)) or not (0 <= r <= m_):
        return [("~skip:outside-domain", "")]
    s = P.mk_abs(a)
    s.cutoff(m_, r)
    out = [from_real(x) for x in s._messages]
    tout, _ = abs_timed(out)
    exp, exp_timed = cutoff_expect(pre, m_, r)
    got = sorted(notes_of(sorted(tout, key=lambda x: x[0])))
    fails = []
    # pair notes by (ch, pitch, on): durations as expected
    if exp != got:
        fails.append(("cutoff-notes", _with_obs(f"expected {exp}, got {got}", _events(tout))))
    if non_note(pre) != non_note(tout):
        fails.append(("cutoff-others", "non-note events changed"))
    if [m[TIME] for m in out] != sorted(m[TIME] for m in out):
        fails.append(("cutoff-sorted", f"result not sorted by time: {[m[TIME] for m in out][:12]}"))
    if [m for m in out if m[TY] == INTERNAL] != [m for m in a if m[TY] == INTERNAL]:
        fails.append(("cutoff-others", "the INTERNAL cap changed"))
    return fails


def o_scale(inp):
    rel = [tuple(m) for m in inp["rel"]]
    k = inp["k"]
    observed = None
    fails = []
    if inp.get("aliased"):
        # the content is `rel` repeated; every message OBJECT occurs that often (what `s.concatenate([p, p])` builds: known finding D24b);
        # the result is read off the object's own relative list (no copy: a copy would give every occurrence its own object)
        reps = inp["aliased"]
        sq = P.seq_aliased(rel, reps)
        rel = rel * reps
        sq.scale(k, quantise_afterwards=False)
        out = [from_real(m) for m in sq.rel._messages]
        observed = out
    elif inp.get("default_call"):
        # `seq.scale(k)` as a caller writes it: quantise_afterwards defaults to True (known finding D25).  What that call has to return is taken
        # from the LEAN HAND MODEL of the wrapper (audit round 4, A5 / B4: h4seq_util.model_scale_default asks the compiled driver for
        # `scale k true; readRel` on the generator's relative list) — tied to the source by proofs and correspondence, but not the code under
        # test, so a library whose quantise / quantise_note_lengths / normalise / default tables changed no longer matches it.
        # Kept as a second, purely RELATIONAL clause: the call equals scale(k, quantise_afterwards=False) followed by quantise_and_normalise() on
        # a second object (both sides run the library, so this says nothing about what those functions compute)
        sq = P.seq_in_state(rel, inp.get("state", "rel"))
        sq.scale(k)
        out = [from_real(m) for m in sq.rel._messages]
        out_abs = [from_real(m) for m in sq.abs._messages]
        got = (_events(rel_timed(out)[0]), rel_timed(out)[1])
        ref = P.seq_of_rel([(m[0], m[1], m[2] * k) + tuple(m[3:]) if m[0] == WAIT else m for m in rel])
        ref.quantise_and_normalise()
        ref_rel = [from_real(m) for m in ref.rel._messages]
        if got != (_events(rel_timed(ref_rel)[0]), rel_timed(ref_rel)[1]):
            fails.append(("scale-default", f"scale({k}) is not scale({k}, quantise_afterwards=False) followed by quantise_and_normalise(): "
                          f"got {out[:8]}, the two calls give {ref_rel[:8]}"))
        if (_events(abs_timed(out_abs)[0]), abs_timed(out_abs)[1] if out_abs else 0) != got:
            fails.append(("scale-default", f"after scale({k}) the two views differ"))
        model = U.model_scale_default(rel, k)
        observed = {"events": [list(e) for e in got[0]], "duration": got[1],
                    "equals_hand_model": model is not None and model[0] != "ERR" and (sorted(model[0]), model[1]) == (sorted(got[0]), got[1])}
    else:
        s = P.mk_rel(rel)
        s.scale(k)
        out = [from_real(m) for m in s._messages]
    tin, din = rel_timed(rel)
    tout, dout = rel_timed(out)
    exp = [(t * k, m) for t, m in tin]
    # (after the default call the result went through a sort: same-tick events may come in another order, which is not an event change)
    if (exp != tout) if not inp.get("default_call") else (_events(exp) != _events(tout)):
        fails.append(("scale-events", _with_obs("events are not the originals at k times their tick", observed)))
    if dout != din * k:
        fails.append(("scale-duration", _with_obs(f"duration {dout}, expected {din * k}", observed)))
    if not all_int_times(out):
        fails.append(("scale-int", "non-integer tick after integer scaling"))
    return fails


def o_channel(inp):
    rel = [tuple(m) for m in inp["rel"]]
    c = inp["c"]
    s = P.mk_rel(rel)
    s.set_channel(c)
    out = [from_real(m) for m in s._messages]
    exp = [(m[0], c) + tuple(m[2:]) for m in rel]
    return [] if out == exp else [("channel", "set_channel changed something other than the channel")]


def _build(inp):
    """a Sequence in the wrapper state asked for, built from the input's plain data only; returns (sequence, timed events, duration, canonical
    relative list): the content is given EITHER as a relative list (`rel`, states of pyimpl.seq_in_state) OR as an absolute list whose same-tick
    messages are in any order (`abs`; 'abs-given': handed to the constructor as it is, 'abs-insort': entered message by message)"""
    from scoda.sequences.sequence import Sequence
    state = inp["state"]
    if inp.get("abs") is not None:
        a = [tuple(m) for m in inp["abs"]]
        s = Sequence(absolute_sequence=P.mk_abs(a)) if state == "abs-given" else P.seq_of_abs_insort(a)
        tin, din = abs_timed(_canon(a))
        return s, tin, din, G.abs_to_rel(_canon(a))
    rel = [tuple(m) for m in inp["rel"]]
    tin, din = rel_timed(rel)
    return P.seq_in_state(rel, state), tin, din, rel


def o_wrapper(inp):
    """the four operations (and the default call of scale) through the Sequence wrapper, from every freshness state, observed through BOTH
    views of the object itself (read directly, in either order, on two identically built objects — not through copy())"""
    op, args, state = inp["op"], inp["args"], inp["state"]
    fails = []
    for order in ("abs-first", "rel-first"):
        try:
            s, tin, din, rel = _build(inp)
        except Exception as e:
            return [("~skip:state-not-constructible", f"{type(e).__name__}")]
        exp_notes = None
        try:
            if op == "pad":
                s.pad(args[0]); exp_t, exp_d = tin, max(din, args[0])
            elif op == "scale":
                s.scale(args[0], quantise_afterwards=False); exp_t, exp_d = [(t * args[0], m) for t, m in tin], din * args[0]
            elif op == "channel":
                s.set_channel(args[0]); exp_t, exp_d = [(t, (m[0], args[0]) + tuple(m[2:])) for t, m in tin], din
            elif op == "cutoff":
                m_, r = args
                canon = sorted(tin, key=lambda x: (x[0], x[1][1], x[1][0], -1 if x[1][3] is None else x[1][3]))
                if wf_violations(canon) or any(on >= off for (_, _, on, off, _) in notes_of(canon)) or not (0 <= r <= m_):
                    return [("~skip:outside-domain", "")]
                s.cutoff(m_, r)
                exp_notes, exp_t = cutoff_expect(canon, m_, r)
                # the duration: the property does not mention it; what must hold is that it is the last tick anything is left on (the end of the
                # trailing rest, if the content had one, else the last event)
                has_cap = (inp.get("abs") is not None and any(m[0] == INTERNAL for m in inp["abs"])) or \
                          (inp.get("abs") is None and len(rel) > 0 and rel[-1][0] == WAIT)
                exp_d = max([t for t, _ in exp_t] + ([din] if has_cap else []) + [0])
            elif op == "scale-default":
                k = args[0]
                s.scale(k)
                # what scale(k) with the default flag returns: the Lean hand model's answer on the generator's list (see o_scale; audit round 4)
                model = U.model_scale_default(rel, k)
                if model is None or model[0] == "ERR":
                    return [("~skip:no-model-answer", "")]
                exp_t, exp_d = [(e[0], (e[1], e[2], None) + tuple(None if x == -1 else x for x in e[3:])) for e in model[0]], model[1]
            else:
                return [("~skip:unknown-op", op)]
        except Exception as e:
            return [("wrapper-raises", f"{op} from state {state}: {type(e).__name__}: {e}")]
        views = {}
        try:
            for view in (("abs", "rel") if order == "abs-first" else ("rel", "abs")):
                if view == "abs":
                    msgs = [from_real(m) for m in s.abs._messages]
                    views["abs"] = abs_timed(msgs) + (msgs,)
                else:
                    msgs = [from_real(m) for m in s.rel._messages]
                    views["rel"] = rel_timed(msgs) + (msgs,)
        except Exception as e:
            return [("wrapper-raises", f"reading after {op} from state {state}: {type(e).__name__}: {e}")]
        for view in ("abs", "rel"):
            got_t, got_d, msgs = views[view]
            if _events(got_t) != _events(exp_t):
                fails.append((f"{op}-wrapper", _with_obs(f"{op}{args} from state '{state}': the {view} view (read {order}) does not show the effect: "
                                                         f"expected {_events(exp_t)[:8]}, got {_events(got_t)[:8]}", _events(got_t))))
            if exp_notes is not None and sorted(notes_of(got_t)) != exp_notes:
                # the notes a reader pairs off the view in its stored order (for r = 0 the note-off sits before its note-on: D22)
                fails.append(("cutoff-wrapper-notes", _with_obs(f"cutoff{args} from state '{state}': the {view} view (read {order}) pairs into notes "
                                                                f"{sorted(notes_of(got_t))}, expected {exp_notes}", _events(got_t))))
            if got_d != exp_d:
                fails.append((f"{op}-wrapper-duration", f"{op}{args} from state '{state}': duration {got_d} through the {view} view (read {order}), expected {exp_d}"))
            if not all_int_times(msgs):
                fails.append((f"{op}-wrapper-int", f"{op}{args} from state '{state}': non-integer tick in the {view} view"))
        if fails:
            break
    return fails


WHOLE_NOTE = 4 * 24        # four quarter notes at the library's 24 ticks per quarter note (settings.PPQN), written down here on purpose
HISTORY_OPS = ("pad", "scale", "channel", "cutoff")


def compose_step(op, args, timed, dur, has_cap):
    """the property text's effect of ONE operation on plain content (timed events, duration, does the content end in a rest): what the
    single-operation clauses of `o_wrapper` expect, as a function so that it can be composed along a history.  None = outside the text's domain
    (cut-off on ill-formed notes / r not in 1..m)"""
    if op == "pad":
        return timed, max(dur, args[0]), has_cap or args[0] > dur
    if op == "scale":
        return [(t * args[0], m) for t, m in timed], dur * args[0], has_cap
    if op == "channel":
        return [(t, (m[0], args[0]) + tuple(m[2:])) for t, m in timed], dur, has_cap
    if op == "cutoff":
        m_, r = args
        canon = sorted(timed, key=lambda x: (x[0], x[1][1], x[1][0], -1 if x[1][3] is None else x[1][3]))
        if wf_violations(canon) or any(on >= off for (_, _, on, off, _) in notes_of(canon)) or not (1 <= r <= m_):
            return None
        _, out = cutoff_expect(canon, m_, r)
        return out, max([t for t, _ in out] + ([dur] if has_cap else []) + [0]), has_cap
    return None


def run_step(s, op, args):
    if op == "pad":
        s.pad(args[0])
    elif op == "scale":
        s.scale(args[0], quantise_afterwards=False)
    elif op == "channel":
        s.set_channel(args[0])
    elif op == "cutoff":
        s.cutoff(args[0], args[1])
    else:
        raise ValueError(op)


def o_wrapper_history(inp):
    """OBJECT HISTORIES (seeded change C18_agent8): two to four of the property's operations one after the other on the SAME Sequence, nothing
    else in between (no read, no copy: whatever the first operation left inside the object is what the second one works on), then both views of
    the object itself, read directly in either order.  Expected: the composition of the plain-data expectations of the single operations
    (`compose_step`), from the generator's plain data."""
    steps = [(st[0], list(st[1])) for st in inp["steps"]]
    if not steps or any(op not in HISTORY_OPS for op, _ in steps):
        return [("~skip:unknown-op", "")]
    label = " -> ".join(f"{op}{args}" for op, args in steps)
    fails = []
    for order in ("abs-first", "rel-first"):
        try:
            s, tin, din, rel = _build(inp)
        except Exception as e:
            return [("~skip:state-not-constructible", f"{type(e).__name__}")]
        has_cap = (inp.get("abs") is not None and any(m[0] == INTERNAL for m in inp["abs"])) or \
                  (inp.get("abs") is None and len(rel) > 0 and rel[-1][0] == WAIT)
        # a cap that is not BEYOND the last event (an INTERNAL message on the tick of the last event, a trailing wait of 0) is no trailing rest: it
        # survives in the absolute view as long as that view is not re-derived from the relative one, and the text says nothing about the duration
        # after a cut-off — either reading of it is accepted (found on the unchanged tree: pad(175) -> cutoff(1, 1) on a list capped on its last tick)
        caps = [True, False] if has_cap and din <= max([t for t, _ in tin] + [0]) else [has_cap]
        exps = []
        for cap in caps:
            exp = (tin, din, cap)
            for op, args in steps:
                exp = compose_step(op, args, *exp)
                if exp is None:
                    return [("~skip:outside-domain", "")]
            exps.append(exp)
        exp_t, exp_ds = exps[0][0], sorted({e[1] for e in exps})
        try:
            for op, args in steps:
                run_step(s, op, args)
        except Exception as e:
            return [("history-raises", f"{label} from state {inp['state']}: {type(e).__name__}: {e}")]
        views = {}
        try:
            for view in (("abs", "rel") if order == "abs-first" else ("rel", "abs")):
                if view == "abs":
                    msgs = [from_real(m) for m in s.abs._messages]
                    views["abs"] = abs_timed(msgs) + (msgs,)
                else:
                    msgs = [from_real(m) for m in s.rel._messages]
                    views["rel"] = rel_timed(msgs) + (msgs,)
        except Exception as e:
            return [("history-raises", f"reading after {label} from state {inp['state']}: {type(e).__name__}: {e}")]
        for view in ("abs", "rel"):
            got_t, got_d, msgs = views[view]
            if _events(got_t) != _events(exp_t):
                fails.append(("history-events", _with_obs(f"{label} from state '{inp['state']}': the {view} view (read {order}) does not show the composed "
                                                          f"effect: expected {_events(exp_t)[:8]}, got {_events(got_t)[:8]}", _events(got_t))))
            if got_d not in exp_ds:
                fails.append(("history-duration", f"{label} from state '{inp['state']}': duration {got_d} through the {view} view (read {order}), "
                                                  f"expected {' or '.join(map(str, exp_ds))}"))
            if not all_int_times(msgs):
                fails.append(("history-int", f"{label} from state '{inp['state']}': non-integer tick in the {view} view"))
        if fails:
            break
    return fails


HISTORY_SHAPES = [("pad", "scale"), ("pad", "scale"), ("pad", "channel", "scale"), ("scale", "pad"), ("cutoff", "pad", "scale"), ("pad", "pad", "scale"),
                  ("channel", "pad", "scale"), ("scale", "pad", "scale"), ("pad", "cutoff"), ("pad", "scale", "cutoff"), ("pad", "scale", "pad"),
                  ("cutoff", "scale"), ("pad", "channel"), ("pad", "scale", "channel", "scale")]


def gen_history_steps(rng, timed, dur, has_cap):
    """2-4 operations with concrete arguments; the paddings reach SEVERAL WHOLE NOTES beyond the duration the content has at that point of the
    history (tracked on plain data with `compose_step`), the scalings are by k >= 2 most of the time"""
    steps, cur = [], (timed, dur, has_cap)
    for op in rng.choice(HISTORY_SHAPES):
        d = cur[1]
        if op == "pad":
            args = [rng.choice([d + rng.randint(2, 4) * WHOLE_NOTE + rng.choice([0, 0, 1, 30, 95]), d + rng.randint(2, 4) * WHOLE_NOTE,
                                d + WHOLE_NOTE + rng.randint(0, 95), d + rng.randint(1, 400), max(0, d - 1), d])]
        elif op == "scale":
            args = [rng.choice([2, 2, 3, 3, 4, 8, 1])]
        elif op == "channel":
            args = [rng.randrange(16)]
        else:
            m_ = rng.choice([1, 5, 12, 24, 40])
            args = [m_, rng.randint(1, m_)]
        steps.append([op, args])
        nxt = compose_step(op, args, *cur)
        cur = nxt if nxt is not None else cur
    return steps


def setup(ctx):
    ctx.oracle("wrapper", o_wrapper)
    ctx.oracle("wrapper-history", o_wrapper_history)
    ctx.oracle("pad", o_pad)
    ctx.oracle("cutoff", o_cutoff)
    ctx.oracle("scale", o_scale)
    ctx.oracle("channel", o_channel)

    def kf_d22(f):
        # cutoff with a replacement length of 0: every shortened note has its note-off ON the tick of its note-on and the sort puts it before
        # the note-on.  Known only when the OUTCOME is exactly that: the observed timed events are the input's with precisely the note-offs of
        # the notes longer than m moved to their onsets and nothing else changed (a version that cuts to m instead, or moves another message,
        # is not this finding)
        inp = f["input"]
        if f["oracle"] == "cutoff" and f["clause"] == "cutoff-notes" and inp["r"] == 0:
            timed = abs_timed(_canon([tuple(m) for m in inp["abs"]]))[0]
            m_ = inp["m"]
        elif f["oracle"] == "wrapper" and f["clause"] == "cutoff-wrapper-notes" and inp["op"] == "cutoff" and inp["args"][1] == 0:
            if inp.get("abs") is not None:
                timed = abs_timed(_canon([tuple(m) for m in inp["abs"]]))[0]
            else:
                timed = rel_timed([tuple(m) for m in inp["rel"]])[0]
                timed = sorted(timed, key=lambda x: (x[0], x[1][1], x[1][0], -1 if x[1][3] is None else x[1][3]))
            m_ = inp["args"][0]
        else:
            return False
        obs = observed_of(f)
        _, pred = cutoff_expect(timed, m_, 0)
        moved = any(t2 != t1 for (t1, _), (t2, _) in zip(timed, pred))
        return obs is not None and moved and [list(x) for x in _events(pred)] == [list(x) for x in obs]
    ctx.kf_predicates["D22"] = kf_d22

    def kf_d24b(f):
        # scale on a sequence whose message objects occur n times: known only for the two clauses the sharing breaks, and only when the outcome
        # is the per-occurrence effect — every wait multiplied by k once per occurrence (k ** n), every other message untouched
        inp = f["input"]
        if not (f["oracle"] == "scale" and inp.get("aliased") and inp["aliased"] >= 2 and f["clause"] in ("scale-events", "scale-duration")):
            return False
        n, k = inp["aliased"], inp["k"]
        pred = [list((m[0], m[1], m[2] * k ** n) + tuple(m[3:])) if m[0] == WAIT else list(m) for m in [tuple(x) for x in inp["rel"]] * n]
        return k > 1 and observed_of(f) == pred
    ctx.kf_predicates["D24b"] = kf_d24b

    def kf_d25(f):
        # the default call scale(k) re-quantises and normalises afterwards: known only for the literal 'x k' clauses and only when the OUTCOME is
        # the one the finding describes — the observed events and duration are exactly what the LEAN HAND MODEL computes for scale(k) with the
        # default flag on the generator's list (audit round 4, A5 / B4: no longer the library's own quantise_and_normalise); for the recorded
        # example the events stored in known_findings.json are compared as well
        obs = observed_of(f)
        if not (f["oracle"] == "scale" and bool(f["input"].get("default_call")) and f["clause"] in ("scale-events", "scale-duration")
                and isinstance(obs, dict) and obs.get("equals_hand_model") is True):
            return False
        if [list(m) for m in f["input"]["rel"]] == [list(m) for m in D25_EXAMPLE["rel"]] and f["input"]["k"] == D25_EXAMPLE["k"]:
            return [obs["events"], obs["duration"]] == D25_STORED
        return True
    ctx.kf_predicates["D25"] = kf_d25
    import json as _json
    import os as _os
    global D25_STORED
    with open(_os.path.join(_os.path.dirname(_os.path.dirname(_os.path.dirname(_os.path.abspath(__file__)))), "known_findings.json")) as _f:
        D25_STORED = next(x for x in _json.load(_f)["findings"] if x["id"] == "D25").get("example_observed_events")


D24B_EXAMPLE = {"rel": [G.pm(ON, 0, None, note=60, vel=64), G.pm(WAIT, 0, 12), G.pm(OFF, 0, None, note=60), G.pm(WAIT, 0, 12)], "k": 2, "aliased": 2}
D25_EXAMPLE = {"rel": [G.pm(ON, 0, None, note=60, vel=64), G.pm(WAIT, 0, 30), G.pm(OFF, 0, None, note=60), G.pm(WAIT, 0, 10),
                       G.pm(ON, 0, None, note=60, vel=64), G.pm(WAIT, 0, 5), G.pm(OFF, 0, None, note=60)], "k": 2, "default_call": True}
# note 60 [0,30) and [40,45); cutoff(10, 0)
D22_EXAMPLE = {"abs": G.notes_to_abs([(0, 60, 0, 30, 64), (0, 60, 40, 5, 64)]), "m": 10, "r": 0}


def generate(ctx):
    rng = ctx.rng
    ctx.check("scale", D24B_EXAMPLE)        # recorded instances of the known findings
    ctx.check("scale", D25_EXAMPLE)
    ctx.check("cutoff", D22_EXAMPLE)
    for i in range(ctx.n(150, 4000)):
        rel, notes = G.gen_wf_rel(rng)
        if rng.random() < 0.5:
            rel = G.unconsolidate(rng, rel)
            ctx.count("rel:unconsolidated")
        a, notes2 = G.gen_wf_abs(rng)
        if rng.random() < 0.4:
            a = G.shuffle_ties(rng, a)       # entered in another order: same-tick messages not in canonical order
            ctx.count("cutoff:ties-shuffled")
        _, dur = rel_timed(rel)
        n = rng.choice([0, max(0, dur - 1), dur, dur + 1, dur + rng.randint(1, 100), rng.randint(0, 300)])
        ctx.case(("pad", rel, n), len(notes) > 0)
        ctx.check("pad", {"rel": rel, "n": n})
        ctx.corr("pad", P.op_pad(n, rel))
        m_ = rng.choice([1, 5, 12, 24, 40])
        r = rng.randint(1, m_) if rng.random() < 0.9 else 0
        if r == 0:
            ctx.count("cutoff:r=0")
        ctx.case(("cutoff", a, m_, r), any(nt[3] > m_ for nt in notes2))
        ctx.check("cutoff", {"abs": a, "m": m_, "r": r})
        ctx.corr("cutoff", P.op_cutoff(m_, r, a))
        k = rng.randint(1, 8)
        ctx.case(("scale", rel, k), len(notes) > 0 and k > 1)
        ctx.check("scale", {"rel": rel, "k": k})
        ctx.corr("scaleRel", P.op_scaleRel(k, rel))
        if i % 4 == 0:
            # `seq.scale(k)` as callers write it (D25), from any wrapper state
            st = rng.choice(P.SEQ_STATES)
            ctx.count("scale:default-call")
            ctx.check("scale", {"rel": rel, "k": k, "default_call": True, "state": st})
        if i % 4 == 1:
            # message objects occurring 2 or 3 times (D24b)
            ctx.count("scale:aliased")
            ctx.check("scale", {"rel": rel, "k": rng.randint(1, 4), "aliased": rng.choice([2, 2, 3])})
        c = rng.randrange(16)
        ctx.case(("channel", rel, c), len(rel) > 0)
        ctx.check("channel", {"rel": rel, "c": c})
        ctx.corr("setChannel", P.op_setChannel(c, rel))
        # the same operations through the Sequence wrapper: all four (and the default call of scale) from a state drawn from ALL wrapper states;
        # the content is `rel`, or — for the two abs-* states — an absolute list with shuffled ties
        m2 = rng.choice([1, 5, 12, 24, 40])
        r2 = rng.randint(1, m2) if rng.random() < 0.9 else 0
        a2, notes3 = G.gen_wf_abs(rng)
        a2 = G.shuffle_ties(rng, a2)
        for op, args in (("pad", [n]), ("scale", [k]), ("channel", [c]), ("cutoff", [m2, r2]), ("scale-default", [rng.randint(1, 4)])):
            state = rng.choice(WRAP_STATES)
            ctx.count("wrapper:" + state)
            ctx.count("wrapper-op:" + op)
            if state.startswith("abs-"):
                inp = {"abs": a2, "op": op, "args": args, "state": state}
                if op == "pad":
                    d2 = max([m[2] for m in a2] + [0])
                    inp["args"] = [rng.choice([0, max(0, d2 - 1), d2, d2 + 1, d2 + rng.randint(1, 100)])]
            else:
                inp = {"rel": rel, "op": op, "args": args, "state": state}
            if op == "cutoff":
                ctx.case(("wrapper-cutoff", inp.get("abs", inp.get("rel")), m2, r2, state), True)
            ctx.check("wrapper", inp)
        # two to four operations on ONE object, nothing in between (seeded change C18_agent8): pad -> scale, pad -> set_channel -> scale, ...
        state = rng.choice(WRAP_STATES)
        if state.startswith("abs-"):
            hin = {"abs": a2, "state": state}
            t0, d0 = abs_timed(_canon(a2))
            cap0 = any(m[0] == INTERNAL for m in a2)
        else:
            hin = {"rel": rel, "state": state}
            t0, d0 = rel_timed(rel)
            cap0 = len(rel) > 0 and rel[-1][0] == WAIT
        hin["steps"] = gen_history_steps(rng, t0, d0, cap0)
        ctx.count("wrapper-history:" + "->".join(st[0] for st in hin["steps"]))
        ctx.count("wrapper-history")
        ctx.check("wrapper-history", hin)
        ctx.sample({"pad": n, "cutoff": [m_, r], "scale": k, "channel": c, "rel": rel[:6]})
    # complete table on a fixed content: every operation from every wrapper state
    base = G.notes_to_abs([(5, 60, 0, 30, 64), (5, 62, 24, 12, 80), (5, 60, 30, 6, 70)], extra=[G.pm(TIMESIG, 5, 0, num=3, den=4), G.pm(CC, 5, 24, vel=0, ctl=7)], cap=50)
    base_sh = list(reversed(base[:2])) + base[2:]       # the two tick-0 messages entered the other way round
    for state in WRAP_STATES:
        for op, args in (("pad", [0]), ("pad", [50]), ("pad", [77]), ("scale", [1]), ("scale", [3]), ("channel", [9]), ("cutoff", [10, 4]),
                         ("cutoff", [6, 6]), ("cutoff", [40, 1]), ("scale-default", [1]), ("scale-default", [2])):
            ctx.count("wrapper-table")
            if state.startswith("abs-"):
                ctx.check("wrapper", {"abs": base_sh, "op": op, "args": args, "state": state})
            else:
                ctx.check("wrapper", {"rel": G.abs_to_rel(base), "op": op, "args": args, "state": state})
    for state in WRAP_STATES:
        for steps in ([["pad", [50 + 2 * WHOLE_NOTE]], ["scale", [2]]], [["pad", [50 + 3 * WHOLE_NOTE + 30]], ["channel", [9]], ["scale", [3]]],
                      [["scale", [2]], ["pad", [100 + 2 * WHOLE_NOTE + 1]]], [["cutoff", [10, 4]], ["pad", [50 + 4 * WHOLE_NOTE]], ["scale", [2]]],
                      [["pad", [50 + WHOLE_NOTE + 30]], ["scale", [2]]], [["pad", [300]], ["cutoff", [10, 4]], ["scale", [2]]]):
            ctx.count("wrapper-history-table")
            if state.startswith("abs-"):
                ctx.check("wrapper-history", {"abs": base_sh, "state": state, "steps": steps})
            else:
                ctx.check("wrapper-history", {"rel": G.abs_to_rel(base), "state": state, "steps": steps})
    # exhaustive small scope: every relative list of <= 2 (quick) / <= 3 (thorough) messages x a few arguments
    for rel in G.enum_rel(3 if ctx.thorough else 2):
        ctx.count("small-scope")
        for n in (0, 1, 2, 5):
            ctx.check("pad", {"rel": rel, "n": n})
            ctx.corr("pad", P.op_pad(n, rel))
        for k in (1, 2, 3):
            ctx.check("scale", {"rel": rel, "k": k})
            ctx.corr("scaleRel", P.op_scaleRel(k, rel))
        ctx.check("channel", {"rel": rel, "c": 3})
        ctx.corr("setChannel", P.op_setChannel(3, rel))
