"""C18 — pad, cut-off, integer scaling and channel assignment do exactly what they say."""
import gens as G
import pyimpl as P
from oracle_util import *  # noqa
from protocol import from_real

ID = "C18"
LEAN_MODULE = ["SCoda.Props.C18", "SCoda.Props.Notes", "SCoda.Props.Gaps", "SCoda.Props.WrapTie", "SCoda.Props.ViewTie", "SCoda.Props.AbsTie2"]
LEVEL = "proof"
CLAUSES = [
    ("pad: events untouched, duration = max(old, n)", ["SCoda.C18.pad_events", "SCoda.C18.pad_duration", "SCoda.C18.pad_ok"]),
    ("cutoff: non-note events and every onset untouched, result sorted, each loop step moves exactly a note-off paired more than m after its note-on to on+r",
     ["SCoda.C18.cutoff_others", "SCoda.C18.cutoff_note_ons", "SCoda.C18.cutoff_sorted", "SCoda.C18.cutoffGo_spec"]),
    ("cutoff at the level of notes: exactly the notes longer than m get duration r, every other note and every onset, pitch, channel, velocity unchanged "
     "(1 <= r <= m, notes of positive length)", ["SCoda.Notes.cutoff_notes"]),
    ("scale by integer k>=1: every onset, duration and the total duration multiplied by k, nothing else changes",
     ["SCoda.C18.scale_events", "SCoda.C18.scale_duration", "SCoda.C18.scale_notes"]),
    ("set_channel: channel of every event changed, nothing else", ["SCoda.C18.channel_events", "SCoda.C18.channel_duration"]),
    ("at the level of the Sequence wrapper (audit A17): from any state satisfying the wrapper invariant, pad / set_channel / scale(k, quantise_afterwards=False) / cutoff "
     "succeed, keep the invariant, and BOTH views show the content the list-level clauses describe; the wrapper methods themselves are the translated source "
     "(WrapTie); the default scale(k) is scale followed by quantise_and_normalise, for which 'durations x k' is refuted (k = 2: [0,30),[40,45) -> [0,36),[80,89), "
     "model and implementation agree); cutoff with r = 0 is refuted (note-off lands before its note-on) — recorded as finding D22",
     ["SCoda.Gaps.pad_seq", "SCoda.Gaps.setChannel_seq", "SCoda.Gaps.scale_seq", "SCoda.Gaps.cutoff_seq", "SCoda.Gaps.scale_default_eq",
      "SCoda.Gaps.scale_default_statement_false", "SCoda.Gaps.cutoff_r0_statement_false",
      "SCoda.WrapTie.pad_eq", "SCoda.WrapTie.setChannel_eq", "SCoda.WrapTie.scale_eq", "SCoda.WrapTie.cutoff_eq"]),
    ("TIE BY TRANSLATION, view level: RelativeSequence.pad, set_channel and scale (integer factor >= 1) as re-translated from the source on every run equal the models "
     "the clauses above are about (cutoff stores through an alias and stays tied by correspondence)",
     ["SCoda.ViewTie.pad_eq", "SCoda.ViewTie.setChannel_eq", "SCoda.ViewTie.scaleRel_eq"]),
    ('TIE BY TRANSLATION, absolute view with object identity: the dict-heavy / aliasing methods of AbsoluteSequence are re-translated statement by statement on every run (Gen/AbsFns2.lean, tools/py2lean_abs2.py: Message objects live in a heap, a reference is a position tag, stores through any alias update the heap cell, dicts are insertion-ordered association lists, while loops carry proved fuel bounds) and proved equal to the hand models, for every heap and reference list with references into the heap and channels not None: cutoff = the model cutoff (the result references are a permutation of the input) for pairwise distinct objects — with the same note-off object twice in the list the code shortens both occurrences where the value model shortens one (replayed; excluded by Nodup)',
     ["SCoda.AbsTie2.cutoff_eq", "SCoda.AbsTie2.cutoff_init", "SCoda.AbsTie2.pairings_eq"]),
]
RULE = ("well-formed multi-channel sequences (<=8 notes, ticks<200) x n in {below, at, above duration} / (m, r<=m) / k in 1..8 / "
        "channel 0..15; non-trivial = at least one note and for cutoff a note longer than m")
ASSUMPTIONS = ["models: SCoda.pad, SCoda.cutoff, SCoda.scaleRel, SCoda.setChannel, tied by correspondence"]


def o_pad(inp):
    rel = [tuple(m) for m in inp["rel"]]
    n = inp["n"]
    s = P.mk_rel(rel)
    s.pad(n)
    out = [from_real(m) for m in s._messages]
    tin, din = rel_timed(rel)
    tout, dout = rel_timed(out)
    fails = []
    if tin != tout:
        fails.append(("pad-events", "events changed"))
    if dout != max(din, n):
        fails.append(("pad-duration", f"duration {dout}, expected max({din},{n})"))
    return fails


def o_cutoff(inp):
    a = [tuple(m) for m in inp["abs"]]
    m_, r = inp["m"], inp["r"]
    pre, _ = abs_timed(sorted(a, key=lambda m: (m[2], m[1], m[0], -1 if m[3] is None else m[3])))
    if wf_violations(pre) or any(on >= off for (_, _, on, off, _) in notes_of(pre)) or not (0 <= r <= m_):
        return [("~skip:outside-domain", "")]
    s = P.mk_abs(a)
    s.cutoff(m_, r)
    out = [from_real(x) for x in s._messages]
    tin, _ = abs_timed(a)
    tout, _ = abs_timed(out)
    exp = sorted((c, p, on, (on + r if off - on > m_ else off), v) for (c, p, on, off, v) in notes_of(tin))
    got = sorted(notes_of(sorted(tout, key=lambda x: x[0])))
    fails = []
    # pair notes by (ch, pitch, on): durations as expected
    if sorted(exp) != sorted(got):
        fails.append(("cutoff-notes", f"expected {exp}, got {got}"))
    if non_note(tin) != non_note(tout):
        fails.append(("cutoff-others", "non-note events changed"))
    return fails


def o_scale(inp):
    rel = [tuple(m) for m in inp["rel"]]
    k = inp["k"]
    if inp.get("aliased"):
        sq = P.seq_aliased(rel, inp["aliased"])         # the content is `rel` repeated; every message object occurs that often
        rel = rel * inp["aliased"]
        sq.scale(k, quantise_afterwards=False)
        out = P.content_of(sq)
    elif inp.get("default_call"):
        # `seq.scale(k)` as a caller writes it: quantise_afterwards defaults to True
        sq = P.seq_of_rel(rel)
        sq.scale(k)
        out = P.content_of(sq)
    else:
        s = P.mk_rel(rel)
        s.scale(k)
        out = [from_real(m) for m in s._messages]
    tin, din = rel_timed(rel)
    tout, dout = rel_timed(out)
    fails = []
    if [(t * k, m) for t, m in tin] != tout:
        fails.append(("scale-events", "events are not the originals at k times their tick"))
    if dout != din * k:
        fails.append(("scale-duration", f"duration {dout}, expected {din * k}"))
    if not all_int_times(out):
        fails.append(("scale-int", "non-integer tick after integer scaling"))
    return fails


def o_channel(inp):
    rel = [tuple(m) for m in inp["rel"]]
    c = inp["c"]
    s = P.mk_rel(rel)
    s.set_channel(c)
    out = [from_real(m) for m in s._messages]
    exp = [(m[0], c) + tuple(m[2:]) for m in rel]
    return [] if out == exp else [("channel", "set_channel changed something other than the channel")]


def o_wrapper(inp):
    """the same four operations through the Sequence wrapper, from each freshness state, observed through BOTH views"""
    from scoda.sequences.sequence import Sequence
    rel = [tuple(m) for m in inp["rel"]]
    op, args, state = inp["op"], inp["args"], inp["state"]
    s = P.seq_of_rel(rel)
    if state == "abs":
        s = Sequence(absolute_sequence=s.abs.copy())
    elif state == "both":
        s.refresh()
    tin, din = rel_timed(rel)
    try:
        if op == "pad":
            s.pad(args[0]); exp_t, exp_d = tin, max(din, args[0])
        elif op == "scale":
            s.scale(args[0], quantise_afterwards=False); exp_t, exp_d = [(t * args[0], m) for t, m in tin], din * args[0]
        elif op == "channel":
            s.set_channel(args[0]); exp_t, exp_d = [(t, (m[0], args[0]) + tuple(m[2:])) for t, m in tin], din
        else:
            return []
    except Exception as e:
        return [("wrapper-raises", f"{op} from state {state}: {type(e).__name__}: {e}")]
    fails = []
    key = lambda lst: sorted((t,) + tuple(-1 if x is None else x for x in (m[0], m[1]) + tuple(m[3:])) for t, m in lst)  # noqa
    for view in ("abs", "rel"):
        c = s.copy()
        if view == "abs":
            got_t, got_d = abs_timed([from_real(m) for m in c.abs._messages])
            if not c.abs._messages:
                got_d = 0
        else:
            got_t, got_d = rel_timed([from_real(m) for m in c.rel._messages])
        if key(got_t) != key(exp_t):
            fails.append((f"{op}-wrapper", f"{op}{args} from state '{state}': the {view} view does not show the effect"))
        if got_d != exp_d:
            fails.append((f"{op}-wrapper", f"{op}{args} from state '{state}': duration {got_d} through the {view} view, expected {exp_d}"))
    return fails


def setup(ctx):
    ctx.oracle("wrapper", o_wrapper)
    ctx.oracle("pad", o_pad)
    ctx.oracle("cutoff", o_cutoff)
    ctx.oracle("scale", o_scale)
    ctx.oracle("channel", o_channel)

    def kf_d22(f):
        # cutoff with a replacement length of 0: the shortened note has its note-off on the tick of its note-on
        return f["oracle"] == "cutoff" and f["clause"] == "cutoff-notes" and f["input"]["r"] == 0
    ctx.kf_predicates["D22"] = kf_d22

    def kf_d24b(f):
        return f["oracle"] == "scale" and bool(f["input"].get("aliased"))
    ctx.kf_predicates["D24b"] = kf_d24b

    def kf_d25(f):
        # the default call scale(k) re-quantises and normalises afterwards
        return f["oracle"] == "scale" and bool(f["input"].get("default_call")) and f["clause"] in ("scale-events", "scale-duration")
    ctx.kf_predicates["D25"] = kf_d25


D24B_EXAMPLE = {"rel": [G.pm(ON, 0, None, note=60, vel=64), G.pm(WAIT, 0, 12), G.pm(OFF, 0, None, note=60), G.pm(WAIT, 0, 12)], "k": 2, "aliased": 2}
D25_EXAMPLE = {"rel": [G.pm(ON, 0, None, note=60, vel=64), G.pm(WAIT, 0, 30), G.pm(OFF, 0, None, note=60), G.pm(WAIT, 0, 10),
                       G.pm(ON, 0, None, note=60, vel=64), G.pm(WAIT, 0, 5), G.pm(OFF, 0, None, note=60)], "k": 2, "default_call": True}


def generate(ctx):
    rng = ctx.rng
    ctx.check("scale", D24B_EXAMPLE)        # recorded instances of the known findings
    ctx.check("scale", D25_EXAMPLE)
    for i in range(ctx.n(150, 4000)):
        rel, notes = G.gen_wf_rel(rng)
        if rng.random() < 0.5:
            rel = G.unconsolidate(rng, rel)
            ctx.count("rel:unconsolidated")
        a, notes2 = G.gen_wf_abs(rng)
        _, dur = rel_timed(rel)
        n = rng.choice([0, max(0, dur - 1), dur, dur + 1, dur + rng.randint(1, 100), rng.randint(0, 300)])
        ctx.case(("pad", rel, n), len(notes) > 0)
        ctx.check("pad", {"rel": rel, "n": n})
        ctx.corr("pad", P.op_pad(n, rel))
        m_ = rng.choice([1, 5, 12, 24, 40])
        r = rng.randint(1, m_) if rng.random() < 0.9 else 0
        if r == 0:
            ctx.count("cutoff:r=0")
        ctx.case(("cutoff", a, m_, r), any(nt[3] > m_ for nt in notes2))
        ctx.check("cutoff", {"abs": a, "m": m_, "r": r})
        ctx.corr("cutoff", P.op_cutoff(m_, r, a))
        k = rng.randint(1, 8)
        ctx.case(("scale", rel, k), len(notes) > 0 and k > 1)
        ctx.check("scale", {"rel": rel, "k": k})
        ctx.corr("scaleRel", P.op_scaleRel(k, rel))
        c = rng.randrange(16)
        ctx.case(("channel", rel, c), len(rel) > 0)
        ctx.check("channel", {"rel": rel, "c": c})
        ctx.corr("setChannel", P.op_setChannel(c, rel))
        for op, args in (("pad", [n]), ("scale", [k]), ("channel", [c])):
            state = rng.choice(["rel", "abs", "both"])
            ctx.count("wrapper:" + state)
            ctx.check("wrapper", {"rel": rel, "op": op, "args": args, "state": state})
        ctx.sample({"pad": n, "cutoff": [m_, r], "scale": k, "channel": c, "rel": rel[:6]})
    # exhaustive small scope: every relative list of <= 2 (quick) / <= 3 (thorough) messages x a few arguments
    for rel in G.enum_rel(3 if ctx.thorough else 2):
        ctx.count("small-scope")
        for n in (0, 1, 2, 5):
            ctx.check("pad", {"rel": rel, "n": n})
            ctx.corr("pad", P.op_pad(n, rel))
        for k in (1, 2, 3):
            ctx.check("scale", {"rel": rel, "k": k})
            ctx.corr("scaleRel", P.op_scaleRel(k, rel))
        ctx.check("channel", {"rel": rel, "c": 3})
        ctx.corr("setChannel", P.op_setChannel(3, rel))

