"""C07 — normalise returns a well-formed sequence with the same duration and sound."""
import json

import gens as G
import h4seq_util as U
import pyimpl as P
from oracle_util import *  # noqa
from protocol import from_real

ID = "C07"
LEAN_MODULE = ["SCoda.Props.C07", "SCoda.Props.Gaps", "SCoda.Props.RelTie2", "SCoda.Props.WrapTie"]
LEVEL = "proof"
CLAUSES = [
    ("output is well-formed for every input (alternation, starts with on, ends with off)", ["SCoda.C07.wf_out"]),
    ("no time/key signature repeats the one in force, and every signature that changes the one in force is kept",
     ["SCoda.C07.no_repeat_ts", "SCoda.C07.no_repeat_ks", "SCoda.C07.ts_in_force", "SCoda.Gaps.ks_in_force"]),
    ("total duration unchanged; output is a legal relative view with positive waits", ["SCoda.C07.duration_eq", "SCoda.C07.ok_out"]),
    ("sounding set unchanged on paired input (overlaps fused); every kept event is an input event at its original tick; other events all kept",
     ["SCoda.C07.sound_eq", "SCoda.C07.events_sublist", "SCoda.C07.others_kept"]),
    ("normalising twice changes nothing observable", ["SCoda.C07.idempotent"]),
    ("TIE BY TRANSLATION: RelativeSequence.normalise_relative is re-translated statement by statement on every run (Gen/RelFns2.lean: dict-of-dict-of-list state as "
     "insertion-ordered association lists, message OBJECTS as (identity, value) pairs because the final clean-up uses `in` / `remove`, which are identity on Message) and "
     "proved equal to the model `normalise` the clauses above are about, for every input whose message objects are distinct and whose channels are not None; the call "
     "never raises, for any objects; with an object occurring twice the equality is refuted — that is known finding D24c; Sequence.normalise itself is the translated "
     "wrapper method",
     ["SCoda.RelTie2.normaliseRelative_eq", "SCoda.RelTie2.normaliseRelative_total", "SCoda.RelTie2.normaliseRelative_anyObjects_statement_false",
      "SCoda.RelTie2.normaliseRelative_anyChannel_statement_false", "SCoda.WrapTie.normalise_eq"]),
]
RULE = ("random relative sequences of <=12 (quick) / <=16 (thorough) messages over 2 channels and pitches {0,1,60,61} "
        "(pitches 0/1 collide with channel numbers), ill-formed on purpose, plus well-formed multi-channel sequences; "
        "non-trivial = contains at least one note-on and one of: re-trigger, orphan off, unclosed note, repeated signature")
ASSUMPTIONS = ["model: SCoda.normalise (Model/Normalise.lean), tied by translation (RelTie2.normaliseRelative_eq: channels not None, pairwise distinct objects) and by correspondence on the same inputs"]


def balanced(timed):
    depth = {}
    for t, m in timed:
        if m[TY] == ON:
            depth[(m[CH], m[NOTE])] = depth.get((m[CH], m[NOTE]), 0) + 1
        elif m[TY] == OFF:
            k = (m[CH], m[NOTE])
            if depth.get(k, 0) == 0:
                return False
            depth[k] -= 1
    return all(v == 0 for v in depth.values())


def run_normalise(rel):
    s = P.mk_rel(rel)
    s.normalise_relative()
    return [from_real(m) for m in s._messages]


OBS = " ## observed="


def normalise_objects(objs, first_occurrence_bug):
    """harness-side model of normalise_relative on a list of (object id, plain message): nested notes collapse to the outermost pair, orphan
    note-offs and repeated signatures go, waits are consolidated, and every note-on still open at the end is taken out again.  With
    `first_occurrence_bug` the last step removes the FIRST element that IS that object (what `list.remove` does when an object occurs twice:
    known finding D24c); without it, the element at the position where the unclosed note-on was kept."""
    open_, out = {}, []           # out: [position in objs or None, object id or None, message]
    wait, cur_ts, cur_key, default_ch = 0, None, None, None
    for pos, (oid, m) in enumerate(objs):
        if default_ch is None and m[CH] is not None:
            default_ch = m[CH]
        open_.setdefault(m[CH], {})
        if m[TY] == WAIT:
            wait += m[TIME]
            continue
        if m[TY] == ON:
            lst = open_[m[CH]].setdefault(m[NOTE], [])
            lst.append((pos, oid))
            if len(lst) != 1:
                continue
        elif m[TY] == OFF:
            lst = open_[m[CH]].get(m[NOTE], [])
            if not lst:
                continue
            lst.pop()
            if lst:
                continue
        elif m[TY] == TIMESIG:
            if (m[NUM], m[DEN]) == cur_ts:
                continue
            cur_ts = (m[NUM], m[DEN])
        elif m[TY] == KEYSIG:
            if m[KEY] == cur_key:
                continue
            cur_key = m[KEY]
        if wait > 0:
            out.append([None, None, G.pm(WAIT, m[CH], wait)])
            wait = 0
        out.append([pos, oid, m])
    if wait > 0:
        out.append([None, None, G.pm(WAIT, default_ch, wait)])
    for ch in open_:
        for note in open_[ch]:
            for (pos, oid) in open_[ch][note]:
                idx = next((i for i, x in enumerate(out) if (x[1] == oid if first_occurrence_bug else x[0] == pos) and x[1] is not None), None)
                if idx is not None:
                    del out[idx]
    return [x[2] for x in out]


def _aliased_objs(inp):
    parts = [[tuple(m) for m in p] for p in inp["aliased_parts"]]
    return [((i, j), m) for i in inp["order"] for j, m in enumerate(parts[i])]


def o_normalise(inp):
    rel = [tuple(m) for m in inp["rel"]]
    observed = None
    if inp.get("aliased_parts"):
        # R.concatenate([P, Q, P]): the message objects of P occur twice in R (known finding D24c); the result is read off R's own relative list
        parts = [[tuple(m) for m in p] for p in inp["aliased_parts"]]
        objs = [P.seq_of_rel(p) for p in parts]
        s = P.Sequence()
        s.concatenate([objs[i] for i in inp["order"]])
        rel = [m for i in inp["order"] for m in parts[i]]
        try:
            s.normalise()
        except Exception as e:
            return [("raises", f"{type(e).__name__}: {e}")]
        out = [from_real(m) for m in s.rel._messages]
        observed = [list(m) for m in out]
    elif inp.get("prelude") is not None:
        # the same Sequence object has a past (e.g. it was normalised before and edited since): judged against the content it has now — read
        # off a TWIN (same construction, same past) through its own relative view, which is the list normalise() is about to work on
        state = inp.get("state", "rel")
        a0, r0 = U.read_direct(P.seq_in_state(rel, state), "rel-first")
        if U.content_rel(r0) != U.content_rel(rel) or U.content_abs(a0) != U.content_rel(rel):
            return [("input-not-held", f"a Sequence built in state '{state}' from the generated list does not show that list's events and duration")]
        s, _ = P.seq_after_prelude(rel, state, inp["prelude"])
        twin, _ = P.seq_after_prelude(rel, state, inp["prelude"])
        try:
            rel = [from_real(m) for m in twin.rel._messages]
        except Exception:
            return [("~skip:prelude-left-it-unreadable", "")]
        try:
            s.normalise()
        except Exception as e:
            return [("raises", f"{type(e).__name__}: {e}")]
        out = [from_real(m) for m in s.rel._messages]
        try:
            out_abs = [from_real(m) for m in s.abs._messages]
        except Exception as e:
            return [("raises", f"reading the absolute view after normalise: {type(e).__name__}: {e}")]
        if U.content_abs(out_abs) != U.content_rel(out):
            return [("views", "after normalise() the two views of the Sequence differ")]
    else:
        out = run_normalise(rel)
    fails = []
    tin, din = rel_timed(rel)
    tout, dout = rel_timed(out)
    obs = (lambda t: t) if observed is None else (lambda t: t + OBS + json.dumps(observed))
    bad = wf_violations(tout)
    if bad:
        fails.append(("wf", obs(f"output not well-formed: {bad[:3]}")))
    cur_ts, cur_ks = None, None
    for t, m in tout:
        if m[TY] == TIMESIG:
            if (m[NUM], m[DEN]) == cur_ts:
                fails.append(("no-repeat", f"time signature {cur_ts} repeated at {t}"))
            cur_ts = (m[NUM], m[DEN])
        elif m[TY] == KEYSIG:
            if m[KEY] == cur_ks:
                fails.append(("no-repeat", f"key signature {cur_ks} repeated at {t}"))
            cur_ks = m[KEY]
    if din != dout:
        fails.append(("duration", f"duration {din} -> {dout}"))
    if balanced(tin):
        if sounding(tin) != sounding(tout):
            fails.append(("sound", obs(f"sounding set changed: {sounding(tin)} -> {sounding(tout)}")))
        twice = run_normalise(out)     # (a fresh object: idempotence of the function, not of a flagged object)
        # observable content: the timed events and the duration (the channel written on a
        # consolidated wait message is not musical content)
        if rel_timed(twice) != rel_timed(out):
            fails.append(("idempotent", obs("second normalise changed the timed events or the duration")))
    return fails


D24C_EXAMPLE = {"rel": [], "aliased_parts": [[G.pm(ON, 0, None, note=60, vel=64)], [G.pm(WAIT, 0, 4), G.pm(OFF, 0, None, note=60)]], "order": [0, 1, 0]}


def setup(ctx):
    ctx.oracle("normalise", o_normalise)

    def kf_d24c(f):
        # normalise on a list in which an object occurs twice (a part handed to concatenate twice).  Known only for the clause the mechanism
        # breaks — well-formedness: an orphan note-off and an unclosed note-on are left (audit round 4, B7: `sound` and `idempotent` are judged
        # only for inputs whose note-ons and note-offs balance, and the mechanism needs a note-on that is never closed; 170 of 170 D24c failures
        # of a thorough run are `wf`) — and only when the OUTCOME is the mechanism's: the observed list is exactly what the
        # harness-side model gives when the unclosed note-on is removed at the FIRST position holding that object, and that differs from
        # removing it where it stands (when the two agree the sharing is harmless and any failure is something else)
        inp = f["input"]
        if f["oracle"] != "normalise" or not inp.get("aliased_parts") or len(set(inp["order"])) == len(inp["order"]) \
                or f["clause"] != "wf":
            return False
        d = f.get("detail") or ""
        if OBS not in d:
            return False
        observed = json.loads(d.split(OBS, 1)[1])
        objs = _aliased_objs(inp)
        bug, right = normalise_objects(objs, True), normalise_objects(objs, False)
        return bug != right and observed == [list(m) for m in bug]
    ctx.kf_predicates["D24c"] = kf_d24c


def generate(ctx):
    rng = ctx.rng
    ctx.check("normalise", D24C_EXAMPLE)        # the recorded instance of the known finding
    for i in range(ctx.n(400, 12000)):
        if i % 3 == 2:
            rel, _ = G.gen_wf_rel(rng, allow_overlap=(i % 2 == 0))
        else:
            rel = G.gen_ill_rel(rng, n=rng.randint(0, 16 if ctx.thorough else 12))
        timed, _ = rel_timed(rel)
        v = wf_violations(timed)
        ctx.case(rel, bool(v) or any(m[TY] in (TIMESIG, KEYSIG) for m in rel))
        for kind, _, _ in v:
            ctx.count("ill:" + kind)
        ctx.check("normalise", {"rel": rel})
        if i % 3 == 0:
            # an object with a past: normalised already, then changed through other public operations
            pre = [("normalise",)] + [rng.choice([("setChannel", rng.randrange(2)), ("editRel", 2, rng.randrange(2)), ("editRel", 0, rng.choice([1, 2])),
                                                  ("pad", rng.choice([0, 50])), ("transpose", rng.choice([1, 12])), ("editAbs", 2, rng.randrange(2)),
                                                  ("addRel", G.pm(ON, rng.randrange(2), None, note=rng.choice([60, 61]), vel=64), rng.choice([None, 0]))])
                                      for _ in range(rng.randint(1, 2))]
            ctx.count("object-with-a-past")
            ctx.check("normalise", {"rel": rel, "prelude": pre, "state": rng.choice(P.SEQ_STATES)})
            # the same with material in which a later operation creates work for normalise: one or two pitches on two channels
            # (merging the channels makes notes overlap), repeated signatures
            rel2, _ = G.gen_wf_rel(rng, n_notes=rng.randint(2, 5), channels=(0, 1), pitches=[60, 61][:rng.randint(1, 2)], max_tick=60, max_dur=30)
            pre2 = [("normalise",), rng.choice([("setChannel", rng.randrange(2)), ("setChannel", 3), ("editRel", 2, 0), ("editAbs", 2, 1),
                                                ("addRel", G.pm(TIMESIG, 0, None, num=4, den=4), None), ("concat", [rel2[:4]])])]
            ctx.count("object-with-a-past:two-channel-material")
            ctx.check("normalise", {"rel": rel2, "prelude": pre2, "state": rng.choice(P.SEQ_STATES)})
        if i % 4 == 1:
            # parts handed to concatenate more than once: their message objects occur several times in the receiver (D24c)
            parts = [G.gen_ill_rel(rng, n=rng.randint(1, 4), channels=(0,), pitches=(60, 61)) for _ in range(rng.randint(1, 3))]
            order = [rng.randrange(len(parts)) for _ in range(rng.randint(2, 4))]
            ctx.count("aliased-parts" + (":with-repeat" if len(set(order)) < len(order) else ""))
            ctx.check("normalise", {"rel": [], "aliased_parts": parts, "order": order})
        ctx.corr("normalise", P.op_normalise(rel))
        ctx.sample({"rel": rel})
    # exhaustive small scope: every list of <= 3 (quick) / <= 4 (thorough) messages over a 10-symbol alphabet
    for rel in G.enum_rel(4 if ctx.thorough else 3):
        ctx.count("small-scope")
        ctx.check("normalise", {"rel": rel})
        ctx.corr("normalise", P.op_normalise(rel))
