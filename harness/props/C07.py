"""C07 — normalise returns a well-formed sequence with the same duration and sound."""
import gens as G
import pyimpl as P
from oracle_util import *  # noqa
from protocol import from_real

ID = "C07"
LEAN_MODULE = ["SCoda.Props.C07", "SCoda.Props.Gaps", "SCoda.Props.RelTie2", "SCoda.Props.WrapTie"]
LEVEL = "proof"
CLAUSES = [
    ("output is well-formed for every input (alternation, starts with on, ends with off)", ["SCoda.C07.wf_out"]),
    ("no time/key signature repeats the one in force, and every signature that changes the one in force is kept",
     ["SCoda.C07.no_repeat_ts", "SCoda.C07.no_repeat_ks", "SCoda.C07.ts_in_force", "SCoda.Gaps.ks_in_force"]),
    ("total duration unchanged; output is a legal relative view with positive waits", ["SCoda.C07.duration_eq", "SCoda.C07.ok_out"]),
    ("sounding set unchanged on paired input (overlaps fused); every kept event is an input event at its original tick; other events all kept",
     ["SCoda.C07.sound_eq", "SCoda.C07.events_sublist", "SCoda.C07.others_kept"]),
    ("normalising twice changes nothing observable", ["SCoda.C07.idempotent"]),
    ("TIE BY TRANSLATION: RelativeSequence.normalise_relative is re-translated statement by statement on every run (Gen/RelFns2.lean: dict-of-dict-of-list state as "
     "insertion-ordered association lists, message OBJECTS as (identity, value) pairs because the final clean-up uses `in` / `remove`, which are identity on Message) and "
     "proved equal to the model `normalise` the clauses above are about, for every input whose message objects are distinct and whose channels are not None; the call "
     "never raises, for any objects; with an object occurring twice the equality is refuted — that is known finding D24c; Sequence.normalise itself is the translated "
     "wrapper method",
     ["SCoda.RelTie2.normaliseRelative_eq", "SCoda.RelTie2.normaliseRelative_total", "SCoda.RelTie2.normaliseRelative_anyObjects_statement_false",
      "SCoda.RelTie2.normaliseRelative_anyChannel_statement_false", "SCoda.WrapTie.normalise_eq"]),
]
RULE = ("random relative sequences of <=12 (quick) / <=16 (thorough) messages over 2 channels and pitches {0,1,60,61} "
        "(pitches 0/1 collide with channel numbers), ill-formed on purpose, plus well-formed multi-channel sequences; "
        "non-trivial = contains at least one note-on and one of: re-trigger, orphan off, unclosed note, repeated signature")
ASSUMPTIONS = ["model: SCoda.normalise (Model/Normalise.lean), tied by correspondence on the same inputs"]


def balanced(timed):
    depth = {}
    for t, m in timed:
        if m[TY] == ON:
            depth[(m[CH], m[NOTE])] = depth.get((m[CH], m[NOTE]), 0) + 1
        elif m[TY] == OFF:
            k = (m[CH], m[NOTE])
            if depth.get(k, 0) == 0:
                return False
            depth[k] -= 1
    return all(v == 0 for v in depth.values())


def run_normalise(rel):
    s = P.mk_rel(rel)
    s.normalise_relative()
    return [from_real(m) for m in s._messages]


def o_normalise(inp):
    rel = [tuple(m) for m in inp["rel"]]
    if inp.get("aliased_parts"):
        # R.concatenate([P, Q, P]): the message objects of P occur twice in R (known finding D24c)
        parts = [[tuple(m) for m in p] for p in inp["aliased_parts"]]
        objs = [P.seq_of_rel(p) for p in parts]
        s = P.Sequence()
        s.concatenate([objs[i] for i in inp["order"]])
        rel = [m for i in inp["order"] for m in parts[i]]
        try:
            s.normalise()
        except Exception as e:
            return [("raises", f"{type(e).__name__}: {e}")]
        out = P.content_of(s)
    elif inp.get("prelude") is not None:
        # the same Sequence object has a past (e.g. it was normalised before and edited since): judged against its content now
        s, rel = P.seq_after_prelude(rel, inp.get("state", "rel"), inp["prelude"])
        try:
            s.normalise()
        except Exception as e:
            return [("raises", f"{type(e).__name__}: {e}")]
        out = P.content_of(s)
    else:
        out = run_normalise(rel)
    fails = []
    tin, din = rel_timed(rel)
    tout, dout = rel_timed(out)
    bad = wf_violations(tout)
    if bad:
        fails.append(("wf", f"output not well-formed: {bad[:3]}"))
    cur_ts, cur_ks = None, None
    for t, m in tout:
        if m[TY] == TIMESIG:
            if (m[NUM], m[DEN]) == cur_ts:
                fails.append(("no-repeat", f"time signature {cur_ts} repeated at {t}"))
            cur_ts = (m[NUM], m[DEN])
        elif m[TY] == KEYSIG:
            if m[KEY] == cur_ks:
                fails.append(("no-repeat", f"key signature {cur_ks} repeated at {t}"))
            cur_ks = m[KEY]
    if din != dout:
        fails.append(("duration", f"duration {din} -> {dout}"))
    if balanced(tin):
        if sounding(tin) != sounding(tout):
            fails.append(("sound", f"sounding set changed: {sounding(tin)} -> {sounding(tout)}"))
        twice = run_normalise(out)     # (a fresh object: idempotence of the function, not of a flagged object)
        # observable content: the timed events and the duration (the channel written on a
        # consolidated wait message is not musical content)
        if rel_timed(twice) != rel_timed(out):
            fails.append(("idempotent", "second normalise changed the timed events or the duration"))
    return fails


D24C_EXAMPLE = {"rel": [], "aliased_parts": [[G.pm(ON, 0, None, note=60, vel=64)], [G.pm(WAIT, 0, 4), G.pm(OFF, 0, None, note=60)]], "order": [0, 1, 0]}


def setup(ctx):
    ctx.oracle("normalise", o_normalise)

    def kf_d24c(f):
        return bool(f["input"].get("aliased_parts")) and len(set(f["input"]["order"])) < len(f["input"]["order"])
    ctx.kf_predicates["D24c"] = kf_d24c


def generate(ctx):
    rng = ctx.rng
    ctx.check("normalise", D24C_EXAMPLE)        # the recorded instance of the known finding
    for i in range(ctx.n(400, 12000)):
        if i % 3 == 2:
            rel, _ = G.gen_wf_rel(rng, allow_overlap=(i % 2 == 0))
        else:
            rel = G.gen_ill_rel(rng, n=rng.randint(0, 16 if ctx.thorough else 12))
        timed, _ = rel_timed(rel)
        v = wf_violations(timed)
        ctx.case(rel, bool(v) or any(m[TY] in (TIMESIG, KEYSIG) for m in rel))
        for kind, _, _ in v:
            ctx.count("ill:" + kind)
        ctx.check("normalise", {"rel": rel})
        if i % 3 == 0:
            # an object with a past: normalised already, then changed through other public operations
            pre = [("normalise",)] + [rng.choice([("setChannel", rng.randrange(2)), ("editRel", 2, rng.randrange(2)), ("editRel", 0, rng.choice([1, 2])),
                                                  ("pad", rng.choice([0, 50])), ("transpose", rng.choice([1, 12])), ("editAbs", 2, rng.randrange(2)),
                                                  ("addRel", G.pm(ON, rng.randrange(2), None, note=rng.choice([60, 61]), vel=64), rng.choice([None, 0]))])
                                      for _ in range(rng.randint(1, 2))]
            ctx.count("object-with-a-past")
            ctx.check("normalise", {"rel": rel, "prelude": pre, "state": rng.choice(P.SEQ_STATES)})
            # the same with material in which a later operation creates work for normalise: one or two pitches on two channels
            # (merging the channels makes notes overlap), repeated signatures
            rel2, _ = G.gen_wf_rel(rng, n_notes=rng.randint(2, 5), channels=(0, 1), pitches=[60, 61][:rng.randint(1, 2)], max_tick=60, max_dur=30)
            pre2 = [("normalise",), rng.choice([("setChannel", rng.randrange(2)), ("setChannel", 3), ("editRel", 2, 0), ("editAbs", 2, 1),
                                                ("addRel", G.pm(TIMESIG, 0, None, num=4, den=4), None), ("concat", [rel2[:4]])])]
            ctx.count("object-with-a-past:two-channel-material")
            ctx.check("normalise", {"rel": rel2, "prelude": pre2, "state": rng.choice(P.SEQ_STATES)})
        ctx.corr("normalise", P.op_normalise(rel))
        ctx.sample({"rel": rel})
    # exhaustive small scope: every list of <= 3 (quick) / <= 4 (thorough) messages over a 10-symbol alphabet
    for rel in G.enum_rel(4 if ctx.thorough else 3):
        ctx.count("small-scope")
        ctx.check("normalise", {"rel": rel})
        ctx.corr("normalise", P.op_normalise(rel))
