"""C07 — normalise returns a well-formed sequence with the same duration and sound."""
import gens as G
import pyimpl as P
from oracle_util import *  # noqa
from protocol import from_real

ID = "C07"
LEAN_MODULE = ["SCoda.Props.C07", "SCoda.Props.Gaps"]
LEVEL = "proof"
CLAUSES = [
    ("output is well-formed for every input (alternation, starts with on, ends with off)", ["SCoda.C07.wf_out"]),
    ("no time/key signature repeats the one in force, and every signature that changes the one in force is kept",
     ["SCoda.C07.no_repeat_ts", "SCoda.C07.no_repeat_ks", "SCoda.C07.ts_in_force", "SCoda.Gaps.ks_in_force"]),
    ("total duration unchanged; output is a legal relative view with positive waits", ["SCoda.C07.duration_eq", "SCoda.C07.ok_out"]),
    ("sounding set unchanged on paired input (overlaps fused); every kept event is an input event at its original tick; other events all kept",
     ["SCoda.C07.sound_eq", "SCoda.C07.events_sublist", "SCoda.C07.others_kept"]),
    ("normalising twice changes nothing observable", ["SCoda.C07.idempotent"]),
]
RULE = ("random relative sequences of <=12 (quick) / <=16 (thorough) messages over 2 channels and pitches {0,1,60,61} "
        "(pitches 0/1 collide with channel numbers), ill-formed on purpose, plus well-formed multi-channel sequences; "
        "non-trivial = contains at least one note-on and one of: re-trigger, orphan off, unclosed note, repeated signature")
ASSUMPTIONS = ["model: SCoda.normalise (Model/Normalise.lean), tied by correspondence on the same inputs"]


def balanced(timed):
    depth = {}
    for t, m in timed:
        if m[TY] == ON:
            depth[(m[CH], m[NOTE])] = depth.get((m[CH], m[NOTE]), 0) + 1
        elif m[TY] == OFF:
            k = (m[CH], m[NOTE])
            if depth.get(k, 0) == 0:
                return False
            depth[k] -= 1
    return all(v == 0 for v in depth.values())


def run_normalise(rel):
    s = P.mk_rel(rel)
    s.normalise_relative()
    return [from_real(m) for m in s._messages]


def o_normalise(inp):
    rel = [tuple(m) for m in inp["rel"]]
    out = run_normalise(rel)
    fails = []
    tin, din = rel_timed(rel)
    tout, dout = rel_timed(out)
    bad = wf_violations(tout)
    if bad:
        fails.append(("wf", f"output not well-formed: {bad[:3]}"))
    cur_ts, cur_ks = None, None
    for t, m in tout:
        if m[TY] == TIMESIG:
            if (m[NUM], m[DEN]) == cur_ts:
                fails.append(("no-repeat", f"time signature {cur_ts} repeated at {t}"))
            cur_ts = (m[NUM], m[DEN])
        elif m[TY] == KEYSIG:
            if m[KEY] == cur_ks:
                fails.append(("no-repeat", f"key signature {cur_ks} repeated at {t}"))
            cur_ks = m[KEY]
    if din != dout:
        fails.append(("duration", f"duration {din} -> {dout}"))
    if balanced(tin):
        if sounding(tin) != sounding(tout):
            fails.append(("sound", f"sounding set changed: {sounding(tin)} -> {sounding(tout)}"))
        twice = run_normalise(out)
        # observable content: the timed events and the duration (the channel written on a
        # consolidated wait message is not musical content)
        if rel_timed(twice) != rel_timed(out):
            fails.append(("idempotent", "second normalise changed the timed events or the duration"))
    return fails


def setup(ctx):
    ctx.oracle("normalise", o_normalise)


def generate(ctx):
    rng = ctx.rng
    for i in range(ctx.n(400, 12000)):
        if i % 3 == 2:
            rel, _ = G.gen_wf_rel(rng, allow_overlap=(i % 2 == 0))
        else:
            rel = G.gen_ill_rel(rng, n=rng.randint(0, 16 if ctx.thorough else 12))
        timed, _ = rel_timed(rel)
        v = wf_violations(timed)
        ctx.case(rel, bool(v) or any(m[TY] in (TIMESIG, KEYSIG) for m in rel))
        for kind, _, _ in v:
            ctx.count("ill:" + kind)
        ctx.check("normalise", {"rel": rel})
        ctx.corr("normalise", P.op_normalise(rel))
        ctx.sample({"rel": rel})
    # exhaustive small scope: every list of <= 3 (quick) / <= 4 (thorough) messages over a 10-symbol alphabet
    for rel in G.enum_rel(4 if ctx.thorough else 3):
        ctx.count("small-scope")
        ctx.check("normalise", {"rel": rel})
        ctx.corr("normalise", P.op_normalise(rel))
