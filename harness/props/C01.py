"""C01 — tokenise, encode, decode, detokenise reproduces every valid piece exactly."""
import gens as G
import pyimpl as P
from oracle_util import *  # noqa
from tokutil import *  # noqa
import h1tok_util as H

ID = "C01"
LEAN_MODULE = ["SCoda.Props.C01", "SCoda.Props.C01b", "SCoda.Props.C01Glue", "SCoda.Props.C02", "SCoda.Props.C01c", "SCoda.Props.TokTie", "SCoda.Props.TokTie2", "SCoda.Props.TokTie3", "SCoda.Props.C01n", "SCoda.Props.UtilTie", "SCoda.Props.Defs"]
LEVEL = "proof"
CLAUSES = [
    ("every token tokenise emits is in the vocabulary, and decode(encode(tokens)) = tokens",
     ["SCoda.C02.tokenise_closed", "SCoda.C02.decode_encode_list"]),
    ("whenever tokenise accepts a piece, detokenise of its tokens succeeds and emits, track for track, exactly the piece's notes "
     "(pitch, onset, duration, binned velocity) in event order",
     ["SCoda.C01.roundtrip", "SCoda.C01.roundtrip_tracks", "SCoda.C01.sim_partial", "SCoda.C01.dfold_detokenise", "SCoda.C01.dpart_seqs",
      "SCoda.C01.applyRest_sync", "SCoda.C01.rel_init"]),
    ("on the same bar grid: the bar ends emitted are exactly those the clock passes; the detokeniser's bar size after a signature token is the tokeniser's",
     ["SCoda.C01.roundtrip", "SCoda.C01.capacity_scaled"]),
    ("the statement without the positive-bar-capacity hypothesis is false (kernel-checked counter-example)", ["SCoda.C01.sim_statement_false"]),
    ("glue: the merge/pairing code hands the core time-ordered events on track channels (EvsOk)", ["SCoda.C01.extract_evsOk"]),
    ("tokenisation of every valid piece *succeeds*: under the grid condition the greedy rest decomposition never gets stuck and all range checks pass "
     "(the statement that forgets non-empty pairings is refuted; the glue shows pairings are non-empty)",
     ["SCoda.C01.tokenise_succeeds_partial", "SCoda.C01.applyRest_ok", "SCoda.C01.tokenise_succeeds_statement_false", "SCoda.Glue.extract_shape"]),
    ("total duration rounded up to the end of the last bar: after a call the clock stands on a bar line, every bar end is at most the final clock, and "
     "outside the tail class every emission ends by the final clock, which is the last bar end emitted (partial: known finding D15, refuted in general by a kernel-checked example)",
     ["SCoda.C01.duration_partial", "SCoda.C01.specLog_on_barline", "SCoda.C01.specLog_barEnds_le", "SCoda.C01.duration_false_with_tail"]),

    ("the PIECE's notes, independently of the implementation (audit A4): for tracks satisfying the input-level, decidable `ValidCore` (legal relative views, well-formed, notes "
     "of positive length on the grid with pitch in range, duration among the note values and a velocity bin above; signatures on the grid and expressible in eighths; track "
     "lengths on the grid), the events the merge/pairing glue hands to the tokeniser are exactly the tracks' notes read by the independent `notesOf`, each once, onset-sorted; "
     "tokenisation succeeds from the initial state; detokenise succeeds with one sequence per track and sequence i holds a permutation of track i's notes with channel 0 and "
     "the velocity replaced by the smallest bin value at or above it (defined without the tokeniser's lookup)",
     ["SCoda.C01c.extract_notes", "SCoda.C01c.valid_tracks_evs", "SCoda.C01c.valid_tracks_evsOk", "SCoda.C01c.tokenise_succeeds_tracks", "SCoda.C01c.roundtrip_notes",
      "SCoda.C01c.roundtrip_notes_single", "SCoda.C01c.roundtrip_piece"]),
    ("duration (audit A5): with signatures placed on bar boundaries of the grid they induce (input-level `SigPlacement`) and outside the input-level tail class `HasTail` (the "
     "piece does not end in a rest and its end lies beyond the bar of the last onset), every detokenised sequence lasts exactly `lastBarEnd`: the piece length rounded up on "
     "the grid built from the signature changes alone; without the tail exclusion refuted (known finding D15)",
     ["SCoda.C01c.duration_no_tail", "SCoda.C01c.duration_piece", "SCoda.C01c.duration_statement_false"]),
    ("TIE BY TRANSLATION, tokeniser: MultiTrackLargeVocabularyNotelikeTokeniser is re-translated statement by statement on every run (Gen/TokFns.lean, tools/py2lean_tok.py: __init__, _construct_dictionary, tokenise with its closure _apply_rest as a fuelled loop, detokenise, get_info, encode, decode; f-strings as string concatenation, dicts as association lists, floats as exact rationals) and each translation is proved equal to the hand model the theorems above are about, on rendered token strings: tokenise, called with the DEFAULT flags insert_bar_token = True and flag_running_time_signature = True (proved to be the defaults of the signature as written in the source: tokenise_defaults; flag_running_time_signature = False raises NotImplementedError for every input: tokenise_not_running; the hand model has no insert_bar_token parameter, so the property theorems of this file are about the default flags only; the generated tokenise is tied for BOTH values of the flag: insert_bar_token = False returns the tokens of the default call with the bar tokens deleted, the same state and the same exception class — tokenise_eq_flag, tokenise_eq_flag_gen, tokenise_no_bar, tokenise_fresh_flag_gen), = tokeniseCore of the object's configuration on extract at the tokeniser's OWN ppqn, for every ppqn (tokenise_eq_gen, tokenise_fresh_gen; hypotheses: tracks with non-negative waits and no INTERNAL message = OkRel, as in every theorem above, track count = num_tracks, state denominator ≠ 0, 0 ≤ ppqn·4·n, and — on the INPUT messages — every time signature has a non-zero denominator and 0 ≤ ppqn·4·numerator; the excluded points raise in the source, proved: tokenise_wrong_length, tokenise_zero_denominator; the unrestricted statement is refuted). The source takes the bar capacities from self.ppqn but the length of an imputed note-off from the module constant PPQN (get_interleaved_message_pairings is called without standard_length): for every input, OkRel or not, the code is tokeniseCore on extract at PPQN = 24 (tokenise_eq_in); the two agree on OkRel tracks because merge normalises every unclosed note away (TokPpqnL.extract_ppqn_irrel, TokPpqnL.final_wf_any) and DISAGREE on a track with a negative wait (extract_ppqn_statement_false, negwait_code_vs_model: a tokeniser with ppqn = 48 emits val_24 where the hand model on extract 48 says val_48; replayed on the implementation; outside the domain of every property theorem). The composition is carried out for the note round trip: tokenise_roundtrip_gen is C01c.roundtrip_piece about the TRANSLATED tokenise / detokenise, for every ppqn > 0, detokenise = model detokenise (0 ≤ ppqn, natural-number token fields), encode / decode = the model's id maps",
     ["SCoda.TokTie.tokenise_eq", "SCoda.TokTie.tokenise_eq'", "SCoda.TokTie.tokenise_fresh", "SCoda.TokTie.tokenise_fresh'", "SCoda.TokTie.tokenise_none", "SCoda.TokTie.stOfDict_nil", "SCoda.TokTie.tokenise_wrong_length", "SCoda.TokTie.tokenise_zero_denominator", "SCoda.TokTie.tokenise_eq_statement_false", "SCoda.TokTie2.tokenise_eq_in", "SCoda.TokTie2.tokenise_eq_gen", "SCoda.TokTie2.tokenise_fresh_gen", "SCoda.TokPpqnL.extract_ppqn_irrel", "SCoda.TokPpqnL.final_wf_any", "SCoda.TokTie2.extract_ppqn_statement_false", "SCoda.TokTie2.negwait_code_vs_model", "SCoda.TokTie2.tokenise_not_running", "SCoda.TokTie2.tokenise_defaults", "SCoda.TokTie3.tokenise_eq_flag", "SCoda.TokTie3.tokenise_eq_flag_gen", "SCoda.TokTie3.tokenise_no_bar", "SCoda.TokTie3.tokenise_fresh_flag_gen", "SCoda.TokTie2.tokens_okD", "SCoda.TokTie2.tokenise_roundtrip_gen", "SCoda.TokTie.detokenise_eq", "SCoda.TokTie.detokenise_step", "SCoda.TokTie.encode_eq", "SCoda.TokTie.decode_eq", "SCoda.TokTie.tokInit_eq'"]),
    ("duration on the exact complement of D15's failing class (audit round 2 A4a): no detokenised sequence ever lasts longer than the end of the last bar; outside HasTail' (= HasTail and the latest note end is not the end of the last bar) the longest sequence lasts exactly that long (one-track piece: the sequence), and sequence i does whenever a note of track i ends there; 'every sequence' and 'end of the piece on a bar end' are refuted (two tracks [0,96)/[0,24): library durations 96/24; note [0,48)+rest+key signature at 96: library duration 48)",
     ["SCoda.C01n.duration_no_tail'", "SCoda.C01n.duration_no_tail_single", "SCoda.C01n.duration_seq", "SCoda.C01n.duration_le", "SCoda.C01n.duration_each_statement_false", "SCoda.C01n.duration_pieceEnd_statement_false"]),
    ("TIE BY TRANSLATION, numeric helpers: scoda/misc/util.py is re-translated statement by statement on every run (Gen/UtilFns.lean, tools/py2lean_util.py: one operator of the PyNum int/float tower per Python operator — floats as exact rationals, no rounding modelled —, range/enumerate/zip/comprehensions, while with proved fuel, numpy.digitize(right=True) modelled explicitly) and tied to the hand models and to the dumped tables: bin_velocity = the model's binIndex for ascending bins (refuted for descending / non-monotone bin lists, where the code answers through numpy.digitize or raises ValueError: replayed), get_velocity_bins for every n ≠ 0 and the default bins evaluated from the translated source = the dumped table; velocity_from_bin, digitise_velocity, minmax against independent arithmetic specifications",
     ["SCoda.UtilTie.binVelocity_sorted", "SCoda.UtilTie.binVelocity_default", "SCoda.UtilTie.binVelocity_eq_statement_false", "SCoda.UtilTie.getVelocityBins_int", "SCoda.UtilTie.defaultBins_eq", "SCoda.UtilTie.binSize_eq", "SCoda.UtilTie.velocityFromBin_spec", "SCoda.UtilTie.digitiseVelocity_spec", "SCoda.UtilTie.minmax_spec", "SCoda.UtilTie.minmax_spec_statement_false", "SCoda.UtilTie.default_tables_from_source"]),
    ("detokenise on arbitrary strings: on every string list the model parser accepts (numeric fields non-empty ASCII digit strings, any width, parts in any order) the generated code equals the model for ppqn >= 0 and non-zero denominators; tsg_04_00 raises ZeroDivisionError (model: capacity 0); the source also accepts rst_+5 / 'rst_ 5', which the model parser rejects (an artefact of the model's int parser, not of the code; non-ASCII digits are outside the link int(str)); the points excluded by tokenise_eq as theorems: with ppqn = -1 the code leaves capacity -1 where the model floors to -2, a time-signature event with denominator 0 raises ZeroDivisionError where the model raises TokenisationException (both replayed; outside the MIDI domain)",
     ["SCoda.Defs.detokenise_strings_partial", "SCoda.Defs.detokenise_strings_statement_false", "SCoda.Defs.detokenise_anystring_statement_false", "SCoda.Defs.tokenise_negative_ppqn_generated", "SCoda.Defs.tokenise_negative_ppqn_model", "SCoda.Defs.tokenise_negative_ppqn_statement_false", "SCoda.Defs.tokenise_event_denominator_zero_generated", "SCoda.Defs.tokenise_event_denominator_zero_model", "SCoda.Defs.tokenise_event_denominator_zero_statement_false"]),
]
RULE = ("valid multi-track pieces (1-3 tracks, 1-5 bars, <=3 notes per bar and track, signature changes on bar lines, rests "
        "crossing bar lines, simultaneous notes across tracks) x configurations (all 16 flag combinations sampled, velocity "
        "bins 1..16, pitch ranges (21,108)/(0,127)/narrow ranges at both ends, default steps/values; about a quarter of the cases off the defaults: custom and unsorted step "
        "lists, a step above ppqn, three-digit steps, repeated list entries, custom note-value sets, ppqn 12/48/96, input tracks written on channels other than 0); "
        "non-trivial = at least 2 notes and (2 tracks or a signature change)")
ASSUMPTIONS = ["models: SCoda.tokeniseCore/detokenise/vocabSeq + extract glue (merge, normalise, interleaved), tied by translation (TokTie / TokTie2 for the tokeniser class on rendered tokens, default call flags, any ppqn, AbsTie2 / RelTie2 / ViewTie for the glue) and, on the same inputs, by the sampled correspondence",
               "token text is proved (C02b.parse_render, Defs.render_injective_all) for rendered tokens; arbitrary strings only on the class Defs.detokenise_strings_partial names"]


def has_tail(tracks, ppqn=24):
    """D15: a note still sounds after the end of the bar that contains the last event onset/cap"""
    notes, sigs, caps, wf = piece_of_tracks(tracks)
    # the tokeniser works on the *merged* piece: a trailing rest leaves a cap (INTERNAL) message only when it reaches past the
    # last message of every track — a rest that ends before another track's final note-off moves no clock
    last_msg, longest = 0, 0
    for t in tracks:
        timed, dur = rel_timed(t)
        last_msg = max([last_msg] + [x for x, _ in timed])
        longest = max(longest, dur)
    caps = [longest] if longest > last_msg else []
    last = max([on for ns in notes for (p, on, d, v) in ns] + [t for t, _, _ in sigs] + caps + [0])
    ends = bar_grid(sigs, last, ppqn) or []
    t_end = ends[-1] if ends else 0
    return any(on + d > t_end for ns in notes for (p, on, d, v) in ns)


def o_roundtrip(inp):
    cfg = P.TkCfg(**inp["cfg"])
    tracks = [[tuple(m) for m in t] for t in inp["tracks"]]
    cfgd = cfg.kw
    if not valid_piece(cfgd, tracks):
        return [("~skip:invalid-piece", "")]
    tk = cfg.tk()
    P.warm_up(inp.get("before"))
    ppqn = cfgd["ppqn"] or 24
    # the bin values are computed HERE from the bin count (audit round 3: they used to be read from the tokeniser under test);
    # the rule has two recorded defects (D16: top bin below 127, D16b: repeated bins), reproduced by the harness-side formula
    bins = H.h_velocity_bins(cfgd["velocity_bins"])
    fails = []
    try:
        toks = tk.tokenise([P.seq_of_rel(t) for t in tracks])
    except Exception as e:
        return [("tokenise-raises", f"{type(e).__name__}: {e}")]
    missing = [t for t in toks if t not in tk.dictionary]
    if missing:
        return [("closed", f"tokens not in vocabulary: {missing[:3]}")]
    try:
        ids = tk.encode(toks)
        back = tk.decode(ids)
    except Exception as e:
        return [("encode-raises", f"{type(e).__name__}: {e}")]
    if back != toks:
        fails.append(("decode-encode", "decode(encode(t)) != t"))
    try:
        seqs = tk.detokenise(back)
    except Exception as e:
        return fails + [("detokenise-raises", f"{type(e).__name__}: {e}")]
    view = detok_view(seqs)
    notes, sigs, caps, _ = piece_of_tracks(tracks)
    for ti, (ns, v) in enumerate(zip(notes, view)):
        exp = sorted((p, on, d, bin_value(bins, vel)) for (p, on, d, vel) in ns)
        if exp != v["notes"]:
            fails.append(("notes", f"track {ti}: expected {exp}, got {v['notes']}"))
        if not v["int"]:
            fails.append(("int", f"track {ti}: non-integer tick"))
    end_all = max([on + d for ns in notes for (p, on, d, v) in ns] + [t for t, _, _ in sigs] + caps + [0])
    grid = bar_grid(sigs, end_all, ppqn) or []
    exp_dur = grid[-1] if grid else 0
    for ti, v in enumerate(view):
        if v["bar_ends"] != grid:
            fails.append(("bar-grid", f"track {ti}: bar ends {v['bar_ends']}, expected {grid}"))
            break
    got_dur = max([v["duration"] for v in view] + [0])
    if got_dur != exp_dur:
        fails.append(("duration", f"detokenised duration {got_dur}, expected {exp_dur} (end of the last bar)"))
    # "on the same bar grid": the time-signature EVENTS of the result (audit round 3, O8).  The detokeniser writes them on track 0
    # and spells them in eighths (4/4 comes back as 8/8 or 4/4, a signature that repeats the one in force may be left out): what
    # must agree is where the bar length changes and to what — the in-force bar-length timeline of all returned signature events
    # against the timeline of the piece's signatures (plain input data).
    got_sigs = [x for v in view for x in v["sigs"]]
    exp_tl, got_tl = H.barlen_timeline(sigs, ppqn), H.barlen_timeline(sorted(got_sigs, key=lambda x: x[0]), ppqn)
    if exp_tl != got_tl:
        fails.append(("signatures", f"bar length in force (tick, ticks per bar) after detokenise {got_tl}, in the piece {exp_tl}; "
                                    f"signature events returned {got_sigs}, given {sigs}"))
    return fails


def setup(ctx):
    ctx.oracle("roundtrip", o_roundtrip)
    ctx.history_oracles = {"roundtrip"}

    import re as _re

    def _ints(txt):
        return [int(x) for x in _re.findall(r"-?\d+", txt)]

    def kf_d15(f):
        """D15 by its OUTCOME (audit round 3, K5): the piece is in the tail class AND the result is the one the defect produces —
        the stream stops with the bar of the last event onset, so the bar ends returned are exactly the grid up to that onset (a
        proper prefix of the expected grid) and the duration is the later of that bar end and the last note end, SHORT of the
        expected end.  A result that is too long, or short by another amount, is not this finding."""
        tracks = [[tuple(m) for m in t] for t in f["input"]["tracks"]]
        ppqn = f["input"]["cfg"].get("ppqn") or 24
        if f["clause"] not in ("bar-grid", "duration") or not has_tail(tracks, ppqn):
            return False
        p_ends, p_dur, full = H.d15_prediction(tracks, ppqn)
        if f["clause"] == "bar-grid":
            m = _re.search(r"bar ends (\[[^\]]*\]), expected (\[[^\]]*\])", f["detail"])
            return bool(m) and _ints(m.group(1)) == p_ends and _ints(m.group(2)) == full and len(p_ends) < len(full)
        m = _re.search(r"detokenised duration (-?\d+), expected (-?\d+)", f["detail"])
        return bool(m) and int(m.group(1)) == p_dur and int(m.group(2)) == (full[-1] if full else 0) and p_dur < int(m.group(2))

    import json as _json
    import os as _os
    with open(_os.path.join(_os.path.dirname(_os.path.dirname(_os.path.dirname(_os.path.abspath(__file__)))), "known_findings.json")) as _f:
        _short = next(x for x in _json.load(_f)["findings"] if x["id"] == "D16")["velocity_bins_short_top"]

    def kf_d16(f):
        # exactly what fails on the unchanged tree: the top bin lies below 127 and a louder note makes tokenise raise IndexError.
        # (Bins that merely repeat 127 do not disturb the round trip: a duplicate key is overwritten and both ids decode to it —
        # any round-trip failure there is NOT this finding.)
        n = f["input"]["cfg"].get("velocity_bins", 1)
        if n not in _short:
            return False          # recorded data: the bin counts whose top bin lies below 127 on the unchanged tree
        # the top bin from the harness-side formula (audit round 3, K5: it used to be read from the tokeniser under test)
        top = max(H.h_velocity_bins(n))
        loud = any(m[0] == ON and (m[4] or 0) > top for t in f["input"]["tracks"] for m in t)
        return loud and f["clause"] == "tokenise-raises" and "IndexError" in f["detail"]
    ctx.kf_predicates["D15"] = kf_d15
    ctx.kf_predicates["D16"] = kf_d16


D15_EXAMPLE = {"cfg": dict(num_tracks=1), "tracks": [[G.pm(TIMESIG, 0, None, num=2, den=4), G.pm(WAIT, 0, 40),
                                                        G.pm(ON, 0, None, note=60, vel=64), G.pm(WAIT, 0, 36),
                                                        G.pm(OFF, 0, None, note=60)]]}
D16_EXAMPLE = {"cfg": dict(num_tracks=1, velocity_bins=20), "tracks": [[G.pm(ON, 0, None, note=60, vel=125), G.pm(WAIT, 0, 24),
                                                                         G.pm(OFF, 0, None, note=60)]]}


PITCH_RANGES = [(21, 108), (0, 127), (21, 108), (60, 72), (0, 11), (116, 127), (64, 64), (30, 90)]


def cfg_kwargs(rng, n_tracks, thorough):
    flags = [rng.random() < 0.5 for _ in range(5)]
    # 15, 17, 20, 24: members of D16's class (top bin below 127) besides the recorded example; 19, 22, 23, 26: repeated bins (D16b's class)
    bins = rng.choice([1, 1, 2, 3, 4, 5, 8, 12, 16, 19, 22, 15, 20] if not thorough else [1, 2, 3, 4, 5, 6, 7, 8, 9, 10, 11, 12, 13, 14, 15, 16, 17, 18, 19, 20, 21, 22, 23, 24, 26])
    return dict(num_tracks=n_tracks, velocity_bins=bins, running=flags[0], fuse_track=flags[1], fuse_value=flags[2],
                fuse_velocity=flags[3], simplify_ts=flags[4], pitch_range=rng.choice(PITCH_RANGES))


# audit round 3, O8: a signature change after the first bar must come back at ITS tick (witness: an edit that writes it at the in-bar time)
SIG_EXAMPLE = {"cfg": dict(num_tracks=1), "tracks": [[G.pm(TIMESIG, 0, None, num=4, den=4), G.pm(ON, 0, None, note=60, vel=64), G.pm(WAIT, 0, 24),
                                                        G.pm(OFF, 0, None, note=60), G.pm(WAIT, 0, 72), G.pm(TIMESIG, 0, None, num=3, den=4),
                                                        G.pm(ON, 0, None, note=62, vel=64), G.pm(WAIT, 0, 24), G.pm(OFF, 0, None, note=62), G.pm(WAIT, 0, 48)]]}
# audit round 3, O3: a step above ppqn is a rest token like any other (witness: an edit that leaves such steps out of the vocabulary)
STEP_EXAMPLE = {"cfg": dict(num_tracks=1, step_sizes=[2, 4, 8, 48], note_values=[24]),
                "tracks": [[G.pm(TIMESIG, 0, None, num=4, den=4), G.pm(WAIT, 0, 48), G.pm(ON, 0, None, note=60, vel=64), G.pm(WAIT, 0, 24),
                            G.pm(OFF, 0, None, note=60), G.pm(WAIT, 0, 24)]]}


def generate(ctx):
    rng = ctx.rng
    ctx.check("roundtrip", D15_EXAMPLE)
    ctx.check("roundtrip", D16_EXAMPLE)
    ctx.check("roundtrip", SIG_EXAMPLE)
    ctx.check("roundtrip", STEP_EXAMPLE)
    prev = None
    for i in range(ctx.n(150, 5000)):
        if i % 12 == 5:
            # many tracks: track indices beyond a MIDI channel number (16..) are legal track counts for the tokeniser
            piece = G.gen_piece(rng, n_tracks=rng.choice([17, 18, 20]), n_bars=rng.randint(1, 2), max_notes_per_bar=1, pitch_range=(60, 64), tail_ok=False)
            kw = cfg_kwargs(rng, len(piece["tracks"]), ctx.thorough)
            kw.update(pitch_range=(60, 64), velocity_bins=rng.choice([1, 2]))
            ctx.count("tracks:many")
        elif i % 4 == 2:
            # off the default lists (audit round 3, O3/O4): custom / unsorted step lists, a step above ppqn, three-digit steps, repeated
            # entries, custom note values, another resolution; the piece is drawn on THAT grid
            nt = rng.choice([1, 1, 2, 3])
            kw = cfg_kwargs(rng, nt, ctx.thorough)
            kw.update(H.custom_cfg(rng, dup=0.2))
            piece = H.gen_piece_p(rng, ppqn=kw.get("ppqn") or 24, steps=kw.get("step_sizes"), values=kw.get("note_values"), n_tracks=nt,
                                  pitch_range=kw["pitch_range"], max_notes_per_bar=rng.choice([1, 2, 3]), tail_ok=False)
            for lab in H.describe_cfg(kw):
                ctx.count("cfg:" + lab)
        else:
            kw = cfg_kwargs(rng, 1, ctx.thorough)
            if i % 6 == 3:
                # few pitches and short values: a pitch is often struck again on the very tick where its previous note ends
                lo = kw["pitch_range"][0] + rng.randint(0, 5)
                piece = G.gen_piece(rng, n_tracks=rng.choice([1, 1, 2]), pitch_range=(lo, lo + 1), max_notes_per_bar=4, values=[6, 12, 24], tail_ok=False)
                ctx.count("piece:re-struck-pitches")
            else:
                piece = G.gen_piece(rng, pitch_range=kw["pitch_range"], tail_ok=False)
            kw["num_tracks"] = len(piece["tracks"])
        if rng.random() < 0.25 and len(piece["tracks"]) <= 16:
            # the input tracks need not be written on channel 0: each is a single-channel sequence, the tokeniser re-channels them
            chans = [rng.randrange(16) for _ in piece["tracks"]]
            piece["tracks"] = [H.rechannel(t, c) for t, c in zip(piece["tracks"], chans)]
            ctx.count("tracks:on-other-channels")
        if i % 6 == 3 and len(piece["tracks"]) <= 3:
            # tracks as a program may have ENTERED them: the messages of one tick in any order (all note-ons first, note-offs later), in
            # particular a re-struck pitch whose note-on is listed before the previous note's note-off of that tick (seeded change C01_agent8)
            new_tracks = []
            for t in piece["tracks"]:
                timed, dur = rel_timed(t)
                ab = G.shuffle_ties(rng, [(m[0], m[1], tt) + tuple(m[3:]) for tt, m in timed])
                new_tracks.append(G.abs_to_rel(ab + [G.pm(INTERNAL, 0, dur)]))
            piece["tracks"] = new_tracks
            ctx.count("tracks:ties-entered-in-any-order")
        ctx.count("pitch-range:%d-%d" % tuple(kw["pitch_range"]))
        cfg = P.TkCfg(**kw)
        nn = sum(len(x) for x in piece["notes"])
        ctx.case((piece["tracks"], sorted(kw.items())), nn >= 2 and (len(piece["tracks"]) > 1 or len(piece["sigs"]) > 1))
        ctx.count("flags:%d%d%d%d" % (kw["running"], kw["fuse_track"], kw["fuse_value"], kw["fuse_velocity"]))
        ctx.count("bins:%d" % kw["velocity_bins"])
        if has_tail(piece["tracks"], kw.get("ppqn") or 24):
            ctx.count("tail(D15 class)")
        if len(piece["sigs"]) > 1:
            ctx.count("signature-change")
        if not valid_piece(cfg.kw, piece["tracks"]):
            ctx.count("invalid-piece")
        # the piece tokenised just before this one in the process is part of the (replayable) input
        ctx.check("roundtrip", {"cfg": kw, "tracks": piece["tracks"]})
        ctx.corr("extract", P.op_extract(piece["tracks"]))
        res = P.op_tokenise(cfg, None, piece["tracks"])
        ctx.corr("tokenise", res)
        if res[1].startswith("T "):
            toks = res[1][2:].split(" | ")[0].split()
            ctx.corr("detokenise", P.op_detokenise(cfg, toks))
            ctx.corr("encode", P.op_encode(cfg, toks))
            ids = cfg.tk().encode(toks) if all(t in cfg.tk().dictionary for t in toks) else []
            ctx.corr("decode", P.op_decode(cfg, ids))
        else:
            ctx.count("tokenise-error:" + res[1])
        ctx.sample({"cfg": kw, "tracks": [t[:6] for t in piece["tracks"]]})
