"""C10 — a Bar always lasts exactly its time signature, or its construction fails."""
import gens as G
import pyimpl as P
from oracle_util import *  # noqa
from protocol import from_real, KEYS
import h2bars_util as U
import barmut_util as BM

ID = "C10"
LEAN_MODULE = ["SCoda.Props.C10", "SCoda.Props.C11b", "SCoda.Props.ElemTie", "SCoda.Props.Gaps", "SCoda.Props.StaticLink", "SCoda.Props.C10Ch", "SCoda.Props.ElemTieCh", "SCoda.Lemmas.BarChL"]
LEVEL = "proof"
CLAUSES = [
    ("an accepted bar lasts exactly numerator*4/denominator quarter notes (its capacity in ticks, the int-typed value of the Python expression)",
     ["SCoda.C10.bar_duration", "SCoda.C11.barCapacityPy_eq"]),
    ("an accepted bar starts with exactly one time-signature event equal to the bar's signature and contains no other; otherwise it holds the normalised events of the sequence",
     ["SCoda.C10.bar_leading_sig", "SCoda.C10.bar_events"]),
    ("a sequence longer than the capacity is rejected", ["SCoda.C10.bar_too_long"]),
    ("a conflicting or second (different) signature is rejected; the only failure is a bar error; nothing valid is rejected",
     ["SCoda.C10.bar_conflict", "SCoda.C10.bar_two_sigs", "SCoda.C10.bar_error_kind", "SCoda.C10.bar_accepts"]),
    ("copying a bar yields an equal bar", ["SCoda.C10.bar_copy"]),
    ("domain and exactness (audit A15): on 0 <= PPQN, 0 <= numerator, 0 < denominator the model's capacity is the int-typed value of the Python expression; "
     "it is exactly n*4/d quarter notes iff d divides n*PPQN*4 and the floor otherwise (1/128 at PPQN 24: 0 ticks) — 'exactly' without divisibility is refuted; "
     "an identical repeated signature is accepted (the 'second signature' of the property must differ); outside the domain model and Python differ "
     "(d = 0: ZeroDivisionError; n = -1, d = 200: Python truncates towards 0 and accepts) — kernel-checked witnesses, replayed",
     ["SCoda.Gaps.bar_capacity_py", "SCoda.Gaps.bar_capacity_exact", "SCoda.Gaps.bar_capacity_quarters", "SCoda.Gaps.bar_error_kind'", "SCoda.Gaps.bar_duration'",
      "SCoda.Gaps.bar_rejects'", "SCoda.Gaps.bar_exact_statement_false", "SCoda.Gaps.bar_exact_partial", "SCoda.Gaps.bar_second_sig_statement_false",
      "SCoda.Gaps.model_outside_domain_d0", "SCoda.Gaps.model_outside_domain_neg"]),
    ("TIE BY TRANSLATION: Bar.__init__, Bar.copy, Bar.is_empty, Bar.transpose and Bar.to_sequence are re-translated statement by statement from bar.py on "
     "every run (Gen/ElemFns.lean, on top of the translated Sequence wrapper) and proved equal to the model `mkBar` / `Bar.copy` / `barsToSeq` the theorems "
     "above are about: same BarException or same bar, for every wrapper state of the sequence, every sequence and every signature with 0 <= numerator, "
     "0 < denominator (the domain on which Python's int(n*PPQN/(d/4)) is the model's integer capacity); the constructed bar's sequence has its relative view "
     "fresh and its absolute view stale (Bar.copy = the model's `Bar.copy` for a bar whose own time-signature message is on channel 0; every channel: next clause)",
     ["SCoda.ElemTie.barInit_eq", "SCoda.ElemTie.barInit_toBar", "SCoda.ElemTie.barInit_flags", "SCoda.ElemTie.barCopy_toBar",
      "SCoda.ElemTie.barCopy_constructed", "SCoda.ElemTie.barTranspose_eq", "SCoda.ElemTie.barIsEmpty_eq", "SCoda.ElemTie.barsToSequence_eq",
      "SCoda.ElemTie.barsToSequence_constructed", "SCoda.ElemTie.pyIntOf_barCap", "SCoda.ElemTie.translated_covered"]),
    ("EVERY default_channel AND EVERY LATER STATE OF THE BAR (audit round 3 R7, finding D37 and its repair; audit round 4 D1 / C6, the second repair): "
     "Bar.__init__ as re-translated from bar.py is the channel-parametrised model `mkBarCh` (Model/BarCh.lean: `mkBar` line by line, the leading "
     "time-signature event on channel default_channel, None -> 0; `mkBar` is the instance 0, and `mkBarCh` is `mkBar` with that one event moved to the "
     "channel, so duration, leading signature, events and every rejection of the clauses above hold for every channel); the bar does not keep "
     "default_channel. Bar.copy as re-translated (barCopy_eq, no hypothesis) reads the bar's relative view through the `rel` property (a stale view "
     "is regenerated and stays regenerated in the original; both views stale: SequenceException), takes the channel of its FIRST TIME_SIGNATURE "
     "message AS IT IS NOW (0 if there is none) and constructs the copy on it — the model `Bar.copyOwn`. WHENEVER Bar.copy() SUCCEEDS THE COPY'S "
     "LEADING TIME-SIGNATURE EVENT IS ON THAT CHANNEL (barCopy_sig_channel: every bar record, wrapper state, signature — no hypothesis). "
     "COPYING A BAR YIELDS AN EQUAL BAR FOR EVERY BAR WHOSE CURRENT RELATIVE VIEW IS IN BAR SHAPE (barCopy_equal_any; BarChL.BarShape: starts with the "
     "bar's signature message on some channel, no other signature message, non-negative waits adding up to the capacity, note-ons / note-offs "
     "paired per (channel, pitch), no repeated key signature; 0 <= numerator, 0 < denominator, 0 <= PPQN): the copy always succeeds, the original is "
     "unchanged (but for a regenerated stale view), same signature, key, timed events (the leading signature on the channel it is on NOW among them) "
     "and duration, and the copy is in bar shape again. The constructor establishes the shape for every default_channel (barInit_barShape; "
     "barCopy_equal is the instance 'not edited since'), Sequence.set_channel keeps it and moves the signature event as long as the notes still "
     "pair up afterwards (setChannel_barShape, barCopy_after_setChannel: build on any channel, set_channel(c'), copy — the copy equals the bar as it is "
     "now, signature on c'), transpose without octave wrap likewise (shape_transposeRel). Limits, kernel-checked and replayed: set_channel that merges "
     "overlapping notes of one pitch from two channels leaves a view that is not in bar shape and the copy has fewer events (merged_channels_copy_differs, "
     "finding D44); a wrapping transpose re-quantises and may change the bar's length (finding D45). Negative controls on the audit's witness (built on "
     "channel 3, then set_channel): the UNREPAIRED copy (channel 0 always) and the copy of f9ef398 (the channel stored at construction) both have events "
     "that differ from the bar's (unrepaired_copy_differs, stored_channel_copy_differs, both_earlier_copies_differ)",
     ["SCoda.ElemTie.barInit_eq_ch", "SCoda.ElemTie.barInit_toBar_ch", "SCoda.ElemTie.barInit_shape", "SCoda.ElemTie.barCopy_eq",
      "SCoda.ElemTie.barCopy_toBar_own", "SCoda.ElemTie.barCopy_constructed_own", "SCoda.ElemTie.barCopy_sig_channel",
      "SCoda.ElemTie.barCopy_default_channel", "SCoda.ElemTie.barCopy_of_constructed",
      "SCoda.ElemTieCh.barCopy_equal_any", "SCoda.ElemTieCh.barInit_barShape", "SCoda.ElemTieCh.setChannel_barShape",
      "SCoda.ElemTieCh.barCopy_after_setChannel", "SCoda.ElemTieCh.barCopy_equal", "SCoda.ElemTieCh.witness_wf",
      "SCoda.BarChL.mkBarCh_shape", "SCoda.BarChL.shape_rebuild", "SCoda.BarChL.shape_setChannel", "SCoda.BarChL.shape_transposeRel",
      "SCoda.C10Ch.bar_ch_eq", "SCoda.C10Ch.bar_duration_ch", "SCoda.C10Ch.bar_leading_sig_ch",
      "SCoda.C10Ch.bar_events_ch", "SCoda.C10Ch.bar_copy_ch", "SCoda.C10Ch.bar_copy_own", "SCoda.C10Ch.bar_constructed_shape",
      "SCoda.C10Ch.unrepaired_copy_differs", "SCoda.C10Ch.stored_channel_copy_differs", "SCoda.C10Ch.both_earlier_copies_differ",
      "SCoda.C10Ch.merged_channels_copy_differs"]),
    ('the link through which the translated sequences_split_bars reads the signature and key queues (AbsoluteSequence.get_message_times_of_type, a hand-written definition in Model/StaticLib.lean) is what the TRANSLATED method computes on a freshly built list, read back through the heap (audit round 3 R1: an edit of that method now breaks this obligation)',
     ["SCoda.StaticLink.timesOfType_link", "SCoda.AbsTie2.getMessageTimesOfType_eq", "SCoda.AbsTie2.timesOfType_init"]),
]
RULE = ("relative sequences shorter than / equal to / one tick longer than / longer than the capacity, on channel 0, another channel or three "
        "channels, with zero, one matching, one conflicting or two signature events, x 12 signatures x keys x default_channel (not passed, 0, the "
        "track's channel, 5, 15) x wrapper states built from plain data (rel, abs, both, stale views, insort, churned); copy after mutation: "
        "every second bar again with a random default_channel, 0-2 public mutators applied in place (Sequence.set_channel to 0 / an own / another "
        "channel, Sequence.transpose and Bar.transpose by small intervals, octaves and intervals that wrap), then copied and judged against the "
        "bar's CURRENT content; "
        "non-trivial = sequence has notes or a signature event")
ASSUMPTIONS = ["model: SCoda.mkBar (Model/Bar.lean), tied by translation (ElemTie) and sampled by correspondence for default_channel = 0; for any other "
               "default_channel the model is SCoda.mkBarCh / Bar.copyOwn (Model/BarCh.lean), tied by translation for every channel (ElemTie.barInit_eq_ch, "
               "barCopy_toBar_own), NOT sampled by correspondence (no driver op): on those inputs the real objects are judged by the oracles "
               "(`bar`, and `bar-copy-mut` for bars changed in place before they are copied)",
               "'an equal bar' is judged on plain data: same signature / key attributes, same timed events (every message field) and duration; the library's `==` "
               "is not the expectation (clause copy-eq only reports it when it contradicts equal data)",
               "a repeated identical signature is removed by the constructor's normalise() before the count, so it is accepted (DESIGN C10)"]
SIGS = [(4, 4), (3, 4), (2, 4), (6, 8), (5, 8), (7, 8), (2, 2), (3, 8), (12, 8), (1, 4), (9, 8), (4, 8), (8, 8), (8, 8)] + G.ALL_SIGS


def o_bar(inp):
    from scoda.elements.bar import Bar
    from scoda.exceptions.bar_exception import BarException
    rel = [tuple(m) for m in inp["rel"]]
    n, d, key = inp["n"], inp["d"], inp["key"]
    if d <= 0 or n < 0:
        return [("~skip:signature-outside-the-domain", "")]
    exact = (96 * n) % d == 0           # n*4/d quarter notes is a whole number of ticks
    cap = 96 * n // d
    # what the constructor sees after its normalise(): computed independently for signatures
    sigs = []
    cur = None
    for m in rel:
        if m[TY] == TIMESIG:
            if (m[NUM], m[DEN]) != cur:
                sigs.append((m[NUM], m[DEN]))
                cur = (m[NUM], m[DEN])
    _, dur = rel_timed(rel)
    # the sequence is built from plain data in the given wrapper state (h2bars_util.build_state); `dch`: the constructor's default_channel
    # (absent: the parameter is not passed) — audit round 3, table of part 3: it was never varied
    state = inp.get("state", "rel")
    if state not in ("rel", "both", "stale-abs") and any(on >= off for (_, _, on, off, _) in notes_of(rel_timed(rel)[0])):
        return [("~skip:zero-length-note-through-the-absolute-view", "")]      # D17's mechanism
    seq, supplied = U.build_state(rel, state)
    if U.views_hold(U.raw_views(seq), rel, supplied) is not None:
        return [("~skip:state-not-built:" + state, "")]
    kw = {} if inp.get("dch") is None else {"default_channel": inp["dch"]}
    try:
        b = Bar(seq, n, d, None if key is None else KEYS[key], **kw)
    except BarException:
        b = None
    except Exception as e:
        return [("raises", f"unexpected {type(e).__name__}: {e}")]
    fails = []
    if b is None:
        if dur <= cap and len(sigs) <= 1 and all(s == (n, d) for s in sigs):
            fails.append(("spurious-reject", f"valid bar rejected (dur {dur}, cap {cap}, sigs {sigs})"))
        return fails
    if dur > cap:
        fails.append(("too-long", f"sequence of {dur} ticks accepted into a bar of {cap}"))
    if len(sigs) > 1:
        fails.append(("two-sigs", f"signatures {sigs} accepted"))
    if any(s != (n, d) for s in sigs):
        fails.append(("conflict", f"signature {sigs} accepted into a {n}/{d} bar"))
    out = [from_real(m) for m in b.sequence.rel._messages]
    _, dout = rel_timed(out)
    if dout != cap or not is_int(dout):
        fails.append(("duration", f"bar lasts {dout!r}, expected {cap}"))
    elif not exact:
        # the property: "lasts exactly numerator x 4 / denominator quarter notes" — here that is not a whole number of ticks
        fails.append(("duration-exact", f"bar lasts {dout} ticks, {n}x4/{d} quarter notes are {96 * n}/{d} ticks"))
    ts = [i for i, m in enumerate(out) if m[TY] == TIMESIG]
    if ts != [0] or (out[0][NUM], out[0][DEN]) != (n, d):
        fails.append(("leading-sig", f"time-signature events at indices {ts}"))
    try:
        c = b.copy()
        # "copying a bar yields an equal bar": judged on plain data — same signature and key attributes, same timed events (every field of
        # every message) and duration; waits may be consolidated.  The library's own `==` is NOT the expectation (it is C17's subject).
        if not (c.time_signature_numerator == n and c.time_signature_denominator == d and c.key_signature == b.key_signature):
            fails.append(("copy", U.Detail("the copy's signature / key attributes differ", attrs=True)))
        cout = [from_real(m) for m in c.sequence.rel._messages]
        (ta, da), (tb_, db) = rel_timed(out), rel_timed(cout)
        if (ta, da) != (tb_, db):
            only_bar = [x for x in ta if x not in tb_]
            only_copy = [x for x in tb_ if x not in ta]
            fails.append(("copy", U.Detail(f"copy has different timed events or duration: only in the bar {only_bar[:3]}, only in the copy {only_copy[:3]}, "
                                           f"durations {da} / {db}", only_bar=only_bar, only_copy=only_copy, durs=(da, db))))
        elif not (c.sequence == b.sequence):
            fails.append(("copy-eq", "bar and copy hold the same events, but `copy.sequence == bar.sequence` is False"))
        if c is b or c.sequence is b.sequence:
            fails.append(("copy", U.Detail("the copy shares the bar or its sequence object", shared=True)))
    except Exception as e:
        fails.append(("copy", U.Detail(f"copy raised {type(e).__name__}", raised=type(e).__name__)))
    return fails


def o_bar_copy_mut(inp):
    """copy after mutation (audit round 4, D1): the bar is built from plain data with the given default_channel, the public mutators `muts` are
    applied to it in place, it is copied, and the copy is judged against what the bar shows NOW (attributes; timed events, every message field,
    and duration of the bar's own relative view, read before the copy is taken) — never against what it was built from, and never through copy().
    Taking the copy must not change what the original shows either."""
    from scoda.elements.bar import Bar
    from scoda.exceptions.bar_exception import BarException
    rel = [tuple(m) for m in inp["rel"]]
    n, d, key = inp["n"], inp["d"], inp["key"]
    if d <= 0 or n < 0:
        return [("~skip:signature-outside-the-domain", "")]
    seq, supplied = U.build_state(rel, inp.get("state", "rel"))
    kw = {} if inp.get("dch") is None else {"default_channel": inp["dch"]}
    try:
        b = Bar(seq, n, d, None if key is None else KEYS[key], **kw)
    except BarException:
        return [("~skip:bar-rejected", "")]
    except Exception as e:
        return [("raises", f"unexpected {type(e).__name__}: {e}")]
    try:
        for mut in inp.get("muts", []):
            BM.apply_mut(b, mut)
        before = BM.bar_state(b)
    except Exception as e:
        return [("~skip:mutator-raises:" + type(e).__name__, "")]
    try:
        c = b.copy()
    except Exception as e:
        return [("copy-mut", U.Detail(f"copy after {inp.get('muts', [])} raised {type(e).__name__}: {e}", raised=type(e).__name__,
                                      unpaired=[list(k) for k in BM.unpaired(before["plain"])], dur=before["content"][1]))]
    fails = BM.judge_copy(f"Bar(default_channel={inp.get('dch')!r}) after {inp.get('muts', [])}", before, BM.bar_state(b), c)
    if c is b or c.sequence is b.sequence:
        fails.append(("copy-mut", U.Detail("the copy shares the bar or its sequence object", shared=True)))
    return fails


def setup(ctx):
    ctx.oracle("bar", o_bar)
    ctx.oracle("bar-copy-mut", o_bar_copy_mut)

    def kf_d44(f):
        # the bar's content at the time of the copy does not pair its notes per (channel, pitch) — what set_channel leaves behind when it moves
        # overlapping notes of one pitch from two channels onto one — and bar and copy differ in note events of exactly those keys
        return f["oracle"] == "bar-copy-mut" and f["clause"] == "copy-mut" and any(m[0] == "set_channel" for m in f["input"].get("muts", [])) \
            and BM.is_merge_outcome(f)
    ctx.kf_predicates["D44"] = kf_d44

    def kf_d45(f):
        # the history holds a transposition and the bar's own content read BEFORE the copy no longer lasts the bar's capacity (the wrap branch of
        # Sequence.transpose re-quantised the note lengths through the absolute view): longer — copy() raised BarException; shorter — the copy
        # holds the same events and is padded back to the capacity
        d = U.data_of(f)
        n, dd = f["input"]["n"], f["input"]["d"]
        if not (f["oracle"] == "bar-copy-mut" and f["clause"] == "copy-mut" and dd > 0
                and any(m[0] in ("transpose", "bar_transpose") for m in f["input"].get("muts", []))):
            return False
        return BM.is_requantised_outcome(d, 96 * n // dd)
    ctx.kf_predicates["D45"] = kf_d45

    def kf_d28(f):
        # the signature's bar length is not a whole number of ticks at PPQN 24 (the denominator does not divide 96 * numerator)
        return f["clause"] == "duration-exact" and (96 * f["input"]["n"]) % f["input"]["d"] != 0
    ctx.kf_predicates["D28"] = kf_d28


    def kf_d37(f):
        # the bar was built with a default_channel other than 0, and bar and copy differ in exactly one event: the leading time signature,
        # which the copy carries on channel 0 (Bar.copy does not pass the channel on)
        d = U.data_of(f)
        dch = f["input"].get("dch")
        if f["clause"] != "copy" or dch in (None, 0) or "only_bar" not in d or d["durs"][0] != d["durs"][1]:
            return False
        n, dd = f["input"]["n"], f["input"]["d"]
        want_bar = [(0, (TIMESIG, dch, None, None, None, None, None, n, dd, None))]
        want_copy = [(0, (TIMESIG, 0, None, None, None, None, None, n, dd, None))]
        return [(t, tuple(m)) for t, m in d["only_bar"]] == want_bar and [(t, tuple(m)) for t, m in d["only_copy"]] == want_copy
    ctx.kf_predicates["D37"] = kf_d37


# audit round 4, D1: built on channel 3, moved to channel 0, then copied
D37B_WITNESS = {"rel": [G.pm(ON, 3, None, note=60, vel=64), G.pm(WAIT, 3, 24), G.pm(OFF, 3, None, note=60)], "n": 4, "d": 4, "key": None, "dch": 3,
                "muts": [["set_channel", 0]]}
# D44: two channels hold overlapping notes of one pitch; set_channel merges them
D44_EXAMPLE = {"rel": [G.pm(ON, 0, None, note=60, vel=64), G.pm(WAIT, 0, 12), G.pm(ON, 1, None, note=60, vel=64), G.pm(WAIT, 1, 24),
                       G.pm(OFF, 0, None, note=60), G.pm(WAIT, 0, 24), G.pm(OFF, 1, None, note=60)], "n": 4, "d": 4, "key": None, "dch": 3,
               "muts": [["set_channel", 0]]}
# D45: a short note at the end of a 7/16 bar; the wrap branch of transpose re-quantises it past the bar line
D45_EXAMPLE = {"rel": [G.pm(WAIT, 0, 40), G.pm(ON, 0, None, note=1, vel=64), G.pm(WAIT, 0, 2), G.pm(OFF, 0, None, note=1)], "n": 7, "d": 16, "key": 3,
               "dch": 15, "muts": [["transpose", -12]]}
D37_EXAMPLE = {"rel": [G.pm(ON, 3, None, note=60, vel=64), G.pm(WAIT, 3, 24), G.pm(OFF, 3, None, note=60)], "n": 4, "d": 4, "key": None, "dch": 3}


def generate(ctx):
    rng = ctx.rng
    ctx.check("bar", {"rel": [], "n": 1, "d": 128, "key": None})         # D28: a 1/128 bar lasts 0 ticks
    ctx.check("bar", {"rel": [G.pm(WAIT, 0, 40)], "n": 3, "d": 7, "key": None})
    ctx.check("bar", D37_EXAMPLE)                                          # D37: the copy of a bar built with default_channel=3
    ctx.check("bar-copy-mut", D37B_WITNESS)                                # audit round 4, D1: … and moved to channel 0 before it is copied
    ctx.check("bar-copy-mut", dict(D37B_WITNESS, muts=[]))
    ctx.check("bar-copy-mut", D44_EXAMPLE)                                 # D44 (known finding)
    ctx.check("bar-copy-mut", D45_EXAMPLE)                                 # D45 (known finding)
    for i in range(ctx.n(300, 5000)):
        n, d = rng.choice(SIGS)
        cap = 96 * n // d
        target = rng.choice([0, cap // 2, cap - 1, cap, cap, cap + 1, cap * 2])
        chans = rng.choice([(0,), (0,), (1,), (0, 1, 2)])
        rel, notes = G.gen_wf_rel(rng, max_tick=max(1, target), max_dur=max(1, target // 2), channels=chans)
        rel = [m for m in rel if m[TY] != TIMESIG]
        if rng.random() < 0.2:
            # "any sequence": ill-formed material too — unclosed note-ons (after a rest, at the start, stacked), orphan note-offs — the constructor's
            # normalise() has to clean it up WITHOUT changing the duration the capacity check sees (seeded change C10_agent8)
            rel = [m for m in G.gen_ill_rel(rng, n=rng.randint(2, 9), channels=chans, pitches=(60, 62, 64)) if m[TY] != TIMESIG]
            if rng.random() < 0.6:
                rel = rel + [G.pm(WAIT, chans[0], rng.choice([1, 6, 24])), G.pm(ON, chans[0], None, note=rng.choice([60, 65]), vel=64)]   # a rest, then a note that is never closed
            notes = []
            ctx.count("ill-formed-input")
        d0 = rel_timed(rel)[1]
        if target in (cap, cap + 1) and d0 < target and rng.random() < 0.7:
            rel = rel + [G.pm(WAIT, chans[0], target - d0)]          # exactly full / one tick too long (the boundary of the capacity check)
        k = rng.random()
        kind = "no-sig"
        sch = rng.choice(chans)
        if k < 0.25:
            rel.insert(rng.randint(0, len(rel)), G.pm(TIMESIG, sch, None, num=n, den=d)); kind = "matching"
        elif k < 0.4:
            # conflicting value: different length, or the same bar length spelled differently (6/8 in a 3/4 bar)
            cn, cd = rng.choice([(n + 1, d), (2 * n, 2 * d), (2 * n, 2 * d), (n, 2 * d)] + ([(n // 2, d // 2)] if n % 2 == 0 and d % 2 == 0 else [])
                                + [x for x in [G.any_sig(rng), G.any_sig(rng), (8, 8), (4, 4)] if x != (n, d)])
            rel.insert(rng.randint(0, len(rel)), G.pm(TIMESIG, sch, None, num=cn, den=cd)); kind = "conflicting"
            if 96 * cn * d == 96 * n * cd:
                ctx.count("sig:conflicting-same-length")
        elif k < 0.55:
            rel.insert(0, G.pm(TIMESIG, sch, None, num=n, den=d))
            rel.insert(rng.randint(1, len(rel)), G.pm(TIMESIG, sch, None, num=n, den=d * 2 if rng.random() < 0.5 else d)); kind = "two"
        key = rng.choice([None, None, 0, 3, 14])
        _, dur = rel_timed(rel)
        ctx.count("sig:" + kind)
        ctx.count("len:" + ("short" if dur < cap else "exact" if dur == cap else "long"))
        ctx.case((rel, n, d, key), len(notes) > 0 or kind != "no-sig")
        inp = {"rel": rel, "n": n, "d": d, "key": key}
        r = rng.random()
        if r < 0.35:
            # the constructor's default_channel: passed explicitly (0 = the default value, or the track's channel, or another one)
            inp["dch"] = rng.choice([0, chans[0], chans[-1], 5, 15])
            ctx.count("default_channel:" + ("0" if inp["dch"] == 0 else "other"))
        else:
            ctx.count("default_channel:not-passed")
        ctx.check("bar", inp)
        if i % 4 == 0:
            ctx.count("wrapper-states")
            ctx.check("bar", dict(inp, state=rng.choice(U.STATES[1:] + ["insort"])))
        if i % 2 == 0:
            # copy after mutation: the same bar (random default_channel), 0-2 public mutators in place, then the copy against the bar as it is NOW
            minp = dict(inp, muts=BM.gen_muts(rng, chans))
            if "dch" not in minp or rng.random() < 0.5:
                minp["dch"] = rng.choice([None, 0, chans[0], chans[-1], 3, 5, 15])
            if rng.random() < 0.25:
                minp["state"] = rng.choice(U.STATES)
            ctx.count("copy-after-mutation:" + "+".join(m[0] for m in minp["muts"]) if minp["muts"] else "copy-after-mutation:none")
            ctx.check("bar-copy-mut", minp)
        ctx.corr("bar", P.op_bar(n, d, key, rel))
        ctx.corr("barCopy", P.op_barCopy(n, d, key, rel))
        if chans != (0,):
            ctx.count("channels-other-than-0")
        ctx.sample({"rel": rel[:8], "n": n, "d": d, "key": key})
