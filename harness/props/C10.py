"""C10 — a Bar always lasts exactly its time signature, or its construction fails."""
import gens as G
import pyimpl as P
from oracle_util import *  # noqa
from protocol import from_real, KEYS

ID = "C10"
LEAN_MODULE = ["SCoda.Props.C10", "SCoda.Props.C11b", "SCoda.Props.ElemTie", "SCoda.Props.Gaps", "SCoda.Props.StaticLink"]
LEVEL = "proof"
CLAUSES = [
    ("an accepted bar lasts exactly numerator*4/denominator quarter notes (its capacity in ticks, the int-typed value of the Python expression)",
     ["SCoda.C10.bar_duration", "SCoda.C11.barCapacityPy_eq"]),
    ("an accepted bar starts with exactly one time-signature event equal to the bar's signature and contains no other; otherwise it holds the normalised events of the sequence",
     ["SCoda.C10.bar_leading_sig", "SCoda.C10.bar_events"]),
    ("a sequence longer than the capacity is rejected", ["SCoda.C10.bar_too_long"]),
    ("a conflicting or second (different) signature is rejected; the only failure is a bar error; nothing valid is rejected",
     ["SCoda.C10.bar_conflict", "SCoda.C10.bar_two_sigs", "SCoda.C10.bar_error_kind", "SCoda.C10.bar_accepts"]),
    ("copying a bar yields an equal bar", ["SCoda.C10.bar_copy"]),
    ("domain and exactness (audit A15): on 0 <= PPQN, 0 <= numerator, 0 < denominator the model's capacity is the int-typed value of the Python expression; "
     "it is exactly n*4/d quarter notes iff d divides n*PPQN*4 and the floor otherwise (1/128 at PPQN 24: 0 ticks) — 'exactly' without divisibility is refuted; "
     "an identical repeated signature is accepted (the 'second signature' of the property must differ); outside the domain model and Python differ "
     "(d = 0: ZeroDivisionError; n = -1, d = 200: Python truncates towards 0 and accepts) — kernel-checked witnesses, replayed",
     ["SCoda.Gaps.bar_capacity_py", "SCoda.Gaps.bar_capacity_exact", "SCoda.Gaps.bar_capacity_quarters", "SCoda.Gaps.bar_error_kind'", "SCoda.Gaps.bar_duration'",
      "SCoda.Gaps.bar_rejects'", "SCoda.Gaps.bar_exact_statement_false", "SCoda.Gaps.bar_exact_partial", "SCoda.Gaps.bar_second_sig_statement_false",
      "SCoda.Gaps.model_outside_domain_d0", "SCoda.Gaps.model_outside_domain_neg"]),
    ("TIE BY TRANSLATION: Bar.__init__, Bar.copy, Bar.is_empty, Bar.transpose and Bar.to_sequence are re-translated statement by statement from bar.py on "
     "every run (Gen/ElemFns.lean, on top of the translated Sequence wrapper) and proved equal to the model `mkBar` / `Bar.copy` / `barsToSeq` the theorems "
     "above are about: same BarException or same bar, for every wrapper state of the sequence, every sequence and every signature with 0 <= numerator, "
     "0 < denominator (the domain on which Python's int(n*PPQN/(d/4)) is the model's integer capacity); the constructed bar's sequence has its relative view "
     "fresh and its absolute view stale",
     ["SCoda.ElemTie.barInit_eq", "SCoda.ElemTie.barInit_toBar", "SCoda.ElemTie.barInit_flags", "SCoda.ElemTie.barCopy_toBar",
      "SCoda.ElemTie.barCopy_constructed", "SCoda.ElemTie.barTranspose_eq", "SCoda.ElemTie.barIsEmpty_eq", "SCoda.ElemTie.barsToSequence_eq",
      "SCoda.ElemTie.barsToSequence_constructed", "SCoda.ElemTie.pyIntOf_barCap", "SCoda.ElemTie.translated_covered"]),
    ('the link through which the translated sequences_split_bars reads the signature and key queues (AbsoluteSequence.get_message_times_of_type, a hand-written definition in Model/StaticLib.lean) is what the TRANSLATED method computes on a freshly built list, read back through the heap (audit round 3 R1: an edit of that method now breaks this obligation)',
     ["SCoda.StaticLink.timesOfType_link", "SCoda.AbsTie2.getMessageTimesOfType_eq", "SCoda.AbsTie2.timesOfType_init"]),
]
RULE = ("relative sequences shorter than / equal to / longer than the capacity, with zero, one matching, one conflicting "
        "or two signature events, x 12 signatures x keys; non-trivial = sequence has notes or a signature event")
ASSUMPTIONS = ["model: SCoda.mkBar (Model/Bar.lean), tied by correspondence",
               "a repeated identical signature is removed by the constructor's normalise() before the count, so it is accepted (DESIGN C10)"]
SIGS = [(4, 4), (3, 4), (2, 4), (6, 8), (5, 8), (7, 8), (2, 2), (3, 8), (12, 8), (1, 4), (9, 8), (4, 8), (8, 8), (8, 8)] + G.ALL_SIGS


def o_bar(inp):
    from scoda.elements.bar import Bar
    from scoda.exceptions.bar_exception import BarException
    rel = [tuple(m) for m in inp["rel"]]
    n, d, key = inp["n"], inp["d"], inp["key"]
    if d <= 0 or n < 0:
        return [("~skip:signature-outside-the-domain", "")]
    exact = (96 * n) % d == 0           # n*4/d quarter notes is a whole number of ticks
    cap = 96 * n // d
    # what the constructor sees after its normalise(): computed independently for signatures
    sigs = []
    cur = None
    for m in rel:
        if m[TY] == TIMESIG:
            if (m[NUM], m[DEN]) != cur:
                sigs.append((m[NUM], m[DEN]))
                cur = (m[NUM], m[DEN])
    _, dur = rel_timed(rel)
    try:
        b = Bar(P.seq_in_state(rel, inp.get("state", "rel")), n, d, None if key is None else KEYS[key])
    except BarException:
        b = None
    except Exception as e:
        return [("raises", f"unexpected {type(e).__name__}: {e}")]
    fails = []
    if b is None:
        if dur <= cap and len(sigs) <= 1 and all(s == (n, d) for s in sigs):
            fails.append(("spurious-reject", f"valid bar rejected (dur {dur}, cap {cap}, sigs {sigs})"))
        return fails
    if dur > cap:
        fails.append(("too-long", f"sequence of {dur} ticks accepted into a bar of {cap}"))
    if len(sigs) > 1:
        fails.append(("two-sigs", f"signatures {sigs} accepted"))
    if any(s != (n, d) for s in sigs):
        fails.append(("conflict", f"signature {sigs} accepted into a {n}/{d} bar"))
    out = [from_real(m) for m in b.sequence.rel._messages]
    _, dout = rel_timed(out)
    if dout != cap or not is_int(dout):
        fails.append(("duration", f"bar lasts {dout!r}, expected {cap}"))
    elif not exact:
        # the property: "lasts exactly numerator x 4 / denominator quarter notes" — here that is not a whole number of ticks
        fails.append(("duration-exact", f"bar lasts {dout} ticks, {n}x4/{d} quarter notes are {96 * n}/{d} ticks"))
    ts = [i for i, m in enumerate(out) if m[TY] == TIMESIG]
    if ts != [0] or (out[0][NUM], out[0][DEN]) != (n, d):
        fails.append(("leading-sig", f"time-signature events at indices {ts}"))
    try:
        c = b.copy()
        if not (c.sequence == b.sequence and c.time_signature_numerator == n and c.time_signature_denominator == d
                and c.key_signature == b.key_signature):
            fails.append(("copy", "copy is not equal"))
        # equal as music: same timed events and duration (waits may be consolidated)
        if rel_timed([from_real(m) for m in c.sequence.rel._messages]) != rel_timed(out):
            fails.append(("copy", "copy has different timed events or duration"))
    except Exception as e:
        fails.append(("copy", f"copy raised {type(e).__name__}"))
    return fails


def setup(ctx):
    ctx.oracle("bar", o_bar)

    def kf_d28(f):
        # the signature's bar length is not a whole number of ticks at PPQN 24 (the denominator does not divide 96 * numerator)
        return f["clause"] == "duration-exact" and (96 * f["input"]["n"]) % f["input"]["d"] != 0
    ctx.kf_predicates["D28"] = kf_d28


def generate(ctx):
    rng = ctx.rng
    ctx.check("bar", {"rel": [], "n": 1, "d": 128, "key": None})         # D28: a 1/128 bar lasts 0 ticks
    ctx.check("bar", {"rel": [G.pm(WAIT, 0, 40)], "n": 3, "d": 7, "key": None})
    for i in range(ctx.n(300, 5000)):
        n, d = rng.choice(SIGS)
        cap = 96 * n // d
        target = rng.choice([0, cap // 2, cap - 1, cap, cap, cap + 1, cap * 2])
        rel, notes = G.gen_wf_rel(rng, max_tick=max(1, target), max_dur=max(1, target // 2), channels=(0,))
        rel = [m for m in rel if m[TY] != TIMESIG]
        k = rng.random()
        kind = "no-sig"
        if k < 0.25:
            rel.insert(rng.randint(0, len(rel)), G.pm(TIMESIG, 0, None, num=n, den=d)); kind = "matching"
        elif k < 0.4:
            # conflicting value: different length, or the same bar length spelled differently (6/8 in a 3/4 bar)
            cn, cd = rng.choice([(n + 1, d), (2 * n, 2 * d), (2 * n, 2 * d), (n, 2 * d)] + ([(n // 2, d // 2)] if n % 2 == 0 and d % 2 == 0 else [])
                                + [x for x in [G.any_sig(rng), G.any_sig(rng), (8, 8), (4, 4)] if x != (n, d)])
            rel.insert(rng.randint(0, len(rel)), G.pm(TIMESIG, 0, None, num=cn, den=cd)); kind = "conflicting"
            if 96 * cn * d == 96 * n * cd:
                ctx.count("sig:conflicting-same-length")
        elif k < 0.55:
            rel.insert(0, G.pm(TIMESIG, 0, None, num=n, den=d))
            rel.insert(rng.randint(1, len(rel)), G.pm(TIMESIG, 0, None, num=n, den=d * 2 if rng.random() < 0.5 else d)); kind = "two"
        key = rng.choice([None, None, 0, 3, 14])
        _, dur = rel_timed(rel)
        ctx.count("sig:" + kind)
        ctx.count("len:" + ("short" if dur < cap else "exact" if dur == cap else "long"))
        ctx.case((rel, n, d, key), len(notes) > 0 or kind != "no-sig")
        ctx.check("bar", {"rel": rel, "n": n, "d": d, "key": key})
        if i % 4 == 0:
            ctx.count("wrapper-states")
            ctx.check("bar", {"rel": rel, "n": n, "d": d, "key": key, "state": rng.choice(P.SEQ_STATES[1:])})
        ctx.corr("bar", P.op_bar(n, d, key, rel))
        ctx.corr("barCopy", P.op_barCopy(n, d, key, rel))
        ctx.sample({"rel": rel[:8], "n": n, "d": d, "key": key})
