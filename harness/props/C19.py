"""C19 — token annotations agree with the detokenised timeline."""
import math
import gens as G
import pyimpl as P
from oracle_util import *  # noqa
from tokutil import *  # noqa
import h1tok_util as H
import h9_util as U

ID = "C19"
LEAN_MODULE = ["SCoda.Props.C19", "SCoda.Props.C19b", "SCoda.Props.Gaps", "SCoda.Props.TokTie", "SCoda.Props.Defs"]
LEVEL = "proof"
CLAUSES = [
    ("the annotation lists have exactly one entry per token and positions count 0,1,2,...", ["SCoda.C19.lengths", "SCoda.C19.positions", "SCoda.C19.getInfo_eq"]),
    ("the absolute time annotated on each note token equals the onset at which detokenise places that note",
     ["SCoda.C19.clocks_agree", "SCoda.C19.note_annotation", "SCoda.C19.detokenise_eq"]),
    ("pitch and circle-of-fifths annotations equal the note's pitch and the position of its pitch class", ["SCoda.C19.note_annotation"]),
    ("in-bar time = time since the last bar end the detokeniser emitted (every accepted stream); for tokenise-produced streams annotated times never decrease "
     "and the bar ends strictly increase, so 'the start of its bar' is unambiguous",
     ["SCoda.C19.in_bar_clock", "SCoda.C19.in_bar_annotation", "SCoda.C19.times_monotone", "SCoda.C19.barEnds_increasing",
      "SCoda.C19.dfold_detokFold", "SCoda.C19.lastBarEnd_spec"]),

    ("FINAL output (audit A17): for every stream `pre ++ note :: post` that detokenise accepts — in particular every stream of vocabulary tokens — the row of the "
     "note token in get_info is (index, detokeniser clock, in-bar clock, pitch, Gen.getPosition pitch) and the sequences *returned* by detokenise hold, on the "
     "note's track, its note-on at the annotated time and its note-off one duration later (insertions are never undone); the circle-of-fifths column is the "
     "generated get_position: total, in [-5, 6], circleOfFifthsOrder[q+5] = pitch mod 12",
     ["SCoda.Gaps.note_annotation_final", "SCoda.Gaps.note_annotation_vocab", "SCoda.Gaps.cof_annotation"]),
    ("streams produced by a THREADED sequence of tokenise calls (each started from the previous call's state): annotated times never decrease and bar ends strictly "
     "increase across call boundaries; the concatenation is accepted by detokenise",
     ["SCoda.Gaps.times_monotone_threaded", "SCoda.Gaps.barEnds_increasing_threaded", "SCoda.Gaps.threaded_accepted"]),
    ("TIE BY TRANSLATION, tokeniser: MultiTrackLargeVocabularyNotelikeTokeniser is re-translated statement by statement on every run (Gen/TokFns.lean, tools/py2lean_tok.py: __init__, _construct_dictionary, tokenise with its closure _apply_rest as a fuelled loop, detokenise, get_info, encode, decode; f-strings as string concatenation, dicts as association lists, floats as exact rationals) and each translation is proved equal to the hand model the theorems above are about, on rendered token strings: get_info on rendered tokens = the model's getInfo (0 ≤ ppqn, natural-number token fields; never raises), detokenise = model detokenise",
     ["SCoda.TokTie.getInfo_eq", "SCoda.TokTie.detokenise_eq", "SCoda.TokTie.detokenise_step"]),
    ("detokenise on arbitrary strings: on every string list the model parser accepts (numeric fields non-empty ASCII digit strings, any width, parts in any order) the generated code equals the model for ppqn >= 0 and non-zero denominators; tsg_04_00 raises ZeroDivisionError (model: capacity 0); the source also accepts rst_+5 / 'rst_ 5', which the model parser rejects (an artefact of the model's int parser, not of the code; non-ASCII digits are outside the link int(str))",
     ["SCoda.Defs.detokenise_strings_partial", "SCoda.Defs.model_int_digits", "SCoda.Defs.parse_accepts_rep", "SCoda.Defs.detokenise_strings_statement_false", "SCoda.Defs.detokenise_plus_sign", "SCoda.Defs.parseTok_plus_sign", "SCoda.Defs.detokenise_anystring_statement_false"]),
]
RULE = ("random streams over the vocabulary of sampled configurations (<=60 tokens: bar tokens in partly filled bars, "
        "signature tokens mid-bar, unfused running values), plus streams produced by tokenise from valid pieces (the piece is the input: the "
        "oracle tokenises it, and a token outside the vocabulary is a violation, not a skipped case), with and without value imputation; "
        "configurations include other resolutions (ppqn 6/12/48/96), custom / unsorted step lists, a step above ppqn, three-digit steps, "
        "repeated list entries and custom note values; HISTORIES (seed round 9): before get_info a short random sequence of other public calls that read "
        "the music-theory tables is made (get_distance / from_distance / get_position with references that are no C, key guesses, transpositions, "
        "get_info of other streams) — the annotations of a stream do not depend on what was called before; non-trivial = stream has a note token "
        "after a rest/bar token")
ASSUMPTIONS = ["models: SCoda.getInfo and SCoda.detokenise, tied by translation (TokTie.getInfo_eq / detokenise_eq on rendered tokens, ppqn >= 0) and by correspondence on the same streams"]
COF = {0: 0, 7: 1, 2: 2, 9: 3, 4: 4, 11: 5, 6: 6, 1: -5, 8: -4, 3: -3, 10: -2, 5: -1}


def note_onsets_by_prefix(tk, toks):
    """onset detokenise gives to the note of token i: the note-on that appears when token i is added"""
    res = {}
    prev = None
    for i, t in enumerate(toks):
        if "pit" not in t:
            continue
        before = tk.detokenise(toks[:i])
        after = tk.detokenise(toks[:i + 1])
        b = sorted((ti, m.time, m.note) for ti, s in enumerate(before) for m in s.abs._messages if m.message_type.value == "note_on")
        a = sorted((ti, m.time, m.note) for ti, s in enumerate(after) for m in s.abs._messages if m.message_type.value == "note_on")
        for x in b:
            a.remove(x)
        res[i] = a[0] if len(a) == 1 else None
    return res


def o_info(inp):
    # process state (seed round 9): the circle-of-fifths annotation is read from a class-level table.  When that table no longer answers as the
    # harness's own table does BEFORE this input does anything (an earlier input's history left it so: a new interpreter answers rightly), nothing is restored: the input is judged in
    # a fresh interpreter, so that its verdict — and the replay file — depend on the input alone
    if not U.IN_CHILD and not U.position_state_ok() and U.fresh_ok("position"):
        return U.eval_fresh(ID, "info", inp)
    cfg = P.TkCfg(**inp["cfg"])
    tk = cfg.tk()
    if inp.get("tracks") is not None:
        # a stream produced by tokenise: the PIECE is the input (audit round 3, O3) and the stream is made here
        try:
            toks = tk.tokenise([P.seq_of_rel([tuple(m) for m in t]) for t in inp["tracks"]])
        except Exception:
            return [("~skip:input-not-accepted", "")]
    else:
        toks = list(inp["toks"])
    if any(t not in tk.dictionary for t in toks):
        if inp.get("from_tokenise"):
            # "streams obtained from valid pieces" are streams of vocabulary tokens: tokenise left its own vocabulary (C02's closure,
            # without which this property says nothing about the stream)
            return [("closed", f"tokenise emitted tokens outside the vocabulary: {[t for t in toks if t not in tk.dictionary][:4]}")]
        return [("~skip:not-vocabulary", "")]
    fails = []
    if inp.get("history"):
        # public calls made earlier in the process, as plain data (h9_util.run_theory_op): what they return is C20's business, not judged here
        for op in inp["history"]:
            U.run_theory_op(op)
    if inp.get("earlier"):
        # the same tokeniser annotated earlier streams, and the caller REUSES ITS LIST OBJECT: it is rewritten in place to the stream
        # under test (resampling during generation does exactly this); the earlier streams are part of the replayable input
        buf = []
        for e in inp["earlier"]:
            e = [t for t in e if t in tk.dictionary]
            buf[:len(e)] = e
            del buf[len(e):]
            try:
                tk.get_info(buf, flag_impute_values=inp["impute"])
            except Exception:
                pass
        buf[:len(toks)] = toks
        del buf[len(toks):]
        toks_arg = buf
    else:
        toks_arg = toks
    try:
        info = tk.get_info(toks_arg, flag_impute_values=inp["impute"])
    except Exception as e:
        return [("raises", f"get_info: {type(e).__name__}: {e}")]
    names = ["info_position", "info_time", "info_time_bar", "info_pitch", "info_circle_of_fifths"]
    for nme in names:
        if len(info[nme]) != len(toks):
            fails.append(("lengths", f"{nme} has {len(info[nme])} entries for {len(toks)} tokens"))
    if fails:
        return fails
    if info["info_position"] != list(range(len(toks))):
        fails.append(("positions", "positions are not 0,1,2,..."))
    try:
        onsets = note_onsets_by_prefix(tk, toks)
    except Exception as e:
        return fails + [("raises", f"detokenise: {type(e).__name__}: {e}")]
    for i, placed in onsets.items():
        if placed is None:
            continue
        _, onset, pitch = placed
        if info["info_time"][i] != onset:
            fails.append(("same-clock", f"token {i} ({toks[i]}): annotated time {info['info_time'][i]}, detokenised onset {onset}"))
        if info["info_pitch"][i] != pitch:
            fails.append(("pitch", f"token {i}: annotated pitch {info['info_pitch'][i]}, note pitch {pitch}"))
        if info["info_circle_of_fifths"][i] != COF[pitch % 12]:
            fails.append(("cof", f"token {i}: annotated cof {info['info_circle_of_fifths'][i]}, expected {COF[pitch % 12]}"))
    if inp.get("from_tokenise"):
        ts = info["info_time"]
        if any(b < a for a, b in zip(ts, ts[1:])):
            fails.append(("monotone", "annotated times decrease"))
        # bar starts from the detokenised bar grid
        seqs = tk.detokenise(toks)
        ends = sorted({m.time for s in seqs for m in s.abs._messages if m.message_type.value == "internal"})
        for i, placed in onsets.items():
            if placed is None:
                continue
            onset = placed[1]
            start = max([e for e in ends if e <= onset] + [0])
            if info["info_time_bar"][i] != onset - start:
                fails.append(("in-bar", f"token {i}: in-bar time {info['info_time_bar'][i]}, onset {onset} - bar start {start}"))
        # "the start of its bar" on the detokenised timeline, read a second way (audit round 3, O8): the bar lines induced by the time-signature
        # EVENTS detokenise returned (default 8/8 before the first) must be the bar ends it returned, so both give every note the same bar start
        ppqn = cfg.kw["ppqn"] or 24
        sig_ev = sorted([x for v in detok_view(seqs) for x in v["sigs"]], key=lambda x: x[0])
        for i, placed in onsets.items():
            if placed is None:
                continue
            onset = placed[1]
            start = max([e for e in ends if e <= onset] + [0])
            g = bar_grid(sig_ev, onset + 1, ppqn)
            if g is None:
                continue
            start2 = g[-2] if len(g) >= 2 else 0
            if start2 != start:
                fails.append(("in-bar", f"token {i}: the bar of onset {onset} starts at {start} by the bar ends detokenise returned, at {start2} by the "
                                        f"time signatures it returned {sig_ev}"))
                break
    return fails


def setup(ctx):
    ctx.oracle("info", o_info)


# audit round 3: O8 (a signature change after the first bar: the bar lines induced by the returned signature events are the returned bar ends)
# and O3 (a step above ppqn is a vocabulary token: the stream tokenise makes of this piece is a stream over the vocabulary)
SIG_EXAMPLE = {"cfg": dict(num_tracks=1), "impute": False, "from_tokenise": True, "tracks": [[
    G.pm(TIMESIG, 0, None, num=4, den=4), G.pm(ON, 0, None, note=60, vel=64), G.pm(WAIT, 0, 24), G.pm(OFF, 0, None, note=60), G.pm(WAIT, 0, 72),
    G.pm(TIMESIG, 0, None, num=3, den=4), G.pm(WAIT, 0, 72), G.pm(ON, 0, None, note=62, vel=64), G.pm(WAIT, 0, 24), G.pm(OFF, 0, None, note=62), G.pm(WAIT, 0, 48)]]}
STEP_EXAMPLE = {"cfg": dict(num_tracks=1, step_sizes=[2, 4, 8, 48], note_values=[24]), "impute": False, "from_tokenise": True, "tracks": [[
    G.pm(TIMESIG, 0, None, num=4, den=4), G.pm(WAIT, 0, 48), G.pm(ON, 0, None, note=60, vel=64), G.pm(WAIT, 0, 24), G.pm(OFF, 0, None, note=60), G.pm(WAIT, 0, 24)]]}


def generate(ctx):
    rng = ctx.rng
    pool = []
    ctx.check("info", SIG_EXAMPLE)
    ctx.check("info", STEP_EXAMPLE)
    for i in range(ctx.n(80, 2000)):
        nt = rng.choice([1, 2])
        kw = dict(num_tracks=nt, velocity_bins=rng.choice([1, 2, 4]), running=rng.random() < 0.5, fuse_track=rng.random() < 0.5,
                  fuse_value=rng.random() < 0.5, fuse_velocity=rng.random() < 0.5, simplify_ts=rng.random() < 0.5,
                  pitch_range=(58, 66))
        if rng.random() < 0.3:
            kw["ppqn"] = rng.choice([12, 48, 96, 6])      # a tokeniser built for another resolution
            ctx.count("ppqn:non-default")
        if rng.random() < 0.3:
            # off the default step list: custom / unsorted lists, a step above ppqn, three-digit steps, repeated entries (audit round 3, O3)
            kw["step_sizes"] = list(rng.choice(H.STEP_MENU[kw.get("ppqn", 24)] + H.DUP_STEPS[:2]))
            for lab in H.describe_cfg(kw):
                ctx.count("cfg:" + lab)
        if rng.random() < 0.25:
            kw["pitch_range"] = rng.choice([(120, 127), (0, 8), (123, 127)])      # both ends of the MIDI pitch range
            ctx.count("pitch-range:extreme")
        if rng.random() < 0.2:
            kw["note_values"] = rng.choice([[24, 48, 96, 144, 192], [12, 100, 7]])      # fields wider than their zero padding
            ctx.count("values:three-digit")
        cfg = P.TkCfg(**kw)
        tk = cfg.tk()
        keys = list(tk.dictionary.keys())
        rests = [k for k in keys if k.startswith("rst")]
        notes = [k for k in keys if "pit" in k]
        sigs = [k for k in keys if k.startswith("tsg")]
        singles = [k for k in keys if k[:3] in ("trk", "val", "vel") and "pit" not in k]
        impute = rng.random() < 0.5
        if i % 3 != 0:
            n = rng.randint(1, 40 if not ctx.thorough else 60)
            toks = []
            for _ in range(n):
                r = rng.random()
                if r < 0.35:
                    toks.append(rng.choice(notes))
                elif r < 0.6:
                    toks.append(rng.choice(rests))
                elif r < 0.72:
                    toks.append("bar")
                elif r < 0.82:
                    toks.append(rng.choice(sigs))
                elif r < 0.92 and singles:
                    toks.append(rng.choice(singles))
                else:
                    toks.append(rng.choice(["pad", "sta", "sto"]))
            from_tok = False
        else:
            # drawn on the configuration's own grid (resolution, step unit, note values, pitch range)
            piece = H.gen_piece_p(rng, ppqn=kw.get("ppqn") or 24, steps=kw.get("step_sizes"), values=kw.get("note_values"), n_tracks=nt,
                                  pitch_range=kw["pitch_range"], max_notes_per_bar=rng.choice([1, 2, 3]), tail_ok=rng.random() < 0.3)
            try:
                toks = tk.tokenise([P.seq_of_rel(t) for t in piece["tracks"]])
            except Exception:
                ctx.count("piece-not-accepted")
                continue
            from_tok = True
        nontriv = any("pit" in t and j > 0 and any(x.startswith(("rst", "bar")) for x in toks[:j]) for j, t in enumerate(toks))
        ctx.case((sorted(kw.items()), toks, impute), nontriv)
        ctx.count("from-tokenise" if from_tok else "random-stream")
        if from_tok:
            ctx.check("info", {"cfg": kw, "tracks": piece["tracks"], "impute": impute, "from_tokenise": True})
        else:
            ctx.check("info", {"cfg": kw, "toks": toks, "impute": impute, "from_tokenise": False})
        if i % 3 == 0 and len(toks) >= 3 and all(t in tk.dictionary for t in toks):
            # the caller's list object was annotated before with other content and rewritten in place
            vocab_note = [t for t in toks if "pit" in t] or toks
            e1 = list(toks)
            for _ in range(rng.randint(1, 3)):
                e1[rng.randrange(len(e1))] = rng.choice(toks)
            earlier = [e1] + ([toks[:rng.randint(1, len(toks))]] if rng.random() < 0.5 else [])
            ctx.count("list-object-annotated-before")
            ctx.check("info", {"cfg": kw, "toks": toks, "impute": impute, "from_tokenise": from_tok, "earlier": earlier})
        ctx.corr("info", P.op_info(cfg, impute, toks))
        ctx.corr("detokenise", P.op_detokenise(cfg, toks))
        ctx.sample({"cfg": {k: str(v) for k, v in kw.items()}, "toks": toks[:12], "impute": impute})
        if from_tok:
            pool.append({"cfg": kw, "tracks": piece["tracks"], "impute": impute, "from_tokenise": True})
        elif any("pit" in t for t in toks):
            pool.append({"cfg": kw, "toks": toks, "impute": impute, "from_tokenise": False})
    # histories LAST (everything above, and the answers recorded for the correspondence, are taken in an untouched process): the streams drawn above,
    # annotated after a short history of other public calls that read the music-theory tables
    for j in range(ctx.n(40, 400)):
        if not pool:
            break
        base = rng.choice(pool)
        hist = U.gen_theory_history(rng, 1, 5)
        for k in U.describe_history(hist):
            ctx.count("history-op:" + k)
        last = [op for op in hist if op["op"] == "distance"]
        if last and last[-1]["a"] % 12 != 0:
            ctx.count("history:last-distance-from-a-reference-that-is-no-C")
        ctx.count("history:" + ("from-tokenise" if base.get("from_tokenise") else "random-stream"))
        ctx.case(("history", hist, sorted(base["cfg"].items()), base.get("toks") or base.get("tracks"), base["impute"]), True)
        if ctx.check("info", dict(base, history=hist)):
            ctx.count("history:stopped-after-the-first-failing-one")
            break
