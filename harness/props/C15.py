"""C15 — merging sequences yields exactly the union of their music."""
import itertools
import os
import gens as G
import h3midi_util as H
import pyimpl as P
from oracle_util import *  # noqa
from protocol import from_real

ID = "C15"
LEAN_MODULE = ["SCoda.Props.C15", "SCoda.Props.NotesB", "SCoda.Props.ViewTie", "SCoda.Props.WrapTie", "SCoda.Props.AbsTie2", "SCoda.Props.SortTie"]
LEVEL = "proof"
CLAUSES = [
    ("sounding set of the merge = union of the inputs' sounding sets (overlaps fused from earliest start to latest end); the merge is well-formed; "
     "the model's mergeRel is what the wrapper computes", ["SCoda.C15.union", "SCoda.C15.wf", "SCoda.C15.mergeSeq_eq"]),
    ("every signature event that does not repeat the one in force is kept at its tick; nothing is invented; other events all kept",
     ["SCoda.C15.signatures", "SCoda.C15.events_sublist", "SCoda.C15.others_kept"]),
    ("duration = maximum input duration", ["SCoda.C15.duration"]),
    ("the sounding set (hence every note's pitch, onset and duration) does not depend on the merge order", ["SCoda.C15.order_independent"]),
    ("NOTES, not only sounding sets (audit A11): the notes of the merge are a FUSION of the inputs' notes — a code-free specification: separated notes, the same covered "
     "ticks, a note starts at s iff an input note starts there and s is not strictly inside another input note of its key (touching notes stay apart) — the fusion is "
     "unique, each fused note is a connected component of the input intervals, its velocity is that of an input note with its key and onset; the independent function "
     "`fuse` (sort + one sweep) computes it; note shapes (channel, pitch, onset, end) are a permutation-invariant of the input family; the velocity on a same-tick tie does "
     "depend on the merge order (refuted statement, replayed: 64 vs 90) — the property only claims (pitch, onset, duration)",
     ["SCoda.NotesB.merge_notes_fused", "SCoda.NotesB.merge_notes_fuse", "SCoda.NotesB.fusion_unique", "SCoda.NotesB.merge_notes_eq_fusion",
      "SCoda.NotesB.fusion_component", "SCoda.NotesB.merge_velocity", "SCoda.NotesB.order_independent_notes", "SCoda.NotesB.order_independent_pod",
      "SCoda.NotesB.order_independent_velocity_statement_false", "SCoda.NotesB.notes_lift", "SCoda.NotesB.lift_sounding_only_statement_false"]),
    ("both kinds of signature as TIMED lists: the (tick, numerator, denominator) and (tick, key) lists of the merge are those of the tick-ordered union of the inputs with "
     "every repeat of the value in force removed (the first of a run survives, at its tick)", ["SCoda.NotesB.merge_signatures_timed", "SCoda.NotesB.union_signatures"]),
    ("TIE BY TRANSLATION: AbsoluteSequence.merge and Sequence.merge (absolute views of the arguments, merge, invalidate, normalise) as re-translated from the source "
     "equal the models mergeAbs / Seq.mergeSeq", ["SCoda.ViewTie.merge_eq", "SCoda.WrapTie.merge_eq", "SCoda.ViewTie.normaliseAbsolute_eq"]),
    ("the union clause needs notes of positive length: with a zero-length note in an input it is refuted (A = [5,10), B = [5,5): A's note is lost) — known finding D17c, "
     "replayed; stated without PosDur for inputs whose canonical sort is well-formed",
     ["SCoda.NotesB.union_statement_false", "SCoda.NotesB.union_partial", "SCoda.NotesB.union_sorted", "SCoda.NotesB.merge_notes_fused_sorted",
      "SCoda.NotesB.order_independent_notes_sorted"]),
    ('TIE BY TRANSLATION, absolute view with object identity: the dict-heavy / aliasing methods of AbsoluteSequence are re-translated statement by statement on every run (Gen/AbsFns2.lean, tools/py2lean_abs2.py: Message objects live in a heap, a reference is a position tag, stores through any alias update the heap cell, dicts are insertion-ordered association lists, while loops carry proved fuel bounds) and proved equal to the hand models, for every heap and reference list with references into the heap and channels not None: merge read back = the model mergeAbs, no hypothesis',
     ["SCoda.AbsTie2.merge_refs", "SCoda.AbsTie2.mergeAbs_eq"]),
    ("TIE BY TRANSLATION of the sort that every absolute-view operation goes through: AbsoluteSequence.sort (its list.sort call and the key lambda (time, -1 if channel is None else channel, message_type, note)), MessageType.__lt__ and the declaration order of the enum members are re-translated expression by expression on every run (Gen/SortFns.lean, tools/py2lean_sort.py; Python's == and < on None / int / enum members, tuple comparison, list.index and list.sort are the language model Model/SortLib.lean) and proved equal to the hand model: on every message list whose keys Python can compare (the times are all None or all ints; two messages equal in (time, channel, type) have both notes None or both ints) the translated sort returns exactly sortAbs l, through any projection (heap references, tagged messages); outside that domain it raises TypeError, as the real code does (replayed: a NOTE_ON with a note and a hand-built NOTE_ON without one on the same tick and channel; a message without a time in a timed sequence; two TIME_SIGNATUREs on one tick and channel are inside the domain); keyLe a b holds iff key(b) < key(a) is False; Python's key order is a strict weak order on the domain and ANY stable sort by it (a permutation that is sorted and keeps the relative order of equal keys) is sortAbs l — modelling CPython's timsort by an insertion sort is a theorem, the one assumption left is that list.sort is a stable comparison sort. This discharges the list.sort links of tools/py2lean.py (sort -> sortAbs) and tools/py2lean_abs2.py (sortRefs), which until now were only fingerprinted (tools/conventions.py)",
     ["SCoda.SortTie.sort_eq", "SCoda.SortTie.sortOf_eq_isort", "SCoda.SortTie.sort_raises", "SCoda.SortTie.sortOf_raises", "SCoda.SortTie.sort_ok_iff", "SCoda.SortTie.keyLe_iff", "SCoda.SortTie.keyLt_eq", "SCoda.SortTie.keyLt_ok_iff_comparable", "SCoda.SortTie.messageTypeLt_eq", "SCoda.SortTie.messageTypeLt_nonmember", "SCoda.SortTie.members_eq", "SCoda.SortTie.memberNames_eq", "SCoda.SortTie.generated_order_strictWeakOrder", "SCoda.SortTie.any_stable_sort_eq_sortAbs", "SCoda.SortTie.stable_sort_is_isortBy", "SCoda.SortTie.isortBy_is_stable_sort", "SCoda.SortTie.sortDom_of_wellFormed", "SCoda.SortTie.sortRefs_discharged", "SCoda.SortTie.viewSort_discharged", "SCoda.SortTie.sort_eq_statement_false", "SCoda.SortTie.keyLe_iff_statement_false"]),
]
RULE = ("families of 1-3 well-formed sequences x <=4 notes, same and different channels, several pitch sets (two colliding pitches, range and "
        "MIDI limits, a cluster), overlapping and abutting notes, different lengths, empty sequences, inputs that all start with the same / their "
        "own signature at tick 0, zero-length notes; non-trivial = two inputs with notes on a common (channel, pitch)")
ASSUMPTIONS = ["models: SCoda.mergeAbs + SCoda.normalise (Seq.mergeSeq), tied by correspondence"]


def merged(rels, order, states=None):
    seqs = [P.seq_in_state(rels[i], (states or {}).get(i, "rel")) for i in order]
    seqs[0].merge(seqs[1:])
    return seqs[0]


def union_iv(list_of_timed):
    u = {}
    for timed in list_of_timed:
        for k, ivs in sounding(timed).items():
            u.setdefault(k, []).extend(ivs)
    return norm_intervals(u)


_DISTURBED = [False]      # a history case failed in this process: later inputs (the shrinker's) are judged in a new interpreter each


def o_merge(inp):
    if _DISTURBED[0] and os.environ.get("H9_CHILD") != "1":
        # nothing is restored: the shrunk input must reproduce on its own, so it is judged where no earlier case has run
        import h9_util
        return h9_util.eval_fresh("C15", "merge", inp)
    fails = o_merge_here(inp)
    if inp.get("prelude") and any(not str(c).startswith("~") for c, _ in fails):
        _DISTURBED[0] = True
    return fails


def o_merge_here(inp):
    rels = [[tuple(m) for m in r] for r in inp["rels"]]
    if not rels:
        return [("~skip:no-input", "")]
    for r in rels:
        tr, _ = rel_timed(r)
        if wf_violations(tr) or any(on > off for (_, _, on, off, _) in notes_of(tr)):
            return [("~skip:not-well-formed", "")]
    sts = {int(k): v for k, v in (inp.get("states") or {}).items()}
    # PRELUDE (seed round 9: a process-wide memo of WAIT messages, mutated in place by `scale`): before the merge that is judged, the same
    # inputs are merged into a THROWAWAY object and that object is changed in place through the public API.  Values are independent, so
    # nothing of this may reach the sequences built afterwards; the throwaway's own result is not judged here.
    for op in inp.get("prelude") or []:
        try:
            tm = merged(rels, list(range(len(rels))), sts)
            # throwaways whose relative view comes STRAIGHT from the conversion (not re-created by normalise): every input and the merged timeline,
            # each built from absolute messages only
            throw = [P.seq_in_state(r, "abs") for r in rels if r] + [P.Sequence(absolute_sequence=P.mk_abs([from_real(m) for m in tm.abs._messages])), tm]
        except Exception:
            throw = []
        for t in throw:
          try:
            t.rel
            t.abs
            if op[0] == "scale":
                t.scale(op[1], quantise_afterwards=False)
            elif op[0] == "scale_q":
                t.scale(op[1])
            elif op[0] == "set_channel":
                t.set_channel(op[1])
            elif op[0] == "edit_waits":
                for m in t.messages_rel():
                    if m.message_type.value == "wait":
                        m.time += op[1]
            elif op[0] == "edit_abs":
                for m in t.messages_abs():
                    m.time += op[1]
            elif op[0] == "quantise":
                t.quantise([op[1]])
            elif op[0] == "transpose":
                t.transpose(op[1])
            elif op[0] == "pad":
                t.pad(op[1])
          except Exception:
            pass
    try:
        s = merged(rels, list(range(len(rels))), sts)
    except Exception as e:
        return [("raises", f"{type(e).__name__}: {e}")]
    out = [from_real(m) for m in s.rel._messages]
    tout, dout = rel_timed(out)
    tins = [rel_timed(r) for r in rels]
    if dout > 4 * max(d for _, d in tins) + 1000:
        # far longer than any input: say so without enumerating the sounding ticks of a runaway result (process-wide state that grows with
        # every case would otherwise hang the search instead of failing it)
        return [("duration", f"{dout} vs max of {[d for _, d in tins]}")]
    fails = []
    exp = union_iv([t for t, _ in tins])
    if sounding(tout) != exp:
        fails.append(("union", H.Detail(f"expected {exp}, got {sounding(tout)}", expected=exp, got=sounding(tout))))
    if dout != max(d for _, d in tins):
        fails.append(("duration", f"{dout} vs max of {[d for _, d in tins]}"))
    allin = sorted([x for t, _ in tins for x in t], key=lambda x: x[0])
    for ty, default in ((TIMESIG, None), (KEYSIG, None)):
        ticks = [t for t, m in allin if m[TY] == ty]
        if len(ticks) == len(set(ticks)):     # unambiguous: at most one such event per tick
            if sig_in_force(allin, ty, default) != sig_in_force(tout, ty, default):
                fails.append(("sigs", f"signature timeline differs: {sig_in_force(allin, ty, default)} vs {sig_in_force(tout, ty, default)}"))
        # "every signature event that does not repeat the one in force is kept at its tick" — as EVENTS, and also when several inputs
        # give a signature on one tick (audit 3, O10: the normal case, every input starts with a time signature at tick 0; the text does
        # not say which of them comes last, so any order of the events of one tick is admitted, nothing else)
        val = (lambda m: (m[NUM], m[DEN])) if ty == TIMESIG else (lambda m: m[KEY])
        given = [(t, val(m)) for t, m in allin if m[TY] == ty]
        kept = [(t, val(m)) for t, m in tout if m[TY] == ty]
        bad = H.kept_events_violation(given, kept)
        if bad == "too-many":
            fails.append(("~unjudged:many-signatures-on-one-tick", ""))
        elif bad:
            fails.append(("sigs", f"{'time' if ty == TIMESIG else 'key'} signature events: {bad}"))
    shapes = None
    for order in itertools.permutations(range(len(rels))):
        try:
            so = merged(rels, list(order), sts)
        except Exception as e:
            fails.append(("order", f"order {order} raised {type(e).__name__}"))
            continue
        to, _ = rel_timed([from_real(m) for m in so.rel._messages])
        sh = sorted((c, p, on, off) for (c, p, on, off, v) in notes_of(to))
        if shapes is None:
            shapes = sh
        elif sh != shapes:
            fails.append(("order", f"note shapes depend on the order: {shapes} vs {sh} (order {order})"))
    return fails


def zero_length_input(rels):
    for r in rels:
        tr, _ = rel_timed(r)
        if any(on == off for (_, _, on, off, _) in notes_of(tr)):
            return True
    return False


# A = note 60 [5,10), B = note 60 [5,5): the merge holds no note at all (A's note is lost)
D17C_EXAMPLE = {"rels": [[G.pm(WAIT, 0, 5), G.pm(ON, 0, None, note=60, vel=64), G.pm(WAIT, 0, 5), G.pm(OFF, 0, None, note=60)],
                         [G.pm(WAIT, 0, 5), G.pm(ON, 0, None, note=60, vel=64), G.pm(OFF, 0, None, note=60)]]}


def setup(ctx):
    ctx.oracle("merge", o_merge)

    def kf_d17c(f):
        # an input holds a zero-length note (note-on and note-off on one tick) AND the OUTCOME is the mechanism's (audit round 4, B5): the merged
        # absolute view is kept in canonical order, which lists that note's note-off before its note-on; normalise drops the note-off as an orphan
        # — or lets it close a note of the key that another input has sounding there —, the note-on left open swallows every later note of
        # the key and is removed at the end (h3midi_util.merged_notes_model on the inputs' events, in the merge order).  Known only when the
        # sounding set of the merge is exactly that, and every (channel, pitch) on which it differs from the union is the key of such a note.
        # Clause 'union' only (audit round 4, B7): the note shapes never depend on the merge order on /repo, zero-length notes or not (the merge
        # is one stable sort of all events, and events with equal sort keys differ in velocity at most: 0 'order' failures next to 3 838 'union'
        # failures on 6 000 families of two or three inputs with zero-length notes on one pitch) — an 'order' failure is always reported
        if f["clause"] != "union":
            return False
        d = H.data_of(f)
        lists, zero = [], set()
        for r in f["input"]["rels"]:
            tr, _ = rel_timed([tuple(m) for m in r])
            evs = [(t, m[TY], m[CH], m[NOTE], m[VEL]) for t, m in tr if m[TY] in (ON, OFF)]
            lists.append(evs)
            zero |= H.zero_length_keys(evs)
        if not zero or "got" not in d:
            return False
        model = H.sounding_of_events(H.merged_notes_model(lists))
        damaged = {k for k in set(model) | set(d["expected"]) if model.get(k) != d["expected"].get(k)}
        return bool(damaged) and damaged <= zero and d["got"] == model
    ctx.kf_predicates["D17c"] = kf_d17c


def generate(ctx):
    rng = ctx.rng
    prelude_cases = []
    try:
        generate_main(ctx, rng, prelude_cases)
    finally:
        # the history cases run LAST and stop at the first failure: on a tree with process-wide state every later case would be judged in a
        # poisoned process (and a state that grows with every case makes later cases arbitrarily slow)
        for inp in prelude_cases:
            ctx.count("prelude:" + inp["prelude"][0][0])
            if [f for f in (ctx.check("merge", inp) or []) if not str(f[0]).startswith("~")]:
                break


def generate_main(ctx, rng, prelude_cases):
    ctx.check("merge", D17C_EXAMPLE)            # the recorded instance of the known finding
    for i in range(ctx.n(300, 8000)):
        k = rng.choice([1, 2, 2, 3])
        rels, allnotes = [], []
        chans = rng.choice([(0,), (0, 1)])
        # mostly two pitches (so that notes of the inputs collide), sometimes other sets: range limits, MIDI limits, a cluster
        pitches = rng.choice([[60, 62], [60, 62], [60, 62], [21, 108], [0, 127, 64], [59, 60, 61, 62]])
        ctx.count("pitches:%s" % ("60,62" if pitches == [60, 62] else "other"))
        start_sigs = rng.random() < 0.3
        same_ts = rng.choice([(4, 4), (3, 4)]) if rng.random() < 0.6 else None
        zero_len = rng.random() < 0.05
        if start_sigs:
            ctx.count("every-input-starts-with-a-signature-at-0:" + ("same" if same_ts else "own"))
        for _ in range(k):
            if rng.random() < 0.1:
                rels.append([]); allnotes.append([])
                continue
            r, notes = G.gen_wf_rel(rng, n_notes=rng.randint(0, 4), channels=chans, pitches=pitches, max_tick=80, max_dur=40)
            if start_sigs or zero_len:
                a_ = [(t, m) for t, m in rel_timed(r)[0]]
                ab = [(m[0], m[1], t) + tuple(m[3:]) for t, m in a_]
                if start_sigs:
                    # every input starts with a time signature (and perhaps a key) at tick 0: the same one, or its own
                    ab = [m for m in ab if not (m[0] in (TIMESIG, KEYSIG) and m[2] == 0)]
                    ts = same_ts if same_ts is not None else G.any_sig(rng)
                    ab.insert(0, G.pm(TIMESIG, 0, 0, num=ts[0], den=ts[1]))
                    if rng.random() < 0.4:
                        ab.insert(1, G.pm(KEYSIG, 0, 0, key=rng.choice([0, 0, 5, rng.randrange(15)])))
                if zero_len and rng.random() < 0.5:
                    zc, zp = rng.choice(chans), rng.choice(pitches)
                    zt = rng.choice([n[2] for n in notes] + [n[2] + n[3] for n in notes] + [rng.randint(0, 80)])
                    if not any(x[0] == zc and x[1] == zp and x[2] <= zt <= x[2] + x[3] for x in notes):
                        ab += [G.pm(ON, zc, zt, note=zp, vel=64), G.pm(OFF, zc, zt, note=zp)]
                        ctx.count("zero-length-note-in-an-input(D17c class)")
                ab = sorted(ab, key=lambda m: m[2])           # stable: the order within a tick stays as listed (on before off)
                r = G.abs_to_rel(ab + [G.pm(INTERNAL, 0, rel_timed(r)[1])])
            if rng.random() < 0.25:
                r = G.unconsolidate(rng, r)
                ctx.count("rel:unconsolidated")
            rels.append(r); allnotes.append(notes)
        keys = [set((n[0], n[1]) for n in ns) for ns in allnotes]
        common = any(keys[a] & keys[b] for a in range(k) for b in range(a + 1, k))
        ctx.case(rels, common)
        ctx.count("inputs:%d" % k)
        ctx.check("merge", {"rels": rels})
        if i % 4 == 0:
            ctx.count("wrapper-states")
            ctx.check("merge", {"rels": rels, "states": {str(j): rng.choice(P.SEQ_STATES) for j in range(len(rels))}})
        if i % 3 == 1:
            # the same merge after a throwaway merge of the same data was changed in place (process-wide state must not exist)
            pre = [rng.choice([["scale", rng.choice([2, 3])], ["scale_q", 2], ["set_channel", rng.choice([1, 5])], ["edit_waits", rng.choice([1, 7])],
                               ["edit_abs", rng.choice([1, 5])], ["quantise", rng.choice([5, 7, 36])], ["transpose", rng.choice([1, -13])], ["pad", 200]])
                   for _ in range(rng.choice([1, 1, 2]))]
            st = {str(j): rng.choice(["abs", "abs", "rel", "both"]) for j in range(len(rels))} if rng.random() < 0.7 else None
            prelude_cases.append(dict({"rels": rels, "prelude": pre}, **({"states": st} if st else {})))
        a0 = [from_real(m) for m in P.seq_of_rel(rels[0]).abs._messages]
        others = [[from_real(m) for m in P.seq_of_rel(r).abs._messages] for r in rels[1:]]
        ctx.corr("seq", P.op_seq(("rel", rels[0]), [("merge", others), ("readAbs",), ("readRel",)]))
        ctx.corr("merge", P.op_merge(a0, others))
        ctx.sample({"rels": [r[:6] for r in rels]})
    # deep overlaps: three to five inputs whose notes of ONE channel and pitch all sound at a common tick (overlap depth >= 3), with ends in
    # random order — the fused note must last to the LATEST end (seeded change C15_agent7: nesting counted up to depth 2 only)
    for i in range(ctx.n(60, 1500)):
        k = rng.randint(3, 5)
        ch, pitch = rng.choice([0, 1]), rng.choice([60, 62])
        common = rng.randint(20, 60)
        rels = []
        for j in range(k):
            on = rng.randint(0, common)
            off = rng.randint(common + 1, 200)
            ab = [G.pm(ON, ch, on, note=pitch, vel=rng.choice([1, 64, 127])), G.pm(OFF, ch, off, note=pitch)]
            if rng.random() < 0.4:          # a bystander on another key
                o2 = rng.randint(0, 150)
                ab += [G.pm(ON, ch, o2, note=pitch + 5, vel=64), G.pm(OFF, ch, o2 + rng.randint(1, 40), note=pitch + 5)]
            rels.append(G.abs_to_rel(sorted(ab, key=lambda m: m[2])))
        ctx.count("deep-overlap:inputs:%d" % k)
        ctx.case(rels, True)
        ctx.check("merge", {"rels": rels})
        a0 = [from_real(m) for m in P.seq_of_rel(rels[0]).abs._messages]
        others = [[from_real(m) for m in P.seq_of_rel(r).abs._messages] for r in rels[1:]]
        ctx.corr("merge", P.op_merge(a0, others))
    # exhaustive small scope: every pair of relative lists of <= 1 (quick) / <= 2 (thorough) messages, merged both ways
    small = list(G.enum_rel(2 if ctx.thorough else 1))
    for r0 in small:
        for r1 in small:
            ctx.count("small-scope")
            ctx.check("merge", {"rels": [r0, r1]})
            try:
                a0 = [from_real(m) for m in P.seq_of_rel(r0).abs._messages]
                a1 = [from_real(m) for m in P.seq_of_rel(r1).abs._messages]
            except Exception:
                continue
            ctx.corr("merge", P.op_merge(a0, [a1]))

