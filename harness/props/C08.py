"""C08 — splitting a sequence conserves duration, sound and events with exact capacities."""
import gens as G
import pyimpl as P
from oracle_util import *  # noqa
from protocol import from_real
import h2bars_util as U

ID = "C08"
LEAN_MODULE = ["SCoda.Props.C08", "SCoda.Props.Purity", "SCoda.Props.C16b", "SCoda.Props.Strong589", "SCoda.Props.WrapTie", "SCoda.Props.RelTie2", "SCoda.Props.HeapTie2"]
CLAUSES = [
    ("at most one piece more than capacities; no piece is empty; the loop always terminates", ["SCoda.C08.count", "SCoda.C08.nonempty", "SCoda.C08.split_total"]),
    ("every piece except the last lasts exactly its capacity", ["SCoda.C08.exact"]),
    ("piece durations sum to the original duration", ["SCoda.C08.sum"]),
    ("no piece ends with a note still sounding: every piece is well-formed (partial: no zero-length note — known finding D18; the full statement is refuted by a kernel-checked counter-example)",
     ["SCoda.C08.closed_partial", "SCoda.C08.closed_statement_false"]),
    ("pieces laid end to end reproduce the sounding set exactly (same partial hypothesis)", ["SCoda.C08.sound_partial", "SCoda.C08.sound_statement_false"]),
    ("cut notes are re-struck with the same velocity", ["SCoda.C08.velocity"]),
    ("EXACT D18 class and NOTES (audit A13): `closed` and `sound` proved under the input-level, decidable hypothesis that no zero-length note sits on a cumulative capacity "
     "boundary (zero-length notes elsewhere are fine); the notes of the pieces laid end to end are a permutation of the source's notes cut at the boundaries (independent "
     "`cutNotes`: a note with on < b < off becomes [on,b) and [b,off) with the same channel, pitch and velocity), per key an ordered equality; every note-on of a piece carries "
     "channel, pitch and velocity of the source note sounding at that tick (the one being cut, not merely some earlier note of the key)",
     ["SCoda.Strong589.closed_boundary", "SCoda.Strong589.sound_boundary", "SCoda.Strong589.notes_cut", "SCoda.Strong589.notes_cut_key", "SCoda.Strong589.velocity_strong", "SCoda.Strong589.split_notesB"]),
    ("TIE BY TRANSLATION: RelativeSequence.split (nested while loops over the working memory, open-note table keyed by (channel, pitch), deferred queue) is re-translated "
     "statement by statement on every run (Gen/RelFns2.lean) and proved equal to the model `split` for all inputs with non-negative capacities and channels that are not "
     "None; the fuel the translation gives the loops is proved sufficient for every input (the call always terminates); for a negative capacity the hand model differs "
     "from the code (refuted statement; the property says positive capacities); Sequence.split is the translated wrapper method",
     ["SCoda.RelTie2.split_eq", "SCoda.RelTie2.split_total", "SCoda.RelTie2.split_ok_iff", "SCoda.RelTie2.split_anyCapacity_statement_false",
      "SCoda.RelTie2.split_anyChannel_statement_false", "SCoda.WrapTie.split_eq"]),
    ("every non-note event at its original tick (partial: outside the final-boundary class — known finding D8; in general a sublist)",
     ["SCoda.C08.others_partial", "SCoda.C08.others_sublist", "SCoda.C08.split_drops_final_boundary_event"]),
    ("the source sequence is not changed: no write site of RelativeSequence.split / Sequence.split acts on an object that existed before the call "
     "(purity typing over facts regenerated from the source, kernel-checked certificate) and the pieces are fresh (C16b); in the value model the "
     "source is an immutable argument; observed on the real objects by the oracle's `pure` clause from five wrapper states",
     ["SCoda.Purity.purity_cert_closed", "SCoda.Purity.routes_write_nothing_shared", "SCoda.Purity.purity_routes_seen", "SCoda.C16.derivations_return_fresh"]),
    ("the source sequence is not changed, BY TRANSLATION: the statement-by-statement identity translation of RelativeSequence.split (Gen/HeapFns2.lean) writes no cell that existed when it was called — the receiver's list object holds the same message objects with the same field values afterwards — on every heap and for every list of capacities, and it returns normally; Sequence.split on top of it changes at most the source's own wrapper cell (a stale relative view is regenerated and stored), never a view, a list or a message of the source",
     ["SCoda.HeapTie2.relativeSequenceSplit_frame", "SCoda.HeapTie2.relativeSequenceSplit_receiver", "SCoda.HeapTie2.relativeSequenceSplit_ok", "SCoda.HeapTie2.sequenceSplit2_fresh"]),
]
LEVEL = "proof"
RULE = ("well-formed multi-channel sequences (<=6 notes, 2-3 channels, notes spanning several boundaries, events exactly on "
        "boundaries and on the final tick, leading/trailing rests, zero-length notes anywhere and exactly on boundaries) x capacity lists of 0..4 values "
        "incl. 1 x wrapper states built from plain data (rel, abs, both, stale views, insort, churned); "
        "non-trivial = some note crosses a boundary or an event sits on a boundary")
ASSUMPTIONS = ["model: SCoda.split (Model/Split.lean), tied by translation (RelTie2 / WrapTie) and sampled by correspondence",
               "known findings D8 / D18 are PREDICTED (audit round 4, B5 / B6): D8 = the non-note events of the pieces are the source's minus exactly those on the "
               "final tick; D18 = the pieces show for the torn key what h2bars_util.split_model (a harness-side transcription of the recorded mechanism; equal to the "
               "code on 250 000 generated inputs) produces — anything else is a violation",
               "`pure`: the source is built from plain data and its fresh views are read attribute by attribute before and after the call and compared with "
               "that data (not through copy())"]


def final_boundary_event(rel, caps):
    """D8: the final tick is a cumulative capacity and a zero-time event other than a note-off sits on it"""
    timed, dur = rel_timed(rel)
    cum, bounds = 0, set()
    for c in caps:
        cum += c
        bounds.add(cum)
    return dur in bounds and any(t == dur and m[TY] != OFF for t, m in timed)


def bounds_of(caps):
    cum, bounds = 0, []
    for c in caps:
        cum += c
        bounds.append(cum)
    return bounds


def zero_on_boundary(rel, caps):
    """D18: (channel, pitch, tick, velocity) of the notes whose note-on and note-off share a tick that is a cumulative capacity"""
    return U.zero_length_keys(rel, at=set(bounds_of(caps)))


def zero_length_on_boundary(rel, caps):
    return bool(zero_on_boundary(rel, caps))


def o_split(inp):
    rel = [tuple(m) for m in inp["rel"]]
    caps = list(inp["caps"])
    if any(c <= 0 for c in caps):
        return [("~skip:non-positive-capacity", "")]
    timed, dur = rel_timed(rel)
    if wf_violations(timed):
        return [("~skip:ill-formed", "")]
    state = inp.get("state", "rel")
    if state not in ("rel", "both", "stale-abs") and any(on >= off for (_, _, on, off, _) in notes_of(timed)):
        # split works on the relative view; where that view has to be derived from the absolute one, a zero-length note is D17's matter
        return [("~skip:zero-length-note-through-the-absolute-view", "")]      # D17's mechanism, not split's
    # the source is built from plain data and read attribute by attribute before and after the call; what it must hold is the plain data
    # (not what a copy() of it shows — audit round 3, table of part 3)
    s, supplied = U.build_state(rel, state)
    before = U.raw_views(s)
    if U.views_hold(before, rel, supplied) is not None:
        return [("~skip:state-not-built:" + state, "")]
    try:
        pieces = s.split(list(caps))
    except Exception as e:
        return [("raises", f"{type(e).__name__}: {e}")]
    fails = []
    after = U.raw_views(s)
    for name in ("rel", "abs"):
        if before[name] is not None and after[name] != before[name]:
            fails.append(("pure", f"the source's {name} view changed (or went stale); split from wrapper state {state}"))
    bad = U.views_hold(after, rel, supplied)
    if bad:
        fails.append(("pure", f"the source no longer holds what it was given (split from wrapper state {state}): {bad}"))
    prs = [[from_real(m) for m in p.rel._messages] for p in pieces]
    if len(prs) > len(caps) + 1:
        fails.append(("count", f"{len(prs)} pieces for {len(caps)} capacities"))
    durs = [rel_timed(p)[1] for p in prs]
    for i, d in enumerate(durs[:-1]):
        if i < len(caps) and d != caps[i]:
            fails.append(("exact", f"piece {i} lasts {d}, capacity {caps[i]}"))
    if sum(durs) != dur:
        fails.append(("sum", f"piece durations {durs} sum to {sum(durs)}, original {dur}"))
    laid = []
    off = 0
    for i, (p, d) in enumerate(zip(prs, durs)):
        tp, _ = rel_timed(p)
        for b in wf_violations(tp):
            if b[0] == "unclosed":
                fails.append(("closed", U.Detail(f"piece {i} ends with {b[1]} still sounding", piece=i, key=tuple(b[1]))))
        laid.extend((t + off, m) for t, m in tp)
        off += d
    a, b_ = sounding(timed), sounding(laid)
    for key in sorted(set(a) | set(b_)):
        if a.get(key) != b_.get(key):
            fails.append(("sound", U.Detail(f"{key} sounds {a.get(key)} in the source, {b_.get(key)} in the pieces", key=key, orig=a.get(key), pieces=b_.get(key))))
    orig_notes = notes_of(timed)
    for (c, p_, on, offt, v) in notes_of(laid):
        src = [n for n in orig_notes if n[0] == c and n[1] == p_ and n[2] <= on and offt <= n[3]]
        if on < offt and not any(n[4] == v for n in src):
            fails.append(("velocity", U.Detail(f"fragment ({c},{p_},{on},{offt}) velocity {v}, originals {src}", key=(c, p_), on=on, off=offt, vel=v, originals=src)))
    if non_note(laid) != non_note(timed):
        fails.append(("others", U.Detail(f"non-note events differ: {non_note(timed)} vs {non_note(laid)}", want=non_note(timed), got=non_note(laid))))
    return fails


def setup(ctx):
    ctx.oracle("split", o_split)

    def kf_d8(f):
        # audit round 4, B6: PREDICTED outcome — the final tick is a cumulative capacity, and the non-note events of the pieces are those of the
        # source minus exactly the events on that tick (at least one).  A piece that holds such an event twice, loses another event or keeps
        # one of the final tick is not D8.
        if f["clause"] != "others":
            return False
        d = U.data_of(f)
        if "got" not in d:
            return False
        rel = [tuple(m) for m in f["input"]["rel"]]
        timed, dur = rel_timed(rel)
        if dur not in set(bounds_of(f["input"]["caps"])):
            return False
        want = non_note(timed)
        predicted = [e for e in want if e[0] != dur]
        return predicted != want and list(d["got"]) == predicted
    ctx.kf_predicates["D8"] = kf_d8

    def kf_d18(f):
        # audit round 4, B5: the damage is PREDICTED, not only located.  The damaged (channel, pitch) is the key of a zero-length note on a
        # capacity boundary (round 3, K5) AND what the pieces show for that key is exactly what the recorded mechanism produces
        # (h2bars_util.split_model: the note-on deferred, the note-off left behind, the never-ending remainder closed and re-struck at every
        # later boundary with the velocity of the note-on the splitter's table holds, a later note of that key struck on top of it):
        #   sound    — the sounding intervals of that key in the pieces are the model's;
        #   closed   — the model leaves that key unclosed in that very piece;
        #   velocity — the fragment (key, on, off, velocity) is one of the model's fragments.
        # Any other damage to a note of that key (a note lost, a fragment more, another velocity) is a VIOLATION.
        rel = [tuple(m) for m in f["input"]["rel"]]
        caps = list(f["input"]["caps"])
        d = U.data_of(f)
        if f["clause"] not in ("closed", "sound", "velocity") or "key" not in d or f["input"].get("state", "rel") not in ("rel", "both", "stale-abs"):
            return False
        key = tuple(d["key"])
        if not any((z[0], z[1]) == key for z in zero_on_boundary(rel, caps)):
            return False
        pieces = U.split_model(rel, caps)
        laid, _ = U.lay_out(pieces)
        if f["clause"] == "sound":
            got = None if d["pieces"] is None else [tuple(x) for x in d["pieces"]]
            return got == sounding(laid).get(key)
        if f["clause"] == "closed":
            i = d["piece"]
            return i < len(pieces) and ("unclosed", key, None) in wf_violations(rel_timed(pieces[i])[0])
        return (key[0], key[1], d["on"], d["off"], d["vel"]) in notes_of(laid)
    ctx.kf_predicates["D18"] = kf_d18


D8_EXAMPLE = {"rel": [G.pm(ON, 0, None, note=60, vel=64), G.pm(WAIT, 0, 24), G.pm(OFF, 0, None, note=60),
                      G.pm(TIMESIG, 0, None, num=3, den=4)], "caps": [24]}


D18_EXAMPLE = {"rel": [G.pm(WAIT, 0, 24), G.pm(ON, 0, None, note=60, vel=64), G.pm(OFF, 0, None, note=60), G.pm(WAIT, 0, 1)], "caps": [24]}


# D18, second member (audit round 3, K1c): the torn note's never-ending remainder is re-struck at the NEXT boundary too
D18_EXAMPLE2 = {"rel": [G.pm(WAIT, 0, 1), G.pm(ON, 0, None, note=62, vel=64), G.pm(OFF, 0, None, note=62), G.pm(WAIT, 0, 31)], "caps": [1, 24, 6]}


def generate(ctx):
    rng = ctx.rng
    ctx.check("split", D8_EXAMPLE)      # the recorded instance of the known finding
    ctx.check("split", D18_EXAMPLE)
    ctx.check("split", D18_EXAMPLE2)
    for i in range(ctx.n(400, 15000)):
        grid = rng.choice([1, 6, 12])
        rel, notes = G.gen_wf_rel(rng, channels=rng.choice([(0,), (0, 1), (0, 1, 2)]), grid=grid, max_tick=120,
                                  n_notes=rng.randint(0, 6), pitches=[60, 61, 62])
        if rng.random() < 0.3:
            rel = G.unconsolidate(rng, rel)
            ctx.count("rel:unconsolidated")
        caps = [rng.choice([1, 6, 12, 24, 24, 48, 96]) for _ in range(rng.randint(0, 4))]
        bounds = set(bounds_of(caps))
        if rng.random() < 0.25:
            # zero-length notes (note-on directly followed by its note-off): anywhere, or exactly on a boundary (audit K1)
            chans = tuple(sorted({m[CH] for m in rel if m[TY] == ON})) or (0,)
            if bounds and rng.random() < 0.5:
                rel = U.inject_zero_notes(rng, rel, ticks=sorted(bounds), channels=chans)
            else:
                rel = U.inject_zero_notes(rng, rel, channels=chans)
        timed, dur = rel_timed(rel)
        zl = U.zero_length_keys(rel)
        if zl:
            ctx.count("zero-length-note")
            if any(z[2] in bounds for z in zl):
                ctx.count("zero-length-note:on-boundary(D18 class)")
        crossing = any(any(n[2] < b < n[2] + n[3] for b in bounds) for n in notes)
        onb = any(t in bounds for t, m in timed)
        ctx.case((rel, caps), crossing or onb)
        if crossing:
            ctx.count("note-crosses-boundary")
        if onb:
            ctx.count("event-on-boundary")
        if final_boundary_event(rel, caps):
            ctx.count("final-boundary-event(D8 class)")
        ctx.check("split", {"rel": rel, "caps": caps})
        if i % 3 == 0:
            # the same split through the Sequence wrapper in another freshness state (a stale view holds other content)
            st = rng.choice(U.STATES[1:] + ["churned", "insort"])
            ctx.count("state:" + st)
            ctx.check("split", {"rel": rel, "caps": caps, "state": st})
        ctx.corr("split", P.op_split(caps, rel))
        ctx.sample({"rel": rel, "caps": caps})
    # exhaustive small scope: every list of <= 2 (quick) / <= 4 (thorough) messages x six capacity lists; the oracle
    # judges the well-formed ones, the correspondence all of them
    for rel in G.enum_rel(4 if ctx.thorough else 2):
        for caps in ([1], [2], [3], [1, 1], [1, 2], [2, 1, 1]):
            ctx.count("small-scope")
            ctx.check("split", {"rel": rel, "caps": caps})
            ctx.corr("split", P.op_split(caps, rel))
