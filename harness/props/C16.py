"""C16 — copies and derived sequences are independent values."""
import gens as G
import histories as H
import pyimpl as P
from oracle_util import *  # noqa
from protocol import from_real

ID = "C16"
LEAN_MODULE = ["SCoda.Props.C16", "SCoda.Props.C16b", "SCoda.Props.Purity", "SCoda.Props.C16c", "SCoda.Props.C16cW", "SCoda.Props.WrapTie", "SCoda.Props.ElemTie", "SCoda.Props.StaticLink"]
EXTRA_TARGETS = ["heapdriver"]
CLAUSES = [
    ("a message-wise copy holds the same message values as its original (equals: C17.refl)", ["SCoda.C16.copy_derive", "SCoda.C16.copyAll_spec"]),
    ("a fresh-allocating derivation shares no message with anything that existed; sharing (the unrepaired split, D13) is not a derivation",
     ["SCoda.C16.derive_disjoint", "SCoda.C16.sharing_is_not_derivation"]),
    ("frame: no history of own-writing operations on one side changes a message of the other side (both directions: the statement is symmetric in the two objects)",
     ["SCoda.C16.frame", "SCoda.C16.independent", "SCoda.C16.editRel_ownStep", "SCoda.C16.editAbs_ownStep"]),
    ("classification: the eight derivation routes (Message.copy, AbstractSequence.copy, Sequence.copy, Sequence.split, "
     "Sequence.sequences_split_bars, Bar.copy, Track.copy, Composition.copy) return values that share nothing with what existed — a freshness "
     "typing over facts regenerated from the source on every run (Gen/AliasFacts.lean) with a kernel-checked certificate; no module-level state "
     "in the modelled files; an operation can only write what it reaches (frame). The same is checked on the real objects by the id()/snapshot "
     "harness and a walk of the whole mutable object graph reachable from either side",
     ["SCoda.C16.alias_cert_closed", "SCoda.C16.derivations_return_fresh", "SCoda.C16.derivations_seen", "SCoda.C16.sources_seen",
      "SCoda.C16.no_global_state", "SCoda.Purity.routes_write_nothing_shared", "SCoda.Purity.purity_cert_closed"]),
    ("CONCRETE HEAP (audit A2; Model/HeapOps.lean, tied by the heap-history correspondence: real objects with id() renamed by first occurrence against the model, "
     "line by line): message cells, view objects (an AbsoluteSequence / RelativeSequence with its _messages list), Sequence / Bar / Track / Composition cells, bump "
     "allocation, 46 concrete operations (every derivation route, both conversions, in-place mutators, rebuilders, the sharers concatenate / merge / to_sequence, equals and "
     "the pairing helpers that sort in place, scale on both sides of 1, edits through the iterators), every value-dependent decision taken from an arbitrary oracle. "
     "PROVED from the operation definitions, for every oracle: each derivation route returns only cells allocated by the call and writes nothing that existed "
     "(split: writes only what the source reaches — it may regenerate the source's stale relative view); every operation writes only what its receiver and "
     "object-valued arguments reach (frame); for ANY history of those operations on one side, every cell reachable from the other side is unchanged, hence both views' "
     "message values and both flags of every sequence there, and the two sides stay disjoint — in both directions, and step by step for any interleaving; the copy's "
     "snapshot equals the original's; the wrapper invariant of the untouched side holds after iff it held before. Negative control: with the UNREPAIRED split (pieces "
     "share message cells, D13) independence is refuted by a kernel-checked history (piece.set_channel(5))",
     ["SCoda.C16c.derive_fresh_msgCopy", "SCoda.C16c.derive_fresh_seqCopy", "SCoda.C16c.derive_fresh_barCopy", "SCoda.C16c.derive_fresh_trkCopy",
      "SCoda.C16c.derive_fresh_cmpCopy", "SCoda.C16c.derive_fresh_splitBars", "SCoda.C16c.derive_fresh_cmpFromSequences", "SCoda.C16c.derive_fresh_split",
      "SCoda.C16c.op_frame", "SCoda.C16c.independent", "SCoda.C16c.run_allocAll", "SCoda.C16c.interleaved_independent", "SCoda.C16c.derive_sep",
      "SCoda.C16c.derived_independent", "SCoda.C16c.copy_equal", "SCoda.C16c.copy_equal_bar", "SCoda.C16c.copy_equal_trk", "SCoda.C16c.copy_equal_cmp",
      "SCoda.C16c.split_independent", "SCoda.C16c.unrepaired_split_not_independent", "SCoda.C16cW.toSeq_copy", "SCoda.C16cW.copy_equal_content",
      "SCoda.C16cW.independent_views_agree"]),
    ("TIE BY TRANSLATION (value level): Sequence.copy / split and Bar / Track / Composition.copy as re-translated from the source on every run; Sequence.copy copies exactly "
     "the fresh views, Bar.copy is a new bar constructed from a copy of the sequence, Track.copy copies every bar and constructs a new track, Composition.copy copies every track "
     "(a shallow copy changes the regenerated function and breaks the theorem)",
     ["SCoda.WrapTie.copy_eq", "SCoda.WrapTie.split_eq", "SCoda.ElemTie.barCopy_toBar", "SCoda.ElemTie.barCopy_constructed", "SCoda.ElemTie.trackCopy_eq",
      "SCoda.ElemTie.compCopy_eq", "SCoda.ElemTie.trackInit_eq", "SCoda.ElemTie.compInit_eq", "SCoda.ElemTie.compToSequences_eq", "SCoda.ElemTie.trackToSequence_eq",
      "SCoda.ElemTie.compFromSequences_eq", "SCoda.ElemTie.elem_defaults_pinned"]),
    ('the link through which the translated sequences_split_bars reads the signature and key queues (AbsoluteSequence.get_message_times_of_type, a hand-written definition in Model/StaticLib.lean) is what the TRANSLATED method computes on a freshly built list, read back through the heap (audit round 3 R1: an edit of that method now breaks this obligation)',
     ["SCoda.StaticLink.timesOfType_link", "SCoda.AbsTie2.getMessageTimesOfType_eq", "SCoda.AbsTie2.timesOfType_init"]),
]
RULE = ("originals (<=6 notes, 1-2 channels, signatures) x derivation routes (Sequence.copy, split, sequences_split_bars with "
        "either re-quantisation setting, Bar.copy, Track.copy, Composition.copy) x histories of <=8 public operations on either "
        "side; non-trivial = history contains an in-place mutator (transpose, set_channel, scale, edit, quantise, cutoff)")
ASSUMPTIONS = ["freshness typing rules are trusted as a description of Python aliasing: `<x>.copy()` is fresh provided every copy method in the "
               "route list returns a fresh value (checked for each), constructor calls with fresh/scalar arguments are fresh, reads of "
               "scalar attributes (numbers, strings, enum members, flags) are immutable values, anything else read from self or a "
               "non-scalar parameter may be shared",
               "CPython object identity (id()) is what 'shared' means; the Lean value model has no aliasing, so this property is "
               "decided by the identity/snapshot harness on the real objects plus the value-level model of copy/split",
               "histories whose sequence-valued arguments come from the other side (concatenate/merge share messages by design) are out of scope"]
ROUTES = ["copy", "split", "bars", "bars-requant", "bar-copy", "track-copy", "composition-copy"]
INPLACE = {"editAbsPeek", "editRelPeek", "editAbsFirst", "editRelFirst", "transpose", "setChannel", "scale", "editAbs", "editRel", "quantise", "cutoff", "qnl"}


def snapshot(s):
    c = s.copy()
    return ([from_real(m) for m in c.abs._messages], [from_real(m) for m in c.rel._messages])


def ids_of(s):
    out = set()
    if not s._abs_stale and s._abs is not None:
        out |= {id(m) for m in s._abs._messages}
    if not s._rel_stale and s._rel is not None:
        out |= {id(m) for m in s._rel._messages}
    return out


def reach(root):
    """ids of the mutable objects reachable from `root` through attributes and container elements:
    instances of scoda classes (enum members excluded), lists, dicts, sets.  Python can only mutate what it can
    reach, so two objects with disjoint reach sets cannot influence one another (the heap theorem `C16.frame`)."""
    import enum
    seen = {}
    stack = [root]
    while stack:
        o = stack.pop()
        if id(o) in seen or o is None or isinstance(o, (int, float, str, bytes, bool, enum.Enum, type)):
            continue
        mod = type(o).__module__ or ""
        if isinstance(o, (list, tuple, set, frozenset)):
            if not isinstance(o, (tuple, frozenset)):
                seen[id(o)] = o
            stack.extend(o)
        elif isinstance(o, dict):
            seen[id(o)] = o
            stack.extend(o.keys())
            stack.extend(o.values())
        elif mod.startswith("scoda"):
            seen[id(o)] = o
            d = getattr(o, "__dict__", None)
            if d is not None:
                stack.extend(d.values())
            for sl in getattr(type(o), "__slots__", ()):
                if hasattr(o, sl):
                    stack.append(getattr(o, sl))
    return seen


def derive(route, orig, rng_cuts):
    """returns (list of derived Sequence objects, list of container objects to keep alive)"""
    from scoda.sequences.sequence import Sequence
    from scoda.elements.bar import Bar
    from scoda.elements.track import Track
    from scoda.elements.composition import Composition
    if route == "copy":
        return [orig.copy()], []
    if route == "split":
        return orig.split(list(rng_cuts)), []
    if route in ("bars", "bars-requant"):
        tb = Sequence.sequences_split_bars([orig], 0, quantise_note_lengths=(route == "bars-requant"))
        return [b.sequence for b in tb[0]], [tb]
    # containers: build from a private copy, then copy the container
    tb = Sequence.sequences_split_bars([orig.copy()], 0, quantise_note_lengths=False)
    bars = tb[0]
    if route == "bar-copy":
        cp = [b.copy() for b in bars]
        return [c.sequence for c in cp], [bars, cp, ("orig-seqs", [b.sequence for b in bars])]
    tr = Track(bars)
    if route == "track-copy":
        cp = tr.copy()
        return [b.sequence for b in cp.bars], [tr, cp, ("orig-seqs", [b.sequence for b in bars])]
    comp = Composition([tr])
    cp = comp.copy()
    return [b.sequence for t in cp.tracks for b in t.bars], [comp, cp, ("orig-seqs", [b.sequence for b in bars])]


def o_independent(inp):
    from props.C04 import _norm_op, views_agree
    init = (inp["init"][0], [tuple(m) for m in inp["init"][1]])
    route = inp["route"]
    orig = P.make_seq(init)
    if inp.get("both_fresh"):
        orig.refresh()
    if inp.get("halved"):
        # an original a public call left with fractional ticks (scale by 1/2 without the re-quantisation): still an original
        try:
            orig.scale(0.5, quantise_afterwards=False)
        except Exception:
            return [("~skip:derivation-raises", "")]
    fails = []
    try:
        derived, keep = derive(route, orig, inp.get("cuts", [24]))
    except Exception:
        return [("~skip:derivation-raises", "")]
    # the object whose independence from `derived` is claimed
    watched = [orig]
    for k in keep:
        if isinstance(k, tuple) and k[0] == "orig-seqs":
            watched = k[1]
    if route in ("copy",):
        a, b = snapshot(orig), snapshot(derived[0])
        if rel_timed(a[1]) != rel_timed(b[1]) or not orig.equals(derived[0]):
            fails.append(("copy-equal", "copy differs from its original"))
    if route in ("bar-copy", "track-copy", "composition-copy"):
        for w, d in zip(watched, derived):
            if rel_timed(snapshot(w)[1]) != rel_timed(snapshot(d)[1]) or not w.equals(d):
                fails.append(("copy-equal", f"{route}: copied bar differs from its original"))
                break
    shared = set()
    for w in watched:
        for d in derived:
            shared |= ids_of(w) & ids_of(d)
    if shared:
        fails.append(("shared", f"{len(shared)} Message objects shared between the original and the {route} result"))
    # full object-graph walk: no mutable object (message, message list, view object, container) is reachable from both sides
    for wi, w in enumerate(watched):
        rw = reach(w)
        for di, d in enumerate(derived):
            common = set(rw) & set(reach(d))
            if common:
                kinds = sorted({type(rw[c]).__name__ for c in common})
                fails.append(("reach", f"{route}: original {wi} and derived {di} share {len(common)} mutable object(s): {kinds}"))
                break
        else:
            continue
        break
    for a_i in range(len(derived)):
        for b_i in range(a_i + 1, len(derived)):
            ra = reach(derived[a_i])
            common = set(ra) & set(reach(derived[b_i]))
            if common:
                kinds = sorted({type(ra[c]).__name__ for c in common})
                fails.append(("reach", f"{route}: derived pieces {a_i} and {b_i} share {len(common)} mutable object(s): {kinds}"))
                break
        else:
            continue
        break
    # mutate one side, watch the other
    side = inp.get("side", "derived")
    targets, others = (derived, watched) if side == "derived" else (watched, derived)
    before = [snapshot(o) for o in others]
    for op in inp["ops"]:
        op = _norm_op(tuple(op))
        if op[0] == "concatOther":
            # the touched side takes the OTHER side in as an argument of concatenate (it then holds the other side's message objects:
            # known finding D24d); afterwards operations on it reach the other side
            for ti in range(len(targets)):
                try:
                    targets[ti].concatenate([others[min(ti, len(others) - 1)]])
                except Exception:
                    pass
            continue
        if op[0] in ("concat", "merge", "copy", "split"):
            continue
        for ti in range(len(targets)):
            try:
                targets[ti], _ = P._seq_step(targets[ti], op)
            except Exception:
                pass
    after = [snapshot(o) for o in others]
    for i, (x, y) in enumerate(zip(before, after)):
        if x != y:
            fails.append(("independent", f"operations on the {side} side changed the other side (object {i}): {[o[0] for o in inp['ops']]}"))
            break
    for o in others:
        try:
            f = views_agree(o)
        except Exception as e:
            f = [("views", f"reading raised {type(e).__name__}")]
        if f:
            fails.append(("views", f"other side's views disagree after operations on the {side} side: {f[0][1]}"))
            break
    return fails


D24D_EXAMPLE = {"init": ["rel", [G.pm(ON, 0, None, note=60, vel=64), G.pm(WAIT, 0, 12), G.pm(OFF, 0, None, note=60)]], "route": "copy",
               "ops": [["concatOther"], ["setChannel", 5]], "side": "derived", "cuts": [24], "both_fresh": False}


def setup(ctx):
    ctx.oracle("independent", o_independent)

    def kf_d24d(f):
        # the history hands one side to the other as an argument of concatenate
        return any(op[0] == "concatOther" for op in f["input"]["ops"])
    ctx.kf_predicates["D24d"] = kf_d24d


def heap_correspondence(ctx):
    """identity-level correspondence of the concrete heap model (Model/HeapOps.lean) with the real objects"""
    import heap_corr
    n, skipped, bad = heap_corr.run_cases(ctx.n(150, 3000), ctx.seed + 16)
    ctx.count("heap-histories:compared", n)
    ctx.count("heap-histories:skipped(value-keyed oracle conflict or value exception)", skipped)
    ctx.extra_checked = getattr(ctx, "extra_checked", 0) + n
    ctx.extra_mismatches = getattr(ctx, "extra_mismatches", []) + bad


def generate(ctx):
    rng = ctx.rng
    heap_correspondence(ctx)
    ctx.check("independent", D24D_EXAMPLE)      # the recorded instance of the known finding
    for i in range(ctx.n(200, 4000)):
        a, notes = G.gen_wf_abs(rng, n_notes=rng.randint(1, 6), channels=rng.choice([(0,), (0,), (0, 1)]), max_tick=150, max_dur=60,
                                pitches=[60, 62, 64, 66])
        a = [m for m in a if m[0] != TIMESIG]
        init = rng.choice([("abs", a), ("rel", G.abs_to_rel(a))])
        route = ROUTES[i % len(ROUTES)]
        ops = H.gen_history(rng, rng.randint(1, 8), reads=True)
        side = rng.choice(["derived", "derived", "original"])
        inp = {"init": init, "route": route, "ops": ops, "side": side, "cuts": [rng.choice([12, 24, 48]) for _ in range(rng.randint(1, 3))],
               "both_fresh": rng.random() < 0.5}
        ctx.case((init, route, ops, side), any(o[0] in INPLACE for o in ops))
        ctx.count("route:" + route)
        ctx.count("side:" + side)
        ctx.check("independent", inp)
        if route in ("copy", "split") and i % 3 == 0:
            ctx.count("original-with-fractional-ticks")
            ctx.check("independent", dict(inp, halved=True))
        if route == "copy":
            ctx.corr("seq", P.op_seq(init, [("copy",), ("readAbs",), ("readRel",)]))
        elif route == "split":
            ctx.corr("seq", P.op_seq(init, [("split", inp["cuts"]), ("readAbs",), ("readRel",)]))
        ctx.sample({"init": [init[0], init[1][:4]], "route": route, "side": side, "ops": [o[0] for o in ops]})
