"""C16 — copies and derived sequences are independent values."""
import json

import gens as G
import h4seq_util as U
import h2bars_util as U2
import barmut_util as BM
import histories as H
import pyimpl as P
from oracle_util import *  # noqa
from protocol import from_real

ID = "C16"
LEAN_MODULE = ["SCoda.Props.C16", "SCoda.Props.C16b", "SCoda.Props.Purity", "SCoda.Props.C16c", "SCoda.Props.C16cW", "SCoda.Props.WrapTie", "SCoda.Props.ElemTie", "SCoda.Props.StaticLink", "SCoda.Props.HeapTie", "SCoda.Props.HeapTie2", "SCoda.Props.HeapTieB", "SCoda.Props.ElemTieCh", "SCoda.Props.HeapTie3"]
EXTRA_TARGETS = ["heapdriver"]
CLAUSES = [
    ("a message-wise copy holds the same message values as its original (equals: C17.refl)", ["SCoda.C16.copy_derive", "SCoda.C16.copyAll_spec"]),
    ("a fresh-allocating derivation shares no message with anything that existed; sharing (the unrepaired split, D13) is not a derivation",
     ["SCoda.C16.derive_disjoint", "SCoda.C16.sharing_is_not_derivation"]),
    ("frame: no history of own-writing operations on one side changes a message of the other side (both directions: the statement is symmetric in the two objects)",
     ["SCoda.C16.frame", "SCoda.C16.independent", "SCoda.C16.editRel_ownStep", "SCoda.C16.editAbs_ownStep"]),
    ("classification: the eight derivation routes (Message.copy, AbstractSequence.copy, Sequence.copy, Sequence.split, "
     "Sequence.sequences_split_bars, Bar.copy, Track.copy, Composition.copy) return values that share nothing with what existed — a freshness "
     "typing over facts regenerated from the source on every run (Gen/AliasFacts.lean) with a kernel-checked certificate; no module-level state "
     "in the modelled files; an operation can only write what it reaches (frame). The same is checked on the real objects by the id()/snapshot "
     "harness and a walk of the whole mutable object graph reachable from either side",
     ["SCoda.C16.alias_cert_closed", "SCoda.C16.derivations_return_fresh", "SCoda.C16.derivations_seen", "SCoda.C16.sources_seen",
      "SCoda.C16.no_global_state", "SCoda.Purity.routes_write_nothing_shared", "SCoda.Purity.purity_cert_closed"]),
    ("CONCRETE HEAP (audit A2; Model/HeapOps.lean, tied by the heap-history correspondence: real objects with id() renamed by first occurrence against the model, "
     "line by line): message cells, view objects (an AbsoluteSequence / RelativeSequence with its _messages list), Sequence / Bar / Track / Composition cells, bump "
     "allocation, 46 concrete operations (every derivation route, both conversions, in-place mutators, rebuilders, the sharers concatenate / merge / to_sequence, equals and "
     "the pairing helpers that sort in place, scale on both sides of 1, edits through the iterators), every value-dependent decision taken from an arbitrary oracle. "
     "PROVED from the operation definitions, for every oracle: each derivation route returns only cells allocated by the call and writes nothing that existed "
     "(split, and — since the second repair of D37, whose Bar.copy READS self.sequence.rel — the copies of bars, tracks and compositions: the result is made of "
     "cells the call allocated, none of them reachable from the source afterwards, and the source is written only in cells it reaches: a stale relative view of "
     "the source / of a source bar's sequence is regenerated; hypothesis: the source has no dangling identity); every operation writes only what its receiver and "
     "object-valued arguments reach (frame); for ANY history of those operations on one side, every cell reachable from the other side is unchanged, hence both views' "
     "message values and both flags of every sequence there, and the two sides stay disjoint — in both directions, and step by step for any interleaving; the copy's "
     "snapshot equals the original's; the wrapper invariant of the untouched side holds after iff it held before. Negative control: with the UNREPAIRED split (pieces "
     "share message cells, D13) independence is refuted by a kernel-checked history (piece.set_channel(5))",
     ["SCoda.C16c.derive_fresh_msgCopy", "SCoda.C16c.derive_fresh_seqCopy", "SCoda.C16c.derive_fresh_barCopy", "SCoda.C16c.derive_fresh_trkCopy",
      "SCoda.C16c.derive_fresh_cmpCopy", "SCoda.C16c.derive_fresh_splitBars", "SCoda.C16c.derive_fresh_cmpFromSequences", "SCoda.C16c.derive_fresh_split",
      "SCoda.C16c.op_frame", "SCoda.C16c.independent", "SCoda.C16c.run_allocAll", "SCoda.C16c.interleaved_independent", "SCoda.C16c.derive_sep",
      "SCoda.C16c.derived_independent", "SCoda.C16c.copy_equal", "SCoda.C16c.copy_equal_bar", "SCoda.C16c.copy_equal_trk", "SCoda.C16c.copy_equal_cmp",
      "SCoda.C16c.split_independent", "SCoda.C16c.unrepaired_split_not_independent", "SCoda.C16cW.toSeq_copy", "SCoda.C16cW.copy_equal_content",
      "SCoda.C16cW.independent_views_agree"]),
    ("TIE BY TRANSLATION (value level): Sequence.copy / split and Bar / Track / Composition.copy as re-translated from the source on every run; Sequence.copy copies exactly "
     "the fresh views, Bar.copy is a new bar constructed from a copy of the sequence, Track.copy copies every bar and constructs a new track, Composition.copy copies every track "
     "(a shallow copy changes the regenerated function and breaks the theorem); Bar.copy reads the bar's relative view (`rel` property) and constructs the copy on the channel "
     "of the bar's own first time-signature message AS IT IS NOW (barCopy_eq, no hypothesis; 0 if the bar has none): whenever it succeeds the copy's leading "
     "time-signature event is on that channel (barCopy_sig_channel), and for every bar whose current relative view is in bar shape — constructed with any "
     "default_channel, then changed by set_channel / transpose as long as notes still pair up — the copy is an equal bar (ElemTieCh.barCopy_equal_any, "
     "barCopy_after_setChannel; findings D37 and, audit round 4 D1, its first repair: a copy that passes channel 0 or a channel stored at construction changes "
     "the regenerated function and breaks barCopy_eq)",
     ["SCoda.WrapTie.copy_eq", "SCoda.WrapTie.split_eq", "SCoda.ElemTie.barCopy_toBar", "SCoda.ElemTie.barCopy_constructed", "SCoda.ElemTie.barCopy_eq",
      "SCoda.ElemTie.barCopy_toBar_own", "SCoda.ElemTie.barCopy_constructed_own", "SCoda.ElemTie.barCopy_sig_channel", "SCoda.ElemTie.barCopy_default_channel",
      "SCoda.ElemTieCh.barCopy_equal_any", "SCoda.ElemTieCh.barCopy_after_setChannel", "SCoda.ElemTie.trackCopy_eq",
      "SCoda.ElemTie.compCopy_eq", "SCoda.ElemTie.trackInit_eq", "SCoda.ElemTie.compInit_eq", "SCoda.ElemTie.compToSequences_eq", "SCoda.ElemTie.trackToSequence_eq",
      "SCoda.ElemTie.compFromSequences_eq", "SCoda.ElemTie.elem_defaults_pinned"]),
    ('the link through which the translated sequences_split_bars reads the signature and key queues (AbsoluteSequence.get_message_times_of_type, a hand-written definition in Model/StaticLib.lean) is what the TRANSLATED method computes on a freshly built list, read back through the heap (audit round 3 R1: an edit of that method now breaks this obligation)',
     ["SCoda.StaticLink.timesOfType_link", "SCoda.AbsTie2.getMessageTimesOfType_eq", "SCoda.AbsTie2.timesOfType_init"]),
    ('TIE BY TRANSLATION (identity level): Message.copy, AbstractSequence.copy, Sequence.__init__/copy/split, Bar.__init__/copy, Track.__init__/copy and Composition.copy, re-translated from the source on every run with respect to object identity (allocation, stores, returned references; Gen/HeapFns.lean over the cell heap of Model/HeapOps.lean; value decisions from the oracle exactly as HeapOps abstracts them — the constructor parameter default_channel of Bar is value level and the one message built from it takes its value from the oracle; the read of self.sequence.rel in Bar.copy is a call of the translated property on the wrapper of the SOURCE (a source that stores the channel in an attribute of the bar, commit f9ef398, is refused); view-level normalise_relative / pad / conversions / RelativeSequence.split are links), are EQUAL (same heap, same identities) to the HeapOps steps msgCopy / copyView / seqCopy / split / barInit / barCopy / trkInit / trkCopy / cmpCopy, on heaps without dangling identities whose non-stale views exist and whose messages have a channel — for Bar / Track / Composition copies: bars whose RELATIVE VIEW IS NOT STALE (the state the constructor, set_channel and a transpose without octave wrap leave; the read of self.sequence.rel is then a plain read) — hence the freshness facts (no existing cell written) hold of the translated routes; for a source bar with a stale relative view the model step HeapOps.barCopy regenerates it first (readRel), with the allowance of split (barCopy_model_fresh = C16c.derive_fresh_barCopy), tied by the sampled heap-history correspondence. sequences_split_bars (its loop skeleton; its constituent steps are the tied functions) remains tied by the sampled heap-history correspondence',
     ["SCoda.HeapTie.messageCopy_eq", "SCoda.HeapTie.abstractSequenceCopy_eq", "SCoda.HeapTie.sequenceCopy_eq", "SCoda.HeapTie.sequenceSplit_eq", "SCoda.HeapTie.barInit_eq", "SCoda.HeapTie.barCopy_eq", "SCoda.HeapTie.trackInit_eq", "SCoda.HeapTie.trackCopy_eq", "SCoda.HeapTie.compositionCopy_eq", "SCoda.HeapTie.messageCopy_fresh", "SCoda.HeapTie.sequenceCopy_fresh", "SCoda.HeapTie.sequenceSplit_fresh", "SCoda.HeapTie.barCopy_fresh", "SCoda.HeapTie.barCopy_model_fresh", "SCoda.HeapTie.trackCopy_fresh", "SCoda.HeapTie.compositionCopy_fresh", "SCoda.HeapTie.messageCopy_eq_statement_false"]),
    ("TIE BY TRANSLATION (identity level, part 2): RelativeSequence.split ITSELF is re-translated from the source on every run with respect to object identity AND value (Gen/HeapFns2.lean: every Message(...) / RelativeSequence() allocates a cell, working_memory = copy.copy(self._messages) is a fresh list of the same references, add_message / append store references, integer decisions are translated exactly, no oracle) and proved, for every heap, receiver and list of capacities: it returns normally (the guard before pop(0) and the loop bound len(working_memory)+1 are sufficient); it WRITES NO CELL THAT EXISTED when it was called (the receiver's list object and messages included: the receiver is not consumed, a cut wait is replaced by two new waits and not shortened in place); every returned piece is a view allocated by the call holding message objects of the receiver's list and messages allocated by the call only (the pieces DO share messages with the receiver: the all-fresh statement is refuted by a kernel-checked example, replayed on the real code; the repair of D13 is the seq.copy() in Sequence.split); hence the region statement HeapL.splitView_spec that C16c uses of the link holds of the translated method (simulation, not equality: the code allocates view objects it discards and interleaves the allocation of the cut messages of two pieces). Sequence.split with NO link (sequenceSplit2) is the translated RelativeSequence.split followed by HeapOps.wrapCopies: every cell reachable from a returned Sequence was allocated by the call and is not reachable from the source, and every cell that existed keeps its content except possibly the source's own wrapper cell (a stale relative view is regenerated). sequences_split_bars: HeapOps.sbBar asks the oracle for the bar's scalars BEFORE quantise_note_lengths, the code evaluates the arguments of Bar(...) AFTER it; the two are proved equal on the heaps of the call site (the piece's absolute view stale or missing, or no relative view: every sequence_to_add is a wrapper the method has just built), refuted by a kernel-checked heap on which a live absolute view shares a message with the relative view, and the freshness calculus holds of either order; the loop skeleton of sequences_split_bars is still tied by the sampled heap-history correspondence only",
     ["SCoda.HeapTie2.relativeSequenceSplit_ok", "SCoda.HeapTie2.relativeSequenceSplit_frame", "SCoda.HeapTie2.relativeSequenceSplit_receiver", "SCoda.HeapTie2.relativeSequenceSplit_pieces", "SCoda.HeapTie2.pieces_allFresh_statement_false", "SCoda.HeapTie2.relativeSequenceSplit_spec", "SCoda.HeapTie2.sequenceSplit2_eq_wrapCopies", "SCoda.HeapTie2.sequenceSplit2_fresh", "SCoda.HeapTieB.sbBar_order_agree", "SCoda.HeapTieB.sbBar_order_statement_false", "SCoda.HeapTieB.sbBarPy_spec", "SCoda.HeapTieB.pieceOk_wrapped", "SCoda.HeapTieB.pieceOk_empty"]),
    ("TIE BY TRANSLATION (identity level, part 3): the four view-level methods that were still LINKS of the identity model — RelativeSequence.to_absolute_sequence, AbsoluteSequence.to_relative_sequence, RelativeSequence.normalise_relative, RelativeSequence.pad (they run on every regeneration of a stale view and inside Bar.__init__) — and their callees (_add_message_unsorted, normalise_absolute / sort, add_message / util.binary_insort) are re-translated from the source on every run with respect to object identity AND value (Gen/HeapFns3.lean: every msg.copy() / Message(...) / view constructor allocates a cell, message_to_add.time = ... is a STORE into the cell of message_to_add, self._messages = ... / .append / .insert / .sort are stores into the view's list cell, integer decisions exact, a None operand of arithmetic raises, no oracle; the sort call is the one translated into Gen/SortFns.lean) and proved, for every heap and receiver, on BOTH exits (normal return and exception): the two CONVERSIONS write NO cell that existed (the time is written into the COPY, never into the receiver's message; the sort and the binary insertion re-order the NEW view's list) and return a view allocated by the call ALL of whose messages were allocated by the call (nothing shared with the receiver) — exactly HeapOps.convView; NORMALISE_RELATIVE and PAD write, of the cells that existed, ONLY the receiver's list cell (no message of the receiver: waits are consolidated into NEW WAIT messages, an existing wait is never lengthened; no other view), allocate WAIT messages only, and the list afterwards holds message objects of the old list and messages allocated by the call — exactly HeapOps.rebuildView / padView; after pad the list is the old list or the old list with ONE new WAIT appended at the end; the HeapOps links write within the same frames for every oracle (link_frames_agree: no disagreement between the identity model and the code); hence the region statements HeapL.convView_spec / rebuildView_spec / padView_spec that C16c uses of the links hold of the translated methods (simulation, not equality: the code allocates the view before its messages), and HeapL.getAbs_spec / getRel_spec hold of the abs / rel properties re-translated on top of the translated conversions (sequenceAbs3 / sequenceRel3: the regeneration of a stale view with no link). They return normally when the receiver's messages exist and have the times the arithmetic needs (to_relative_sequence: every message has a time; pad / normalise_relative: every WAIT has a time; the dict lookups of normalise_relative follow a setdefault, pop(-1) and remove are guarded); for to_absolute_sequence the corresponding statement (wait times present, comparable sort keys; loop bound of binary_insort) is checked by evaluation on examples and by the differential test only. Differential test with real id()s (tools/diff_py2lean_heap3.py: 1 600 calls, ill-formed lists and repeated objects included, 0 differences), mutation self-test (tools/test_py2lean_heap3.sh: 14 identity-changing edits, all caught)",
     ["SCoda.HeapTie3.toAbs_frame", "SCoda.HeapTie3.toAbs_result", "SCoda.HeapTie3.toAbs_spec", "SCoda.HeapTie3.toRel_frame", "SCoda.HeapTie3.toRel_result", "SCoda.HeapTie3.toRel_spec", "SCoda.HeapTie3.toRel_ok", "SCoda.HeapTie3.normalise_frame", "SCoda.HeapTie3.normalise_spec", "SCoda.HeapTie3.normalise_ok", "SCoda.HeapTie3.pad_frame", "SCoda.HeapTie3.pad_spec", "SCoda.HeapTie3.pad_shape", "SCoda.HeapTie3.pad_ok", "SCoda.HeapTie3.link_frames_agree", "SCoda.HeapTie3.conv_shares_nothing", "SCoda.HeapTie3.sequenceAbs3_spec", "SCoda.HeapTie3.sequenceRel3_spec"]),
]
RULE = ("originals (<=6 notes, 1-2 channels, key signatures, control / program changes, time signatures anywhere for copy / split and on bar lines for the "
        "bar routes) x derivation routes (Sequence.copy, split, sequences_split_bars with "
        "either re-quantisation setting, Bar.copy, Track.copy, Composition.copy) x histories of <=8 public operations on either "
        "side, a quarter of them with one side handed to the other through concatenate (D24d), three in ten with one side MERGING the other (after a "
        "transposition / channel change that keeps the note keys apart) followed by in-place operations on the absolute view; the structural clauses "
        "(no shared Message object, no shared mutable object through a view that is not stale) are judged after the derivation AND after the history; copies of bars / tracks / compositions built directly from "
        "plain data (attributes, name, program, both views of every bar against the data put in); copy after mutation: the same bars built with "
        "default_channel in {not passed, 0, 1, 3, 5, 15}, 0-2 public mutators on each bar in place (Sequence.set_channel, Sequence.transpose, "
        "Bar.transpose; small intervals, octaves, wrapping intervals), then Bar / Track / Composition copies judged bar by bar against the "
        "original bar's CURRENT content; non-trivial = history contains an in-place mutator "
        "(transpose, set_channel, scale, edit, quantise, cutoff)")
ASSUMPTIONS = ["freshness typing rules are trusted as a description of Python aliasing: `<x>.copy()` is fresh provided every copy method in the "
               "route list returns a fresh value (checked for each), constructor calls with fresh/scalar arguments are fresh, reads of "
               "scalar attributes (numbers, strings, enum members, flags) are immutable values, anything else read from self or a "
               "non-scalar parameter may be shared",
               "CPython object identity (id()) is what 'shared' means; the Lean value model has no aliasing, so this property is "
               "decided by the identity/snapshot harness on the real objects plus the value-level model of copy/split",
               "histories whose sequence-valued argument of CONCATENATE comes from the other side share messages by design (known finding D24d: judged, "
               "and accepted only with the predicted outcome); MERGE with the other side as its argument is in scope (mergeOther): AbsoluteSequence.merge "
               "adopts the argument's message objects, but Sequence.merge ends with a normalise() round trip that severs the sharing — on the unchanged "
               "tree these histories pass (no finding D46)"]
ROUTES = ["copy", "split", "bars", "bars-requant", "bar-copy", "track-copy", "composition-copy"]
TRACK_NAME = "Klavier I"
INPLACE = {"editAbsPeek", "editRelPeek", "editAbsFirst", "editRelFirst", "transpose", "setChannel", "scale", "editAbs", "editRel", "quantise", "cutoff", "qnl"}


# what follows a mergeOther: in-place operations on the absolute view, and reads that do not rebuild it
MERGE_TAIL = [("quantise", None), ("quantise", [12]), ("quantise", [6, 4]), ("qnl", None, False), ("qnl", [6, 12, 24], True), ("qnl", [12], False),
              ("cutoff", 12, 6), ("cutoff", 6, 3), ("cutoff", 24, 1), ("quantiseAndNormalise",), ("flags",), ("readAbs",), ("pairings",)]


def ids_of(s):
    out = set()
    if not s._abs_stale and s._abs is not None:
        out |= {id(m) for m in s._abs._messages}
    if not s._rel_stale and s._rel is not None:
        out |= {id(m) for m in s._rel._messages}
    return out


def reach(root, live_only=False):
    """ids of the mutable objects reachable from `root` through attributes and container elements:
    instances of scoda classes (enum members excluded), lists, dicts, sets.  Python can only mutate what it can
    reach, so two objects with disjoint reach sets cannot influence one another (the heap theorem `C16.frame`).
    `live_only`: a view object that its Sequence has flagged stale is not followed — the wrapper never reads or writes a stale view, the next
    access REPLACES it by a newly converted one (`abs` / `rel` / `refresh`); used for the walk AFTER a history, where e.g. merge legitimately
    leaves a stale absolute view behind that still lists the argument's messages."""
    import enum
    seen = {}
    stack = [root]
    while stack:
        o = stack.pop()
        if id(o) in seen or o is None or isinstance(o, (int, float, str, bytes, bool, enum.Enum, type)):
            continue
        mod = type(o).__module__ or ""
        if isinstance(o, (list, tuple, set, frozenset)):
            if not isinstance(o, (tuple, frozenset)):
                seen[id(o)] = o
            stack.extend(o)
        elif isinstance(o, dict):
            seen[id(o)] = o
            stack.extend(o.keys())
            stack.extend(o.values())
        elif mod.startswith("scoda"):
            seen[id(o)] = o
            d = getattr(o, "__dict__", None)
            if d is not None:
                if live_only and "_abs_stale" in d and "_rel_stale" in d:
                    d = {k: v for k, v in d.items() if not (k == "_abs" and d["_abs_stale"]) and not (k == "_rel" and d["_rel_stale"])}
                stack.extend(d.values())
            for sl in getattr(type(o), "__slots__", ()):
                if hasattr(o, sl):
                    stack.append(getattr(o, sl))
    return seen


def derive(route, orig, rng_cuts):
    """returns (list of derived Sequence objects, list of container objects to keep alive)"""
    from scoda.sequences.sequence import Sequence
    from scoda.elements.bar import Bar
    from scoda.elements.track import Track
    from scoda.elements.composition import Composition
    if route == "copy":
        return [orig.copy()], []
    if route == "split":
        return orig.split(list(rng_cuts)), []
    if route in ("bars", "bars-requant"):
        tb = Sequence.sequences_split_bars([orig], 0, quantise_note_lengths=(route == "bars-requant"))
        return [b.sequence for b in tb[0]], [tb]
    # containers: build from a private copy, then copy the container
    tb = Sequence.sequences_split_bars([orig.copy()], 0, quantise_note_lengths=False)
    bars = tb[0]
    if route == "bar-copy":
        cp = [b.copy() for b in bars]
        return [c.sequence for c in cp], [bars, cp, ("orig-seqs", [b.sequence for b in bars]), ("containers", bars, cp)]
    tr = Track(bars, TRACK_NAME)
    if route == "track-copy":
        cp = tr.copy()
        return [b.sequence for b in cp.bars], [tr, cp, ("orig-seqs", [b.sequence for b in bars]), ("containers", tr, cp)]
    comp = Composition([tr])
    cp = comp.copy()
    return [b.sequence for t in cp.tracks for b in t.bars], [comp, cp, ("orig-seqs", [b.sequence for b in bars]), ("containers", comp, cp)]


OBS = " ## observed="


def _mk_orig(inp):
    init = (inp["init"][0], [tuple(m) for m in inp["init"][1]])
    orig = P.make_seq(init)
    if inp.get("both_fresh"):
        orig.refresh()
    if inp.get("halved"):
        # an original a public call left with fractional ticks (scale by 1/2 without the re-quantisation): still an original
        orig.scale(0.5, quantise_afterwards=False)
    return orig


def _raw(o):
    """the other side, looked at WITHOUT calling any of its methods: per fresh view (list of object ids, list of plain values)"""
    out = {}
    if not o._abs_stale and o._abs is not None:
        out["abs"] = ([id(m) for m in o._abs._messages], [from_real(m) for m in o._abs._messages])
    if not o._rel_stale and o._rel is not None:
        out["rel"] = ([id(m) for m in o._rel._messages], [from_real(m) for m in o._rel._messages])
    return out


def _content(raw):
    """(events, duration) the views in `raw` show (one entry per fresh view)"""
    out = {}
    if "abs" in raw:
        out["abs"] = U.content_abs(raw["abs"][1])
    if "rel" in raw:
        out["rel"] = U.content_rel(raw["rel"][1])
    return out


def _fold(n):
    while n < U.NOTE_LO:
        n += 12
    while n > U.NOTE_HI:
        n -= 12
    return n


def _sim_inplace(op, rel, times):
    """harness-side: the relative plain list `rel` after the in-place loop of `op` has visited every message `times` times (what happens to the
    OTHER side's message objects once a sequence that took them in through concatenate is operated on: D24d).  None = no model here."""
    name = op[0]
    out = [list(m) for m in rel]
    for _ in range(times):
        for m in out:
            if name == "setChannel":
                m[CH] = op[1]
            elif name == "scale":
                if m[TY] == WAIT:
                    m[TIME] = m[TIME] * op[1]
            elif name == "transpose":
                if m[TY] in (ON, OFF):
                    m[NOTE] = _fold(m[NOTE] + op[1])
                elif m[TY] == KEYSIG:
                    return None
            elif name in ("editRel", "editRelPeek"):
                m[:] = list(U.edit_plain(op[1], op[2], tuple(m), True))
            else:
                return None
    return [tuple(m) for m in out]


NEUTRAL = {"readAbs", "readRel", "flags", "refresh", "pairings", "pad", "addRel", "copy", "split", "concat", "merge"}
ENDS_SHARING = {"editAbs", "editAbsPeek", "editAbsFirst", "quantise", "qnl", "cutoff", "addAbs", "overwriteAbs", "overwriteRel", "quantiseAndNormalise"}


def o_independent(inp):
    from props.C04 import _norm_op, views_agree
    init = (inp["init"][0], [tuple(m) for m in inp["init"][1]])
    route = inp["route"]
    try:
        orig = _mk_orig(inp)
    except Exception:
        return [("~skip:derivation-raises", "")]
    fails = []
    try:
        derived, keep = derive(route, orig, inp.get("cuts", [24]))
    except Exception:
        return [("~skip:derivation-raises", "")]
    # the object whose independence from `derived` is claimed
    watched = [orig]
    containers = None
    for k in keep:
        if isinstance(k, tuple) and k[0] == "orig-seqs":
            watched = k[1]
        if isinstance(k, tuple) and k[0] == "containers":
            containers = k[1:]
    # "a copy ... equals its original".  The expectation is the generator's plain data (or, for an original that a public call has changed
    # since — `halved` — a second, identically built original read directly); the copy is a second copy taken for this purpose and read through
    # its own two views.  Nothing is read through copy() of the thing being judged, and the objects of the history below are not touched.
    if route == "copy":
        if inp.get("halved"):
            ea, er = U.read_direct(_mk_orig(inp))
            exp = U.content_rel(er)
            if U.content_abs(ea) != exp:
                return [("~skip:original-views-disagree", "")]
        else:
            exp = U.content_abs(init[1]) if init[0] == "abs" else U.content_rel(init[1])
        for order in ("abs-first", "rel-first"):
            ca, cr = U.read_direct(_mk_orig(inp).copy(), order)
            for nm, got in (("absolute", U.content_abs(ca)), ("relative", U.content_rel(cr))):
                if got != exp:
                    diff = [x for x in exp[0] if x not in got[0]][:3] + [x for x in got[0] if x not in exp[0]][:3]
                    fails.append(("copy-equal", f"the {nm} view of the copy (read {order}) does not show the original's content: duration {got[1]} vs {exp[1]}, differing events {diff}"))
                    break
            if fails:
                break
        o3 = _mk_orig(inp)
        if not o3.equals(o3.copy()) or not (o3 == o3.copy()):
            fails.append(("copy-equal", "original.equals(copy) / original == copy is False"))
    if route in ("bar-copy", "track-copy", "composition-copy"):
        # the copied container against the container it was copied from: every bar's attributes and content (a second copy, read directly,
        # against the original bar looked at without calling anything on it), the track's name and program
        try:
            f = containers_equal(route, containers, init)
        except Exception as e:
            f = [("copy-equal", f"{route}: comparing the copy raised {type(e).__name__}: {e}")]
        fails.extend(f)
    shared = set()
    for w in watched:
        for d in derived:
            shared |= ids_of(w) & ids_of(d)
    if shared:
        fails.append(("shared", f"{len(shared)} Message objects shared between the original and the {route} result"))
    # full object-graph walk: no mutable object (message, message list, view object, container) is reachable from both sides
    for wi, w in enumerate(watched):
        rw = reach(w)
        for di, d in enumerate(derived):
            common = set(rw) & set(reach(d))
            if common:
                kinds = sorted({type(rw[c]).__name__ for c in common})
                fails.append(("reach", f"{route}: original {wi} and derived {di} share {len(common)} mutable object(s): {kinds}"))
                break
        else:
            continue
        break
    for a_i in range(len(derived)):
        for b_i in range(a_i + 1, len(derived)):
            ra = reach(derived[a_i])
            common = set(ra) & set(reach(derived[b_i]))
            if common:
                kinds = sorted({type(ra[c]).__name__ for c in common})
                fails.append(("reach", f"{route}: derived pieces {a_i} and {b_i} share {len(common)} mutable object(s): {kinds}"))
                break
        else:
            continue
        break
    # mutate one side, watch the other (the other side is only LOOKED at — private fields, no method call — until the history is over)
    side = inp.get("side", "derived")
    targets, others = (derived, watched) if side == "derived" else (watched, derived)
    before = [_raw(o) for o in others]
    first = [_content(b) for b in before]
    took = [dict() for _ in targets]          # target index -> {other index: how often its message objects sit in the target's relative list}
    shared_ids = [set() for _ in others]      # message objects of the other side that a target took in through concatenate
    pred = [None] * len(others)               # predicted relative plain list of the other side (D24d), while the history stays inside the modelled class
    simulable = True
    for op in inp["ops"]:
        op = _norm_op(tuple(op))
        if op[0] == "concatOther":
            # the touched side takes the OTHER side in as an argument of concatenate (it then holds the other side's message objects:
            # known finding D24d); afterwards in-place operations on it reach the other side
            for ti in range(len(targets)):
                oj = min(ti, len(others) - 1)
                try:
                    targets[ti].concatenate([others[oj]])
                except Exception:
                    simulable = False
                    continue
                now = _raw(others[oj])
                c_now = _content(now)
                # concatenate reads its argument's relative view (it may have to be regenerated): the argument's content must be what it was
                was = first[oj].get("rel") or first[oj].get("abs")
                if pred[oj] is None and (c_now.get("rel") != was or ("abs" in c_now and "abs" in first[oj] and c_now["abs"] != first[oj]["abs"])):
                    fails.append(("independent", "concatenate changed the content of its ARGUMENT (the other side)" + OBS + json.dumps(
                        {"only_shared_objects_changed": False, "predicted": None, "observed": now.get("rel", ([], []))[1]})))
                    return fails
                if pred[oj] is None:
                    before[oj] = now
                    pred[oj] = list(now["rel"][1]) if "rel" in now else None
                elif "rel" in now and "rel" not in before[oj]:
                    before[oj] = dict(before[oj], rel=now["rel"])
                shared_ids[oj] |= set(now.get("rel", ([], []))[0])
                took[ti][oj] = took[ti].get(oj, 0) + 1
            continue
        if op[0] == "mergeOther":
            # the touched side takes the OTHER side in as an argument of merge (seeded change C16_agent8).  AbsoluteSequence.merge adopts the
            # argument's absolute-view message objects; Sequence.merge ends with normalise(), whose round trip (relative view converted from
            # the absolute one with COPIED messages, absolute view invalidated) severs that sharing again: unlike concatenate (D24d) nothing
            # is shared afterwards, and everything below is judged as for any other history
            for ti in range(len(targets)):
                oj = min(ti, len(others) - 1)
                try:
                    targets[ti].merge([others[oj]])
                except Exception:
                    simulable = False
                    continue
                took[ti] = {}              # the target's relative list was regenerated from its absolute view (copies)
                now = _raw(others[oj])
                if pred[oj] is None:
                    # merge reads its argument's absolute view (it may have to be regenerated): the argument's content must be what it was
                    c_now, was = _content(now), first[oj]
                    bad = [v for v in c_now if v in was and c_now[v] != was[v]]
                    if not bad and "abs" in c_now and "abs" not in was and "rel" in was and not inp.get("halved") and c_now["abs"] != was["rel"]:
                        bad = ["abs"]
                    if bad:
                        fails.append(("independent", f"merge changed the content of its ARGUMENT (the other side, view(s) {bad})" + OBS + json.dumps(
                            {"only_shared_objects_changed": False, "predicted": None, "observed": now.get("rel", ([], []))[1]})))
                        return fails
                # a view of the argument that merge had to regenerate is watched from now on; the views watched so far stay as they were recorded
                before[oj] = dict(now, **before[oj])
            continue
        if op[0] in ("concat", "merge", "copy", "split"):
            continue
        for ti in range(len(targets)):
            raised = False
            try:
                targets[ti], _ = P._seq_step(targets[ti], op)
            except Exception:
                raised = True
            if not took[ti]:
                continue
            # what this does to the message objects the target took in (harness-side model; outside it `simulable` goes False)
            name = op[0]
            inplace = name in ("setChannel", "editRel", "editRelPeek") or (name == "scale" and isinstance(op[1], int) and op[1] >= 1) or name == "transpose"
            if raised:
                simulable = False
            elif inplace:
                for oj, times in took[ti].items():
                    if pred[oj] is not None:
                        pred[oj] = _sim_inplace(op, pred[oj], times)
                        if pred[oj] is None:
                            simulable = False
                if name == "scale" and op[2]:
                    took[ti] = {}          # quantise_and_normalise afterwards: the relative list is regenerated from the absolute view
                if name == "transpose" and targets[ti]._rel_stale:
                    took[ti] = {}          # a note had to be folded: normalise + quantise_note_lengths followed, the relative list is discarded
            elif name in ENDS_SHARING:
                took[ti] = {}          # the target's relative list is discarded (regenerated from its absolute view, whose messages are copies)
            elif name in NEUTRAL:
                pass
            else:
                simulable = False      # normalise (keeps the note objects, replaces the waits), edits of the first message only, ...
    after = [_raw(o) for o in others]
    # the structural clauses once more AFTER the history (seeded change C16_agent8: nothing is shared at derivation time, the sharing arises
    # later, through a binary operation whose argument is the counterpart).  Message objects a side was HANDED through concatenate (D24d:
    # shares by design, judged by the 'independent' / 'views' clauses) are left out; stale views are not followed (see `reach`).
    handed = set().union(*shared_ids) if shared_ids else set()
    sh_after = set()
    for w in watched:
        for d in derived:
            sh_after |= (ids_of(w) & ids_of(d)) - handed
    if sh_after:
        fails.append(("shared-after", f"after the history {[o[0] for o in inp['ops']]} on the {side} side, {len(sh_after)} Message objects sit in a fresh "
                                      f"view of the original AND in a fresh view of the {route} result"))
    else:
        for wi, w in enumerate(watched):
            rw = reach(w, live_only=True)
            hit = None
            for di, d in enumerate(derived):
                common = (set(rw) & set(reach(d, live_only=True))) - handed
                if common:
                    hit = (di, len(common), sorted({type(rw[c]).__name__ for c in common}))
                    break
            if hit:
                fails.append(("reach-after", f"{route}: after the history {[o[0] for o in inp['ops']]} on the {side} side, original {wi} and derived {hit[0]} "
                                             f"share {hit[1]} mutable object(s) through views that are not stale: {hit[2]}"))
                break
    for i, (x, y) in enumerate(zip(before, after)):
        changed_views = [v for v in ("abs", "rel") if v in x and v in y and x[v] != y[v]]
        vanished = [v for v in ("abs", "rel") if v in x and v not in y]
        if changed_views or vanished:
            # is the change confined to VALUES of message objects that a target took in through concatenate (same lists, same objects)?
            only_shared = not vanished and all(
                x[v][0] == y[v][0] and all(a == b or oid in shared_ids[i] for oid, a, b in zip(x[v][0], x[v][1], y[v][1])) for v in changed_views)
            obs = {"only_shared_objects_changed": bool(only_shared and shared_ids[i]), "predicted": ([list(m) for m in pred[i]] if (simulable and pred[i] is not None) else None),
                   "observed": [list(m) for m in y["rel"][1]] if "rel" in y else None}
            fails.append(("independent", f"operations on the {side} side changed the other side (object {i}, view(s) {changed_views + vanished}): "
                          f"{[o[0] for o in inp['ops']]}" + OBS + json.dumps(obs)))
            break
    for i, o in enumerate(others):
        y = after[i]
        try:
            f = views_agree(o)
        except Exception as e:
            f = [("views", f"reading raised {type(e).__name__}")]
        if f:
            x = before[i]
            only_shared = bool(shared_ids[i]) and ("abs" not in x or ("abs" in y and x["abs"] == y["abs"])) and "rel" in x and "rel" in y and \
                x["rel"][0] == y["rel"][0] and all(a == b or oid in shared_ids[i] for oid, a, b in zip(x["rel"][0], x["rel"][1], y["rel"][1]))
            obs = {"only_shared_objects_changed": bool(only_shared), "predicted": ([list(m) for m in pred[i]] if (simulable and pred[i] is not None) else None),
                   "observed": [list(m) for m in y["rel"][1]] if "rel" in y else None}
            fails.append(("views", f"other side's views disagree after operations on the {side} side: {f[0][1]}" + OBS + json.dumps(obs)))
            break
    return fails


def containers_equal(route, containers, init):
    """`containers` = (original container, its copy): list of bars / Track / Composition"""
    orig_c, copy_c = containers
    fails = []

    def bars_of(c):
        if isinstance(c, list):
            return [c]
        if hasattr(c, "tracks"):
            return [t.bars for t in c.tracks]
        return [c.bars]

    def tracks_of(c):
        return list(c.tracks) if hasattr(c, "tracks") else ([c] if hasattr(c, "bars") else [])
    ob, cb = bars_of(orig_c), bars_of(copy_c)
    if [len(x) for x in ob] != [len(x) for x in cb]:
        return [("copy-equal", f"{route}: the copy has {[len(x) for x in cb]} bars per track, the original {[len(x) for x in ob]}")]
    for ti, (obs_, cbs) in enumerate(zip(ob, cb)):
        for bi, (o, c) in enumerate(zip(obs_, cbs)):
            oa = (o.time_signature_numerator, o.time_signature_denominator, o.key_signature)
            ca = (c.time_signature_numerator, c.time_signature_denominator, c.key_signature)
            if oa != ca:
                fails.append(("copy-equal", f"{route}: bar {ti}/{bi} copied with attributes {ca}, original {oa}"))
            raw = _raw(o.sequence)
            exp = _content(raw)
            exp = exp.get("rel") or exp.get("abs")
            a2, r2 = U.read_direct(o.copy().sequence)       # a second copy of the ORIGINAL bar, read through its own two views
            if U.content_rel(r2) != exp or U.content_abs(a2) != exp:
                fails.append(("copy-equal", f"{route}: a copy of bar {ti}/{bi} does not show the original bar's content"))
            # and the copy that takes part in the history below, looked at without calling anything on it
            cc = _content(_raw(c.sequence))
            if any(v != exp for v in cc.values()):
                fails.append(("copy-equal", f"{route}: copied bar {ti}/{bi} differs from its original"))
            if fails:
                return fails
    for ti, (ot, ct) in enumerate(zip(tracks_of(orig_c), tracks_of(copy_c))):
        # (the program is compared with the ORIGINAL track's: these bars come out of sequences_split_bars, which may already have lost a
        # program change that sat on the final bar line — D8, C08's business; o_copy_equal compares with the data put in)
        if (ct.name, ct.program) != (ot.name, ot.program) or ct.name != TRACK_NAME:
            fails.append(("copy-equal", f"{route}: track {ti} copied with name/program {(ct.name, ct.program)}, original {(ot.name, ot.program)}, "
                          f"name put in {TRACK_NAME!r}"))
    return fails


def o_copy_equal(inp):
    """ "a copy of a sequence, bar, track or composition equals its original" with the expectation taken from the generator's plain data: bars are
    built directly from relative lists that are already in normal form and fit their capacity (so Bar's constructor only pads them and sets the
    time signature message), the containers from those bars; the COPY must show, per bar: numerator, denominator, key, the events put in (the time
    signature message first) in both views and the bar's capacity as duration; per track: the name and the program put in"""
    from scoda.elements.bar import Bar
    from scoda.elements.track import Track
    from scoda.elements.composition import Composition
    from protocol import KEYS
    level = inp["level"]
    built = []
    for tr in inp["tracks"]:
        for b in tr["bars"]:
            # the expectation below is only right for lists the Bar constructor merely pads: well-formed notes of positive length, at most one key
            # signature, no time signature, not longer than the bar (a shrunk input may leave that domain)
            timed, dur = rel_timed([tuple(m) for m in b["rel"]])
            if wf_violations(timed) or any(on >= off for (_, _, on, off, _) in notes_of(timed)) or dur > G.bar_len(b["num"], b["den"]) \
                    or sum(1 for m in b["rel"] if m[TY] == KEYSIG) > 1 or any(m[TY] == TIMESIG for m in b["rel"]):
                return [("~skip:outside-domain", "")]
    try:
        for tr in inp["tracks"]:
            bars = [Bar(P.seq_in_state([tuple(m) for m in b["rel"]], b.get("state", "rel")), b["num"], b["den"], None if b["key"] is None else KEYS[b["key"]])
                    for b in tr["bars"]]
            built.append(bars)
        if level == "bar":
            copies = [[b.copy() for b in bars] for bars in built]
            names = None
        elif level == "track":
            cp = [Track(bars, tr["name"]).copy() for bars, tr in zip(built, inp["tracks"])]
            copies, names = [t.bars for t in cp], [(t.name, t.program) for t in cp]
        else:
            comp = Composition([Track(bars, tr["name"]) for bars, tr in zip(built, inp["tracks"])]).copy()
            copies, names = [t.bars for t in comp.tracks], [(t.name, t.program) for t in comp.tracks]
    except Exception as e:
        if type(e).__name__ in ("BarException", "TrackException"):
            return [("~skip:construction-refused", "")]
        raise
    fails = []
    if len(copies) != len(inp["tracks"]):
        return [("copy-equal", f"{level} copy has {len(copies)} tracks, {len(inp['tracks'])} put in")]
    for ti, (tr, bars) in enumerate(zip(inp["tracks"], copies)):
        if len(bars) != len(tr["bars"]):
            return [("copy-equal", f"{level} copy: track {ti} has {len(bars)} bars, {len(tr['bars'])} put in")]
        if names is not None:
            progs = [m[PROG] for b in tr["bars"] for m in b["rel"] if m[TY] == PC]
            if names[ti] != (tr["name"], progs[0] if progs else None):
                fails.append(("copy-equal", f"{level} copy: track {ti} has name/program {names[ti]}, put in {(tr['name'], progs[0] if progs else None)}"))
        for bi, (b, c) in enumerate(zip(tr["bars"], bars)):
            got_attr = (c.time_signature_numerator, c.time_signature_denominator, c.key_signature)
            exp_attr = (b["num"], b["den"], None if b["key"] is None else KEYS[b["key"]])
            if got_attr != exp_attr:
                fails.append(("copy-equal", f"{level} copy: bar {ti}/{bi} has attributes {got_attr}, put in {exp_attr}"))
            rel = [tuple(m) for m in b["rel"]]
            ev, _ = U.content_rel([G.pm(TIMESIG, 0, None, num=b["num"], den=b["den"])] + [m for m in rel if m[TY] != TIMESIG])
            exp = (ev, G.bar_len(b["num"], b["den"]))
            a2, r2 = U.read_direct(c.sequence, "abs-first" if (ti + bi) % 2 == 0 else "rel-first")
            for nm, got in (("absolute", U.content_abs(a2)), ("relative", U.content_rel(r2))):
                if got != exp:
                    diff = [x for x in exp[0] if x not in got[0]][:3] + [x for x in got[0] if x not in exp[0]][:3]
                    fails.append(("copy-equal", f"{level} copy: the {nm} view of bar {ti}/{bi} shows duration {got[1]} (put in {exp[1]}), differing events {diff}"))
                    break
            if fails:
                return fails
    return fails


def o_copy_after_mutation(inp):
    """copy after mutation (audit round 4, D1 / D3): every bar is built from plain data WITH A default_channel (None = not passed), 0-2 public
    mutators are applied to the bar in place (bar.sequence.set_channel / bar.sequence.transpose / Bar.transpose), the bars are put into a Track
    / Composition where the level says so, the bar / track / composition is copied, and every copied bar is judged against what ITS ORIGINAL
    SHOWS NOW (attributes; timed events with every message field, and duration, read through the original's own relative view before the copy is
    taken) — never against the data it was built from, never through copy().  Taking the copy must not change what the originals show."""
    from scoda.elements.bar import Bar
    from scoda.elements.track import Track
    from scoda.elements.composition import Composition
    from protocol import KEYS
    level = inp["level"]
    built = []
    try:
        for tr in inp["tracks"]:
            bars = []
            for b in tr["bars"]:
                kw = {} if b.get("dch") is None else {"default_channel": b["dch"]}
                bar = Bar(P.seq_in_state([tuple(m) for m in b["rel"]], b.get("state", "rel")), b["num"], b["den"],
                          None if b["key"] is None else KEYS[b["key"]], **kw)
                for mut in b.get("muts", []):
                    BM.apply_mut(bar, mut)
                bars.append(bar)
            built.append(bars)
        containers = None
        if level == "track":
            containers = [Track(bars, tr["name"]) for bars, tr in zip(built, inp["tracks"])]
        elif level == "composition":
            containers = Composition([Track(bars, tr["name"]) for bars, tr in zip(built, inp["tracks"])])
        before = [[BM.bar_state(b) for b in bars] for bars in built]
    except Exception as e:
        if type(e).__name__ in ("BarException", "TrackException"):
            return [("~skip:construction-refused", "")]
        return [("~skip:mutator-raises:" + type(e).__name__, "")]
    try:
        if level == "bar":
            copies = [[b.copy() for b in bars] for bars in built]
        elif level == "track":
            copies = [t.copy().bars for t in containers]
        else:
            copies = [t.bars for t in containers.copy().tracks]
    except Exception as e:
        # which bars were already outside their capacity?  (facts for D45b)
        over = [[ti, bi, st["content"][1], G.bar_len(b["num"], b["den"])] for ti, (tr, sts) in enumerate(zip(inp["tracks"], before))
                for bi, (b, st) in enumerate(zip(tr["bars"], sts)) if st["content"][1] > G.bar_len(b["num"], b["den"])]
        return [("copy-mut", U2.Detail(f"{level} copy after mutation raised {type(e).__name__}: {e}", raised=type(e).__name__, over=over))]
    fails = []
    if [len(x) for x in copies] != [len(x) for x in built]:
        return [("copy-mut", f"{level} copy has {[len(x) for x in copies]} bars per track, the original {[len(x) for x in built]}")]
    for ti, (bars, cps) in enumerate(zip(built, copies)):
        for bi, (b, c) in enumerate(zip(bars, cps)):
            spec = inp["tracks"][ti]["bars"][bi]
            f = BM.judge_copy(f"{level} copy, bar {ti}/{bi} (default_channel={spec.get('dch')!r}, {spec.get('muts', [])})", before[ti][bi],
                              BM.bar_state(b), c)
            for cl, det in f:
                if hasattr(det, "data"):
                    det.data.update(bar=[ti, bi], cap=G.bar_len(spec["num"], spec["den"]))
            fails.extend(f)
            if c is b or c.sequence is b.sequence:
                fails.append(("copy-mut", f"{level} copy: copied bar {ti}/{bi} is the original bar / shares its sequence object"))
            if fails:
                return fails
    return fails


def gen_bar(rng, num, den):
    """a relative list in normal form that fits a num/den bar: well-formed notes, at most one key signature, control changes, program changes
    of ONE program (Track refuses mixed ones), no time signature (the Bar sets it)"""
    cap = G.bar_len(num, den)
    notes = G.gen_notes(rng, n_notes=rng.randint(0, 4), channels=(0,), pitches=[60, 62, 64, 66], max_tick=max(1, cap // 2), max_dur=max(1, cap // 2 - 1))
    notes = [n for n in notes if n[2] + n[3] <= cap]
    extras, have_key = [], False
    for e in G.gen_extras(rng, max_tick=max(1, cap - 1), n=rng.choice([0, 1, 2, 3])):
        if e[0] == TIMESIG or (e[0] == KEYSIG and have_key) or e[2] > cap:
            continue
        have_key = have_key or e[0] == KEYSIG
        extras.append(e)
    a = G.notes_to_abs(notes, extras, cap=rng.choice([None, cap, cap // 2]))
    return G.abs_to_rel(a)


D37B_WITNESS = {"level": "bar", "tracks": [{"name": None, "bars": [
    {"rel": [G.pm(ON, 3, None, note=60, vel=64), G.pm(WAIT, 3, 24), G.pm(OFF, 3, None, note=60)], "num": 4, "den": 4, "key": None, "dch": 3,
     "muts": [["set_channel", 0]]}]}]}
# the recorded instances of D44b / D45b in THIS oracle's input format (audit round 5, item 4): the same bars as C10's D44 / D45 examples
D44B_EXAMPLE = {"level": "bar", "tracks": [{"name": None, "bars": [
    {"rel": [G.pm(ON, 0, None, note=60, vel=64), G.pm(WAIT, 0, 12), G.pm(ON, 1, None, note=60, vel=64), G.pm(WAIT, 1, 24),
             G.pm(OFF, 0, None, note=60), G.pm(WAIT, 0, 24), G.pm(OFF, 1, None, note=60)], "num": 4, "den": 4, "key": None, "dch": 3,
     "muts": [["set_channel", 0]]}]}]}
D45B_EXAMPLE = {"level": "bar", "tracks": [{"name": None, "bars": [
    {"rel": [G.pm(WAIT, 0, 40), G.pm(ON, 0, None, note=1, vel=64), G.pm(WAIT, 0, 2), G.pm(OFF, 0, None, note=1)], "num": 7, "den": 16, "key": 3, "dch": 15,
     "muts": [["transpose", -12]]}]}]}
D24D_EXAMPLE = {"init": ["rel", [G.pm(ON, 0, None, note=60, vel=64), G.pm(WAIT, 0, 12), G.pm(OFF, 0, None, note=60)]], "route": "copy",
               "ops": [["concatOther"], ["setChannel", 5]], "side": "derived", "cuts": [24], "both_fresh": True}


def observed_of(f):
    d = f.get("detail") or ""
    if OBS not in d:
        return None
    try:
        return json.loads(d.split(OBS, 1)[1])
    except Exception:
        return None


def setup(ctx):
    ctx.oracle("independent", o_independent)
    ctx.oracle("copy-equal", o_copy_equal)
    ctx.oracle("copy-after-mutation", o_copy_after_mutation)

    def _muts_of(f, names):
        return any(m[0] in names for tr in f["input"].get("tracks", []) for b in tr["bars"] for m in b.get("muts", []))

    def kf_d44b(f):
        # D44 through a bar / track / composition copy: the judged bar's content read before the copy does not pair its notes per (channel, pitch)
        return f["oracle"] == "copy-after-mutation" and f["clause"] == "copy-mut" and _muts_of(f, ("set_channel",)) and BM.is_merge_outcome(f)
    ctx.kf_predicates["D44b"] = kf_d44b

    def kf_d45b(f):
        # D45 through a bar / track / composition copy: a transposition in the history, and the bar's own content read before the copy no longer
        # lasts its capacity (longer: the copy raised BarException; shorter: same events, the copy padded back)
        if not (f["oracle"] == "copy-after-mutation" and f["clause"] == "copy-mut" and _muts_of(f, ("transpose", "bar_transpose"))):
            return False
        d = U2.data_of(f)
        if d.get("raised") == "BarException":
            return bool(d.get("over"))
        return "cap" in d and BM.is_requantised_outcome(d, d["cap"])
    ctx.kf_predicates["D45b"] = kf_d45b

    def kf_d24d(f):
        # the history hands one side to the other as an argument of concatenate: the receiver then holds the argument's message OBJECTS, and a
        # later in-place operation on it rewrites them.  Known only for the two clauses that this can break ('independent', 'views' — never
        # 'shared' / 'reach' / 'copy-equal', which are decided before any operation runs), and only when the OUTCOME is that mechanism: the other
        # side's lists hold the same objects as before, every changed value belongs to an object the receiver took in, and — while the history
        # stays inside the class the harness can predict (set_channel, scale, transpose, edits through messages_rel, once per occurrence of the
        # object) — the other side's relative view holds exactly the predicted values
        if f["oracle"] != "independent" or f["clause"] not in ("independent", "views"):
            return False
        if not any(op[0] == "concatOther" for op in f["input"]["ops"]):
            return False
        obs = observed_of(f)
        if not isinstance(obs, dict) or obs.get("only_shared_objects_changed") is not True:
            return False
        if obs.get("predicted") is not None:
            return obs["predicted"] == obs.get("observed")
        # no prediction recorded (audit round 4, B7: this used to be accepted unconditionally).  Accepted only when the HISTORY says why the
        # harness could not predict the values: after the first concatOther it holds an operation outside the class `_sim_inplace` models — an
        # edit of the first message only, normalise (keeps the note objects, replaces the waits), a transpose (octave folding / a key signature in
        # the list end the model), an edit kind the model does not know — or an operation that may raise (scale by a non-integer, cutoff, the
        # quantisers on a list with fractional ticks).  A history made only of modelled operations that comes without a prediction is reported.
        # PARTIAL: for these histories the values are still not predicted; what is checked is that only objects the receiver took in changed
        ops = [tuple(o) for o in f["input"]["ops"]]
        after = ops[[o[0] for o in ops].index("concatOther") + 1:]
        modelled = {"setChannel", "editRel", "editRelPeek"} | NEUTRAL | ENDS_SHARING | {"concatOther"}
        unmodelled = [o for o in after if o[0] not in modelled and not (o[0] == "scale" and isinstance(o[1], int) and not isinstance(o[1], bool) and o[1] >= 1)]
        return bool(unmodelled) or bool(f["input"].get("halved"))
    ctx.kf_predicates["D24d"] = kf_d24d


def heap_correspondence(ctx):
    """identity-level correspondence of the concrete heap model (Model/HeapOps.lean) with the real objects"""
    import heap_corr
    n, skipped, bad = heap_corr.run_cases(ctx.n(150, 3000), ctx.seed + 16)
    ctx.count("heap-histories:compared", n)
    ctx.count("heap-histories:skipped(value-keyed oracle conflict or value exception)", skipped)
    ctx.extra_checked = getattr(ctx, "extra_checked", 0) + n
    ctx.extra_mismatches = getattr(ctx, "extra_mismatches", []) + bad


def generate(ctx):
    rng = ctx.rng
    heap_correspondence(ctx)
    ctx.check("independent", D24D_EXAMPLE)      # the recorded instance of the known finding
    for level in ("bar", "track", "composition"):
        ctx.check("copy-after-mutation", dict(D37B_WITNESS, level=level))      # audit round 4, D1: built on channel 3, moved to channel 0, copied
        ctx.check("copy-after-mutation", dict(D44B_EXAMPLE, level=level))      # D44b (known finding)
        ctx.check("copy-after-mutation", dict(D45B_EXAMPLE, level=level))      # D45b (known finding)
    for i in range(ctx.n(200, 4000)):
        route = ROUTES[i % len(ROUTES)]
        a, notes = G.gen_wf_abs(rng, n_notes=rng.randint(1, 6), channels=rng.choice([(0,), (0,), (0, 1)]), max_tick=150, max_dur=60,
                                pitches=[60, 62, 64, 66])
        if route in ("copy", "split"):
            if any(m[0] == TIMESIG for m in a):
                ctx.count("original-with-time-signatures")        # any signature anywhere: these two routes do not care about bar lines
        else:
            # bar splitting needs time signatures ON bar lines: keep them where that can be arranged — one at tick 0 and, sometimes, a
            # change on the first bar line after it
            a = [m for m in a if m[0] != TIMESIG]
            if rng.random() < 0.5:
                n0, d0 = rng.choice(G.COMMON_SIGS)
                a.append(G.pm(TIMESIG, 0, 0, num=n0, den=d0))
                if rng.random() < 0.4:
                    n1, d1 = rng.choice(G.COMMON_SIGS)
                    a.append(G.pm(TIMESIG, 0, G.bar_len(n0, d0), num=n1, den=d1))
                a.sort(key=lambda m: (m[2], m[1], m[0], -1 if m[3] is None else m[3]))
                ctx.count("original-with-time-signatures")
        merge_other = rng.random() < 0.3
        if merge_other and rng.random() < 0.75:
            # notes (and control / program changes) only: a signature that both sides hold is a duplicate after the merge
            a = [m for m in a if m[0] not in (TIMESIG, KEYSIG)]
            ctx.count("history-with-mergeOther:original-without-signatures")
        init = rng.choice([("abs", a), ("rel", G.abs_to_rel(a))])
        ops = H.gen_history(rng, rng.randint(1, 8), reads=True)
        if merge_other:
            # one side MERGES the other (seeded change C16_agent8): first moved to other pitches / another channel, so that no note key is on
            # both sides and the merged result is already in normal form, then operated on in place through the absolute view
            ops = ops[:rng.choice([0, 0, 1, 2])]
            ops.append(rng.choice([("transpose", rng.choice([1, -1, 3, 5, 7, -5])), ("setChannel", rng.choice([2, 3, 4, 5]))]))
            ops.append(("mergeOther",))
            for _ in range(rng.randint(1, 3)):
                ops.append(rng.choice(MERGE_TAIL))
            ctx.count("history-with-mergeOther")
        elif rng.random() < 0.25:
            # one side takes the other in through concatenate (D24d), somewhere in the history
            ops.insert(rng.randint(0, len(ops) - 1), ("concatOther",))
            if rng.random() < 0.6:
                ops.append(rng.choice([("setChannel", rng.randrange(1, 6)), ("scale", rng.choice([2, 3]), False), ("transpose", rng.choice([1, -2, 12])),
                                       ("editRel", 0, 1), ("editRel", 1, 99)]))
            ctx.count("history-with-concatOther")
        side = rng.choice(["derived", "derived", "original"])
        inp = {"init": init, "route": route, "ops": ops, "side": side, "cuts": [rng.choice([12, 24, 48]) for _ in range(rng.randint(1, 3))],
               "both_fresh": rng.random() < 0.5}
        ctx.case((init, route, ops, side), any(o[0] in INPLACE for o in ops))
        ctx.count("route:" + route)
        ctx.count("side:" + side)
        ctx.check("independent", inp)
        if route in ("copy", "split") and i % 3 == 0:
            ctx.count("original-with-fractional-ticks")
            ctx.check("independent", dict(inp, halved=True))
        if route == "copy":
            ctx.corr("seq", P.op_seq(init, [("copy",), ("readAbs",), ("readRel",)]))
        elif route == "split":
            ctx.corr("seq", P.op_seq(init, [("split", inp["cuts"]), ("readAbs",), ("readRel",)]))
        ctx.sample({"init": [init[0], init[1][:4]], "route": route, "side": side, "ops": [o[0] for o in ops]})
        # copies of bars / tracks / compositions built directly from plain data
        tracks = []
        sigs = [G.any_sig(rng) for _ in range(rng.randint(1, 3))]
        for ti in range(rng.choice([1, 1, 2])):
            prog = rng.randrange(8)
            bars = []
            for (num, den) in sigs:
                rel = [((m[0], m[1], m[2], m[3], m[4], m[5], prog) + tuple(m[7:])) if m[0] == PC else m for m in gen_bar(rng, num, den)]
                bars.append({"rel": rel, "num": num, "den": den, "key": rng.choice([None, rng.randrange(15)]), "state": rng.choice(P.SEQ_STATES)})
            tracks.append({"name": rng.choice([None, "Violine", "", "träck 2"]), "bars": bars})
        level = ("bar", "track", "composition")[i % 3]
        ctx.count("copy-equal:" + level)
        ctx.check("copy-equal", {"level": level, "tracks": tracks})
        # copy after mutation (audit round 4, D1 / D3): the same containers, every bar built with a random default_channel and changed in place
        # by 0-2 public mutators before the bar / track / composition is copied
        mtracks = [{"name": tr["name"], "bars": [dict(b, dch=rng.choice([None, 0, 1, 3, 5, 15]), muts=BM.gen_muts(rng, (0,))) for b in tr["bars"]]}
                   for tr in tracks]
        ctx.count("copy-after-mutation:" + level)
        if any(m[0] == "set_channel" for tr in mtracks for b in tr["bars"] for m in b["muts"]):
            ctx.count("copy-after-mutation:with-set_channel")
        ctx.check("copy-after-mutation", {"level": level, "tracks": mtracks})
