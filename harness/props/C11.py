"""C11 — tick values stay integers through every operation."""
import gens as G
import h1tok_util as HT
import h4seq_util as U
import h9b_util as HB
import histories as H
import pyimpl as P
from oracle_util import *  # noqa
from protocol import from_real

ID = "C11"
LEAN_MODULE = ["SCoda.Props.C11", "SCoda.Props.C11b", "SCoda.Props.C11c", "SCoda.Props.C11d", "SCoda.Props.UtilTie"]
CLAUSES = [
    ("every public operation with integer arguments leaves every time value in both views integer-typed: a float-taint typing "
     "of all functions of the modelled files, regenerated from the source on every run (Gen/TaintFacts.lean), with a certificate "
     "the kernel checks to be closed under the typing rules and under which no tick sink (store into .time, time= keyword, "
     "every attribute store, third positional argument of Message, argument handed to a function of the modelled files, value returned/appended by "
     "the duration and velocity-bin helpers, tick formatted into a token) is maybe-float; in addition the Lean model is "
     "Int-typed and the correspondence prints Python times with their type",
     ["SCoda.C11.cert_closed", "SCoda.C11.no_float_reaches_a_tick", "SCoda.C11.sinks_seen", "SCoda.C11.float_fn_found",
      "SCoda.C11.least_le_cert", "SCoda.C11d.typing_sound_for_least_solution", "SCoda.C11d.no_float_reaches_a_tick_least",
      "SCoda.C11d.no_float_reaches_a_tick_iterative"]),
    ("the capacity / bar-length expressions of Bar, the bar splitter and the tokeniser are int-typed and equal the model's floor division (PyNum); int()/round() always return ints",
     ["SCoda.C11.barCapacityPy_int", "SCoda.C11.splitBarLenPy_int", "SCoda.C11.tokCapacityPy_int", "SCoda.C11.barCapacityPy_eq",
      "SCoda.C11.splitBarLenPy_eq", "SCoda.C11.tokCapacityPy_eq", "SCoda.C11.pyround_int", "SCoda.C11.pyint_int"]),
    ("every float site transcribed operator by operator in the int/float tower (Model/PyNumSites.lean, file:line cited), for all integer arguments: int(a/d) truncates "
     "towards zero (all signs); the capacity expressions of bar.py, sequence.py and the tokeniser equal .int (tdiv) and, for non-negative numerators and positive "
     "denominators, the model's floor division (without the sign hypothesis refuted: n = -1, d = 128); pad amount, eighth scaling with its is_integer guard, the "
     "x/2 site under its guard, round() on load, int() on save, get_note_durations / tuplet / dotted durations as integer loops",
     ["SCoda.C11d.int_of_quotient_truncates", "SCoda.C11d.capacity_sites", "SCoda.C11d.capacity_sites_eq_model", "SCoda.C11d.capacity_eq_model_statement_false",
      "SCoda.C11d.pad_amount_site", "SCoda.C11d.eighth_scaling_site", "SCoda.C11d.half_site", "SCoda.C11d.load_site", "SCoda.C11d.save_site",
      "SCoda.C11d.note_durations_site", "SCoda.C11d.tuplet_dotted_sites"]),
    ("every token that embeds a tick renders it as an integer: each token tokenise emits has rest / value / velocity / track fields that are the model's Int ticks "
     "(members of steps / values / bins, note-off minus note-on); on real Strings, splitting render t at '-' and '_' gives generated prefixes and non-empty all-digit "
     "fields that read back as those Ints (non-negative configuration and channels); no rendered token contains '.', 'e' or any non [0-9A-Za-z_-] character",
     ["SCoda.C11d.emitted_fields_are_model_ticks", "SCoda.C11d.tokens_render_integers", "SCoda.C11d.render_has_no_float_syntax"]),
    ("the default step sizes, note values and velocity bins (n = 1..64) returned by the real helper functions at generation time, emitted as DATA with the Python "
     "type of every element (Gen/SettingsTyped.lean): Lean decides that every element is int-typed and that the typed tables are the tables the models use; the "
     "PyNum transcription of get_default_step_sizes / get_default_note_values / get_velocity_bins, evaluated by the kernel, reproduces value and type of every element",
     ["SCoda.C11d.defaults_int_typed_data", "SCoda.C11d.defaults_agree_with_numeric_tower", "SCoda.C11.defaults_int_typed"]),
    ('TIE BY TRANSLATION, numeric helpers: scoda/misc/util.py is re-translated statement by statement on every run (Gen/UtilFns.lean, tools/py2lean_util.py: one operator of the PyNum int/float tower per Python operator — floats as exact rationals, no rounding modelled —, range/enumerate/zip/comprehensions, while with proved fuel, numpy.digitize(right=True) modelled explicitly) and tied to the hand models and to the dumped tables: get_default_step_sizes(), get_default_note_values() and get_velocity_bins(velocity_bins=n) for n = 1..64, evaluated from the TRANSLATED SOURCE, equal the tables dumped by running the code — values and int types (the dumped tables are checked consequences of the source); get_note_durations = the hand transcription for all int/float arguments and never runs out of fuel; tuplets (numerator ≠ 0; 0 raises ZeroDivisionError as in the code), dotted durations (all int iteration counts; float raises TypeError), velocity bins (n ≠ 0; 0 raises ZeroDivisionError), default step sizes for all int shifts',
     ["SCoda.UtilTie.default_tables_from_source", "SCoda.UtilTie.default_tables_typed", "SCoda.UtilTie.settings_agree", "SCoda.UtilTie.translated_functions", "SCoda.UtilTie.getNoteDurations_of_py", "SCoda.UtilTie.getNoteDurations_total", "SCoda.UtilTie.getTupletDurations_eq", "SCoda.UtilTie.getTupletDurations_zero", "SCoda.UtilTie.getDottedNoteDurations_int", "SCoda.UtilTie.getDottedNoteDurations_float", "SCoda.UtilTie.getVelocityBins_int", "SCoda.UtilTie.getVelocityBins_zero", "SCoda.UtilTie.getDefaultStepSizes_of_py", "SCoda.UtilTie.getDefaultNoteValues_eq"]),
]
RULE = ("histories of <=6 (quick) / <=12 (thorough) public operations over integer-tick inputs, then bars (short, unequal "
        "tracks), compositions, tokenise/detokenise of the result; the canonical form prints every time with its Python type; "
        "non-trivial = history with >= 2 mutators; plus padded-bar cases; plus tokenisers of resolution 6/12/24/36/48/96 (or none given), each with and "
        "without explicit step sizes / note values, on pieces written for that resolution: tick fields of tokens and vocabulary entries are integer "
        "literals, the grids hold ints")
ASSUMPTIONS = ["typing rules of the taint analysis are trusted as a description of Python's numeric tower: + - * // % min max abs of "
               "ints are ints; / , ** with an exponent not known non-negative, float literals, float(), math.*, np.* may be floats; "
               "int()/round()/len() return ints; attribute reads and parameters are int-typed (the property's premise); "
               "`x ** p` with p a parameter defaulting to a non-negative literal is read as int (Gen.powAssumptions)",
               "the Lean model is typed over Int, so agreement with it on an input is the statement that the implementation produced ints there",
               "scale with a non-integer factor is outside the property (integer arguments)"]


def int_fail(where, msgs):
    bad = [m for m in msgs if m[TIME] is not None and not is_int(m[TIME])]
    return [("int", f"{where}: non-integer time {bad[0][TIME]!r} in {bad[0]}")] if bad else []


def check_seq(where, s):
    a = [from_real(m) for m in s.abs._messages]
    r = [from_real(m) for m in s.rel._messages]
    return int_fail(where + ".abs", a) + int_fail(where + ".rel", r)


def o_history(inp):
    from scoda.sequences.sequence import Sequence
    from scoda.elements.composition import Composition
    from props.C04 import _norm_op
    init = (inp["init"][0], [tuple(m) for m in inp["init"][1]])
    if inp.get("pollute"):
        # earlier in the same process, OTHER sequences with the same content went through operations with non-integer arguments
        # (scale by a fraction, float ticks handed in by the caller).  On correct code that has no effect on what follows; if a
        # module-level cache or memo keeps float results, the pollution is part of the replayable input.
        for factor in inp["pollute"]:
            try:
                p_ = P.make_seq(init).copy()
                p_.scale(factor)
                p_.quantise()
                p_.quantise_note_lengths()
            except Exception:
                pass
        try:
            p_ = P.make_seq(init).copy()
            for m in p_.messages_abs():
                m.time = float(m.time)
            p_.quantise_and_normalise()
        except Exception:
            pass
    ops = [_norm_op(tuple(op)) for op in inp["ops"]]

    def replay(n):
        q = P.make_seq(init)
        pieces = None
        for op in ops[:n]:
            pieces = None
            try:
                q, _, pieces = U.seq_step(q, op)
            except Exception:
                pass
        return q, pieces
    s = P.make_seq(init)
    fails = []
    for i, op in enumerate(ops):
        try:
            s, _, pieces = U.seq_step(s, op)
        except Exception:
            continue
        # the object itself, looked at without calling anything on it (whatever view is fresh right now) ...
        a_, r_ = U.peek(s)
        f = int_fail(f"after op {i} {op[0]} .abs", a_ or []) + int_fail(f"after op {i} {op[0]} .rel", r_ or [])
        if f:
            return f
        # ... and BOTH views of a twin (same construction, same history), read through its own properties — not through copy()
        try:
            twin, tw_pieces = replay(i + 1)
            f = check_seq(f"after op {i} {op[0]}", twin)
        except Exception:
            f = []
        if f:
            return f
        for p in (pieces or []):
            f = check_seq("split piece", p)
            if f:
                return f
    # bars / composition / tokeniser on the result
    try:
        q = s.copy()
        q.quantise_and_normalise()
        other = Sequence()
        tb = Sequence.sequences_split_bars([q, other], meta_track_index=0, quantise_note_lengths=inp.get("requant", True))
    except Exception:
        return [("~skip:split-bars-raises", "")]
    for ti, bars in enumerate(tb):
        for bi, b in enumerate(bars):
            f = check_seq(f"bar {ti}/{bi}", b.sequence)
            if f:
                return f
    try:
        comp = Composition.from_sequences([q.copy(), Sequence()])
        for ti, sq in enumerate(comp.to_sequences()):
            f = check_seq(f"composition track {ti}", sq)
            if f:
                return f
    except Exception:
        pass
    try:
        if inp.get("cfg"):
            cfg = P.TkCfg(**{k: (tuple(v) if isinstance(v, list) and k in ("pitch_range", "ts_range") else v) for k, v in inp["cfg"].items()})
        else:
            cfg = P.TkCfg(num_tracks=2, pitch_range=(0, 127), velocity_bins=inp.get("bins", 4), fuse_value=inp.get("fuse_value", True))
        tk = cfg.tk()
        sd = {}
        toks = []
        for bi in range(len(tb[0])):
            toks += tk.tokenise([tb[0][bi].sequence.copy(), tb[1][bi].sequence.copy()], state_dict=sd)
        for t in toks:
            if "." in t:
                return [("token-int", f"token {t} renders a non-integer")]
        for k, v in sd.items():
            if not is_int(v):
                return [("int", f"tokeniser state {k} = {v!r}")]
        for ti, sq in enumerate(tk.detokenise(toks)):
            f = check_seq(f"detokenised track {ti}", sq)
            if f:
                return f
    except Exception:
        return [("~skip:tokenise-raises", "")]
    return []


def o_tokeniser(inp):
    """TOKENISER CONFIGURATIONS (seeded change C11 of round 9: the default grids of a tokeniser whose resolution is not the library's were
    converted with a true division).  `kw`: integer constructor arguments — a resolution `ppqn` (or none), explicit `step_sizes` / `note_values`
    (or none: the defaults), flags; `tracks`: integer-tick relative tracks written for that resolution and those grids.  Judged without any
    table of the tokeniser as EXPECTATION: (a) every tick field of every emitted token (the text after rst_ / val_) is an integer literal,
    (b) the grids the object holds and every vocabulary entry that embeds a tick value are ints / integer literals — the object's own
    attributes are what is LOOKED AT here, nothing is compared with them —, (c) the carried state holds ints and both views of every
    detokenised track hold int ticks."""
    from scoda.tokenisation.notelike_tokenisation import MultiTrackLargeVocabularyNotelikeTokeniser as Tokeniser
    kw = {k: (tuple(v) if k in ("pitch_range", "time_signature_range") else (list(v) if isinstance(v, list) else v)) for k, v in inp["kw"].items()}
    for k in ("ppqn", "num_tracks", "velocity_bins"):
        if k in kw and not is_int(kw[k]):
            return [("~skip:outside-domain(non-integer-argument)", "")]
    if any(not is_int(x) for k in ("step_sizes", "note_values") for x in (kw.get(k) or [])):
        return [("~skip:outside-domain(non-integer-argument)", "")]
    seqs = [P.seq_of_rel([tuple(m) for m in r]) for r in inp["tracks"]]
    for i, q in enumerate(seqs):
        if check_seq(f"input track {i}", q):
            return [("~skip:outside-domain", "")]
    try:
        tk = Tokeniser(**kw)
    except Exception as e:
        return [("~skip:constructor-raises", f"{type(e).__name__}")]
    fails = []
    for name in ("step_sizes", "note_values"):
        bad = HB.non_int_entries(getattr(tk, name))
        if bad:
            fails.append(("grid-int", f"tokeniser.{name} of Tokeniser({inp['kw']}) holds non-int tick values {bad[:4]} ({type(bad[0]).__name__})"))
    bad = HB.non_integer_tick_fields(list(tk.dictionary.keys()))
    if bad:
        fails.append(("vocabulary-int", f"vocabulary entry {bad[0][0]!r} of Tokeniser({inp['kw']}) renders the tick field {bad[0][1]}_ as {bad[0][2]!r} ({len(bad)} such entries)"))
    sd = {}
    try:
        toks = tk.tokenise(seqs, state_dict=sd) if inp.get("state_dict") else tk.tokenise(seqs)
    except Exception as e:
        return fails + [("~skip:tokenise-raises", f"{type(e).__name__}: {e}")]
    bad = HB.non_integer_tick_fields(toks)
    if bad:
        fails.append(("token-int", f"token {bad[0][0]!r} renders the tick field {bad[0][1]}_ as {bad[0][2]!r}, not as an integer ({len(bad)} of {len(toks)} tokens)"))
    for t in toks:
        if "." in t or not isinstance(t, str):
            fails.append(("token-int", f"token {t!r} renders a non-integer"))
            break
    for k, v in sd.items():
        if not is_int(v):
            fails.append(("int", f"tokeniser state {k} = {v!r}"))
    for k in ("cur_time", "cur_rest_buffer"):
        v = getattr(tk, k, None)
        if v is not None and isinstance(v, float):
            fails.append(("int", f"tokeniser memory {k} = {v!r}"))
    try:
        back = tk.detokenise(toks)
    except Exception:
        return fails
    for ti, sq in enumerate(back):
        fails += check_seq(f"detokenised track {ti}", sq)
    return fails


def o_piece(inp):
    """bar splitting (either re-quantisation setting) of a multi-track piece, bars rebuilt into a composition and back"""
    from scoda.sequences.sequence import Sequence
    from scoda.elements.composition import Composition
    seqs = [P.seq_of_rel([tuple(m) for m in r]) for r in inp["tracks"]]
    for i, q in enumerate(seqs):
        f = check_seq(f"input track {i}", q)
        if f:
            return [("~skip:outside-domain", "")]
    try:
        tb = Sequence.sequences_split_bars(seqs, meta_track_index=0, quantise_note_lengths=inp.get("requant", True))
    except Exception:
        return [("~skip:split-bars-raises", "")]
    for ti, bars in enumerate(tb):
        for bi, b in enumerate(bars):
            f = check_seq(f"bar {ti}/{bi}", b.sequence)
            if f:
                return f
            try:
                f = check_seq(f"bar {ti}/{bi} to_sequence", b.to_sequence([b]) if hasattr(b, "to_sequence") else b.sequence)
            except Exception:
                f = []
            if f:
                return f
    try:
        comp = Composition.from_sequences([P.seq_of_rel([tuple(m) for m in r]) for r in inp["tracks"]])
        for ti, sq in enumerate(comp.to_sequences()):
            f = check_seq(f"composition track {ti}", sq)
            if f:
                return f
    except Exception:
        pass
    return []


def o_bar(inp):
    """Bar construction (padding, signature message) from a relative sequence"""
    from scoda.elements.bar import Bar
    try:
        b = Bar(P.seq_of_rel([tuple(m) for m in inp["rel"]]), inp["num"], inp["den"], None)
    except Exception:
        return [("~skip:bar-raises", "")]
    return check_seq("bar", b.sequence)


def setup(ctx):
    ctx.oracle("history", o_history)
    ctx.oracle("piece", o_piece)
    ctx.oracle("bar", o_bar)
    ctx.oracle("tokeniser", o_tokeniser)


def generate(ctx):
    rng = ctx.rng
    for i in range(ctx.n(120, 2500)):
        init = H.gen_init(rng)
        ops = H.gen_history(rng, rng.randint(0, 6 if not ctx.thorough else 12), reads=False, ext=U.gen_ext_op, ext_p=0.2)
        if rng.random() < 0.5:
            # integer scaling by any k in 1..8, either way of calling it (the shared alphabet only draws 1..3)
            ops.insert(rng.randint(0, len(ops)), ("scale", rng.randint(1, 8), rng.random() < 0.5))
        ctx.case((init, ops), len(ops) >= 2)
        for o in ops:
            ctx.count("op:" + o[0] + (":k>3" if o[0] == "scale" and o[1] > 3 else ""))
        # tokeniser configurations: every flag, bin count, both pitch ranges, a custom step / value list now and then
        cfg = {"num_tracks": 2, "pitch_range": rng.choice([[0, 127], [0, 127], [21, 108]]), "velocity_bins": rng.choice([1, 2, 4, 5, 8, 16]),
               "running": rng.random() < 0.5, "fuse_track": rng.random() < 0.5, "fuse_value": rng.random() < 0.5, "fuse_velocity": rng.random() < 0.5,
               "simplify_ts": rng.random() < 0.5}
        if rng.random() < 0.3:
            # (supersets of the defaults: the piece is quantised with the default lists before it is tokenised)
            cfg["step_sizes"] = rng.choice([[2, 3, 4, 6, 8, 12, 16, 24], [24, 12, 6, 16, 8, 4, 48], [4, 6, 8, 12, 16, 24, 96]])
            cfg["note_values"] = rng.choice([[24, 12, 6, 16, 8, 4, 36, 18, 9, 48], [3, 4, 6, 8, 9, 12, 16, 18, 24, 36, 96], [24, 12, 6, 16, 8, 4, 36, 18, 9, 72, 2]])
        ctx.count("tokeniser-config:" + ("custom-lists" if "step_sizes" in cfg else "default-lists"))
        inp = {"init": init, "ops": ops, "requant": rng.random() < 0.5, "cfg": cfg}
        ctx.check("history", inp)
        if i % 3 == 0:
            ctx.count("process-polluted-with-floats-before")
            ctx.check("history", dict(inp, pollute=[rng.choice([0.5, 0.25]), 2.0]))
        ctx.corr("seq", P.op_seq(init, U.driver_history(ops) + [("readAbs",), ("readRel",)]))
        # short bars and unequal tracks: typed correspondence of bar construction / splitting
        rel, _ = G.gen_wf_rel(rng, max_tick=40, max_dur=12, channels=(0,))
        rel = [m for m in rel if m[0] != TIMESIG]
        n, d = G.any_sig(rng)
        ctx.corr("bar", P.op_bar(n, d, None, rel))
        ctx.check("bar", {"rel": rel, "num": n, "den": d})
        piece = G.gen_piece(rng, unequal=True, tail_ok=True)
        rq = rng.random() < 0.5
        ctx.corr("splitBars", P.op_splitBars(0, rq, piece["tracks"]))
        ctx.check("piece", {"tracks": piece["tracks"], "requant": rq})
        if i % 3 == 1:
            # a note that is struck and never released before its track ends (integer input all the same): the pairing helper imputes its
            # note-off from `standard_length`, the one tick that is computed rather than copied (seeded change C11_agent8)
            trs = [list(t) for t in piece["tracks"]]
            j = rng.randrange(len(trs))
            trs[j] = trs[j] + [G.pm(ON, 0, None, note=rng.choice([67, 72]), vel=80), G.pm(WAIT, 0, rng.choice([6, 12, 30]))]
            ctx.count("piece:unreleased-note")
            ctx.check("piece", {"tracks": trs, "requant": rq})
            ctx.corr("splitBars", P.op_splitBars(0, rq, trs))
        # tokenisers of any integer resolution, with and without explicit grids (seeded change C11, round 9): a piece written for that
        # resolution and those grids (onsets on the smallest step, lengths among the note values, tracks of unequal length)
        for _ in range(2):
            kw, label = HB.gen_tok_cfg(rng)
            nt = rng.choice([1, 2, 2, 3])
            pc = HT.gen_piece_p(rng, ppqn=kw.get("ppqn") or 24, steps=kw.get("step_sizes"), values=kw.get("note_values"), n_tracks=nt,
                                n_bars=rng.randint(1, 3), tail_ok=rng.random() < 0.3)
            kw.update(num_tracks=nt, velocity_bins=rng.choice([1, 4, 8]), flag_running_values=rng.random() < 0.5, flag_fuse_track=rng.random() < 0.5,
                      flag_fuse_value=rng.random() < 0.5, flag_fuse_velocity=rng.random() < 0.5)
            ctx.count("tokeniser:" + label)
            ctx.check("tokeniser", {"kw": kw, "tracks": pc["tracks"], "state_dict": rng.random() < 0.5})
        ctx.sample({"init": [init[0], init[1][:4]], "ops": [o[0] for o in ops]})
