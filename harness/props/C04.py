"""C04 — absolute and relative views of a Sequence never diverge under any history."""
import gens as G
import histories as H
import h4seq_util as U
import pyimpl as P
from oracle_util import *  # noqa
from protocol import from_real

ID = "C04"
LEAN_MODULE = ["SCoda.Props.C04", "SCoda.Props.C04b", "SCoda.Props.C04c", "SCoda.Props.WrapTie", "SCoda.Props.C04d", "SCoda.Props.ViewTie", "SCoda.Props.C04e", "SCoda.Props.SortTie"]
LEVEL = "proof"
CLAUSES = [
    ("after any history both views describe the same timed events and the same duration (generic two-view machine, instantiated with the modelled conversions)",
     ["SCoda.C04.run_inv", "SCoda.C04.views_agree", "SCoda.C04.inv_new", "SCoda.C04.inv_ofAbs", "SCoda.C04.inv_ofRel",
      "SCoda.C04.readAbs_refines", "SCoda.C04.readRel_refines"]),
    ("the effect of every operation is visible through both views", ["SCoda.C04.absOp_visible", "SCoda.C04.relOp_visible", "SCoda.C04.read_content"]),
    ("no legal history leaves the sequence unreadable", ["SCoda.C04.step_inv", "SCoda.C04.run_inv"]),
    ("converting between the representations in either direction loses no event and no duration",
     ["SCoda.C04.toRel_events", "SCoda.C04.toRel_duration", "SCoda.C04.toAbs_events", "SCoda.C04.toAbs_duration",
      "SCoda.C04.toRel_ok", "SCoda.C04.toAbs_ok"]),
    ("every public mutator is a view-local function that keeps its view legal (OkAbs / OkRel), so it is an Op of the machine; "
     "the concrete wrapper functions are steps of the generic machine",
     ["SCoda.C04.normalise_okR", "SCoda.C04.pad_okR", "SCoda.C04.setChannel_okR", "SCoda.C04.scaleRel_okR", "SCoda.C04.transposeRel_okR",
      "SCoda.C04.concatenate_okR", "SCoda.C04.insertAt_okR", "SCoda.C04.mapRel_okR", "SCoda.C04.split_okR",
      "SCoda.C04.insort_eq_spec", "SCoda.C04.insort_okA", "SCoda.C04.overwrite_okA", "SCoda.C04.sortAbs_okA", "SCoda.C04.mergeAbs_okA",
      "SCoda.C04.cutoff_okA", "SCoda.C04.quantise_okA", "SCoda.C04.qnl_okA", "SCoda.C04.mapAbs_okA",
      "SCoda.C04.onRel_refines", "SCoda.C04.onAbs_refines", "SCoda.C04.overwriteAbs_refines", "SCoda.C04.overwriteRel_refines",
      "SCoda.C04.refresh_refines", "SCoda.C04.copy_inv"]),
    ("histories of the PUBLIC operations of the concrete wrapper model (one constructor per driver op, `Legal` states the argument restrictions once): "
     "from a state satisfying the invariant every legal operation succeeds and re-establishes it; after any legal history both reads succeed and describe "
     "the same timed events (up to the order of simultaneous ones) and the same duration; with any arguments at all the MODEL's stale-flag protocol keeps a readable state readable (the model's view links are total; in the real code three argument classes outside `Legal` behave differently — scale(0) and quantise([0]) raise ZeroDivisionError, add_absolute_message(WAIT) followed by pad leaves a sequence whose every later `.abs` raises TypeError: replayed, audit round 4 C1, so this sentence is about the flag protocol, not about arbitrary arguments of the real code) unless an "
     "empty step list is handed to quantise (audit A3)",
     ["SCoda.C04c.exec_total", "SCoda.C04c.exec_inv", "SCoda.C04c.history_inv", "SCoda.C04c.views_agree_after", "SCoda.C04c.readable",
      "SCoda.C04c.views_agree", "SCoda.C04c.read_keeps_views", "SCoda.C04c.exec_ok_of_readable", "SCoda.C04c.exec_error_only",
      "SCoda.C04c.history_readable", "SCoda.C04c.inv_new", "SCoda.C04c.inv_ofAbs", "SCoda.C04c.inv_ofRel", "SCoda.C04c.envOk_defaults",
      "SCoda.C04c.split_pieces_inv", "SCoda.C04c.equals_inv", "SCoda.C04c.copy_same"]),
    ("the effect of every public mutator is visible through both views: the written view reads exactly the function's output, and both views have its events "
     "and duration; every mutator is the list of its view-local stages",
     ["SCoda.C04c.effect_visible", "SCoda.C04c.exec_stages", "SCoda.C04c.effect_visible_op", "SCoda.C04c.overwrite_visible"]),
    ("TIE BY TRANSLATION: the wrapper methods of sequence.py are re-translated statement by statement on every run (Gen/WrapFns.lean, tools/py2lean_wrap.py) and "
     "each translation is proved equal to the wrapper model function the theorems above are about — same state and result or same error, for every state and "
     "argument (the `abs` / `rel` properties: same state AND the object handed out is that view; every default argument is pinned; decorators and the conventions "
     "AbstractSequence.__init__/copy are refused / pinned by the translator); composed: any legal history executed by the translated source keeps the invariant and stays readable. View-level methods are links (Model/ViewLib.lean)",
     ["SCoda.WrapTie.getAbs_eq", "SCoda.WrapTie.getRel_eq", "SCoda.WrapTie.invalidateAbs_eq", "SCoda.WrapTie.invalidateRel_eq", "SCoda.WrapTie.refresh_eq",
      "SCoda.WrapTie.copy_eq", "SCoda.WrapTie.pad_eq", "SCoda.WrapTie.setChannel_eq", "SCoda.WrapTie.normalise_eq", "SCoda.WrapTie.cutoff_eq",
      "SCoda.WrapTie.addAbs_eq", "SCoda.WrapTie.addRel_eq", "SCoda.WrapTie.overwriteAbs_eq", "SCoda.WrapTie.overwriteRel_eq",
      "SCoda.WrapTie.messagesAbs_eq", "SCoda.WrapTie.messagesRel_eq", "SCoda.WrapTie.quantise_eq", "SCoda.WrapTie.quantiseNoteLengths_eq",
      "SCoda.WrapTie.quantiseAndNormalise_eq", "SCoda.WrapTie.scale_eq", "SCoda.WrapTie.transpose_eq", "SCoda.WrapTie.split_eq",
      "SCoda.WrapTie.concatenate_eq", "SCoda.WrapTie.merge_eq", "SCoda.WrapTie.getSequenceDuration_eq", "SCoda.WrapTie.isEmpty_eq",
      "SCoda.WrapTie.translated_covered", "SCoda.WrapTie.equals_eq", "SCoda.WrapTie.isChannelConsistent_eq", "SCoda.WrapTie.getSequenceChannel_eq", "SCoda.WrapTie.defaults_pinned", "SCoda.WrapTie.message_type_order",
      "SCoda.ViewTie.view_defaults_pinned", "SCoda.C04d.genExec_eq", "SCoda.C04d.genRun_eq", "SCoda.C04d.history_inv_gen", "SCoda.C04d.history_readable_gen"]),
    ("TIE BY TRANSLATION, view level: the methods of RelativeSequence / AbsoluteSequence / MidiTrack that the wrapper calls and that have no dict-of-dict state are "
     "re-translated statement by statement on every run (Gen/ViewFns.lean, tools/py2lean.py: for/while/break/continue, in-place edits, binary_insort's bisection with "
     "fuel) and each translation is proved equal to the hand model for all inputs whose channels are not None: both conversions, pad, set_channel, concatenate, both "
     "add_message, scale (integer factor >= 1), transpose, merge, binary_insort, sort/normalise_absolute, get_sequence_duration, is_empty, to_midi_track/to_mido_track. "
     "Still linked by correspondence only: normalise_relative, split, quantise, quantise_note_lengths, cutoff (stores through an alias), the pairing helpers",
     ["SCoda.ViewTie.setChannel_eq", "SCoda.ViewTie.concatenate_eq", "SCoda.ViewTie.pad_eq", "SCoda.ViewTie.addMessage_none", "SCoda.ViewTie.addMessage_some", "SCoda.ViewTie.addMessageUnsorted_eq", "SCoda.ViewTie.normaliseAbsolute_eq", "SCoda.ViewTie.binaryInsort_eq", "SCoda.ViewTie.absAddMessage_eq", "SCoda.ViewTie.toAbs_eq", "SCoda.ViewTie.toRel_eq", "SCoda.ViewTie.scaleRel_eq", "SCoda.ViewTie.transposeRel_eq", "SCoda.ViewTie.transposeRel_eq_gen", "SCoda.ViewTie.getSequenceDuration_eq", "SCoda.ViewTie.merge_eq", "SCoda.ViewTie.isEmpty_eq", "SCoda.ViewTie.isChannelConsistent_eq", "SCoda.ViewTie.getSequenceChannel_eq", "SCoda.ViewTie.parseInternalMessage_eq", "SCoda.ViewTie.toMidiTrack_eq", "SCoda.ViewTie.toMidoTrack_eq", "SCoda.ViewTie.toMidi_toMido_eq"]),
    ("tripwire: every public name of Sequence found by introspection (regenerated list) appears in the hand-written classification table and "
     "vice versa — a new or removed public method breaks it; it says nothing about what the methods do",
     ["SCoda.C04.ops_covered", "SCoda.C04.ops_exist"]),
    ("C04 FOR THE TRANSLATED SOURCE WITH NO FALLBACK ON THE MODEL (audit round 3 R7): genRunStrict executes every step by the translation of sequence.py and answers 'no translated counterpart' instead of falling back on the hand model; from a state in the invariant any legal history over the translated entries runs to the end, keeps the invariant and leaves both views readable and in agreement. The translated step exists EXACTLY for the hasGen entries, for every state, equals included, and equals the model's step there. 'Every alphabet entry has a translated counterpart' is FALSE: editAbsFirst / editRelFirst are a consumer abandoning a generator after the first message, and pairings (Sequence.get_message_pairings) is not in the wrapper translator's list, its effect being the heap-level AbsTie2.pairings_init, composed in pairings_gen_state; those three stay covered by C04c.history_inv plus the sampled correspondence; history_readable_illegal_strict (readability without `Legal`) is, like C04c.history_readable, a fact about the flag protocol over TOTAL view links — at scale(0), quantise([0]) and add_absolute_message(WAIT) the real code raises where the model answers (audit round 4 C1, replayed)",
     ["SCoda.C04e.genExec2_isSome", "SCoda.C04e.genExec_isSome", "SCoda.C04e.hasGen_false_iff", "SCoda.C04e.genExec2_eq", "SCoda.C04e.genExec2_total_partial", "SCoda.C04e.genExec_total_statement_false", "SCoda.C04e.genExec2_total_statement_false", "SCoda.C04e.genRunStrict_eq", "SCoda.C04e.genRunStrict_none", "SCoda.C04e.genRunStrict_eq_none", "SCoda.C04e.genRun_uses_gen", "SCoda.C04e.history_inv_strict", "SCoda.C04e.history_readable_strict", "SCoda.C04e.views_agree_after_strict", "SCoda.C04e.history_readable_illegal_strict", "SCoda.C04e.pairings_gen_state"]),
    ("TIE BY TRANSLATION of the sort that every absolute-view operation goes through: AbsoluteSequence.sort (its list.sort call and the key lambda (time, -1 if channel is None else channel, message_type, note)), MessageType.__lt__ and the declaration order of the enum members are re-translated expression by expression on every run (Gen/SortFns.lean, tools/py2lean_sort.py; Python's == and < on None / int / enum members, tuple comparison, list.index and list.sort are the language model Model/SortLib.lean) and proved equal to the hand model: on every message list whose keys Python can compare (the times are all None or all ints; two messages equal in (time, channel, type) have both notes None or both ints) the translated sort returns exactly sortAbs l, through any projection (heap references, tagged messages); outside that domain it raises TypeError, as the real code does (replayed: a NOTE_ON with a note and a hand-built NOTE_ON without one on the same tick and channel; a message without a time in a timed sequence; two TIME_SIGNATUREs on one tick and channel are inside the domain); keyLe a b holds iff key(b) < key(a) is False; Python's key order is a strict weak order on the domain and ANY stable sort by it (a permutation that is sorted and keeps the relative order of equal keys) is sortAbs l — modelling CPython's timsort by an insertion sort is a theorem, the one assumption left is that list.sort is a stable comparison sort. This discharges the list.sort links of tools/py2lean.py (sort -> sortAbs) and tools/py2lean_abs2.py (sortRefs), which until now were only fingerprinted (tools/conventions.py)",
     ["SCoda.SortTie.sort_eq", "SCoda.SortTie.sortOf_eq_isort", "SCoda.SortTie.sort_raises", "SCoda.SortTie.sortOf_raises", "SCoda.SortTie.sort_ok_iff", "SCoda.SortTie.keyLe_iff", "SCoda.SortTie.keyLt_eq", "SCoda.SortTie.keyLt_ok_iff_comparable", "SCoda.SortTie.messageTypeLt_eq", "SCoda.SortTie.messageTypeLt_nonmember", "SCoda.SortTie.members_eq", "SCoda.SortTie.memberNames_eq", "SCoda.SortTie.generated_order_strictWeakOrder", "SCoda.SortTie.any_stable_sort_eq_sortAbs", "SCoda.SortTie.stable_sort_is_isortBy", "SCoda.SortTie.isortBy_is_stable_sort", "SCoda.SortTie.sortDom_of_wellFormed", "SCoda.SortTie.sortRefs_discharged", "SCoda.SortTie.viewSort_discharged", "SCoda.SortTie.sort_eq_statement_false", "SCoda.SortTie.keyLe_iff_statement_false"]),
]
RULE = ("random histories (<=12 ops quick, <=40 thorough) over the full public alphabet (mutators, both overwrites, edits while "
        "iterating either view incl. in-order time edits, copy (the original left behind is kept and re-read at the end), refresh, reads in any order, the "
        "read-only public calls equals / == / is_empty / to_midi_track / durations / get_message_times_of_type / both pairing calls / channel queries); after "
        "EVERY step the history prefix is replayed on a second object whose two views are read directly (never through copy()) and compared with each other "
        "and with a harness-side prediction of the operation's effect; split pieces are read too; from each of the three freshness states, driven through real "
        "Sequence objects and the Lean wrapper machine; plus the complete table op x freshness state; "
        "non-trivial = history with >= 3 mutators and sequence with >= 1 note")
ASSUMPTIONS = ["model: Seq machine (Model/Wrapper.lean) instantiated with the modelled functions: every wrapper method except the three named in C04e.hasGen_false_iff is tied by translation (WrapTie, C04d, C04e), every view-level function by ViewTie / RelTie2 / AbsTie2 / SortTie; additionally compared step by step on random histories",
               "excluded as not legal (DESIGN C04): invalidate_* by hand, out-of-order time edits through an iterator"]
MUTATORS = {"editAbsPeek", "editRelPeek", "editAbsFirst", "editRelFirst", "normalise", "pad", "setChannel", "cutoff", "quantise", "qnl", "quantiseAndNormalise", "transpose", "scale",
            "editAbs", "editRel", "overwriteAbs", "overwriteRel", "merge", "concat", "addAbs", "addRel"}


def views_agree(s, order="abs-first"):
    """both views of the object ITSELF, read through its public properties (no copy(): a copy would hide whatever copy() loses or shares).
    Reading refreshes the stale view, so callers use it on an object whose history ends here (o_history replays the history prefix on a
    second, identically built object for every step)."""
    a, r = U.read_direct(s, order)
    return U.views_disagree(a, r)


def _build(init, start):
    s = P.make_seq(init)
    if start == "both":
        s.refresh()
    return s


def _replay(init, start, ops):
    """a fresh object with the history `ops` run on it.  Returns (sequence, originals kept at every `copy`, pieces of the last split,
    (index, exception) of the LAST op if it raised else None).  Earlier ops that raise are passed over exactly as in the real history."""
    s = _build(init, start)
    kept, pieces, last_err = [], None, None
    for i, op in enumerate(ops):
        pieces, last_err = None, None
        if op[0] == "copy":
            kept.append(s)
        try:
            s, _, pieces = U.seq_step(s, op)
        except Exception as e:
            last_err = (i, e)
    return s, kept, pieces, last_err


def o_history(inp):
    init = (inp["init"][0], [tuple(m) for m in inp["init"][1]])
    ops = [_norm_op(tuple(op)) for op in inp["ops"]]
    st = inp.get("start", "as-built")
    # "converting loses no event and no duration": what was put in is what both views show, every field included (a payload value 0 is a
    # legal control / program number).  Read off two freshly built objects' own views, one in each order (not through copy()).
    prev = None
    for order in ("abs-first", "rel-first"):
        try:
            a0, r0 = U.read_direct(_build(init, st), order)
        except Exception as e:
            return [("unreadable", f"reading the freshly built sequence raised {type(e).__name__}: {e}")]
        if init[0] in ("abs", "rel"):
            put = U.content_abs(init[1]) if init[0] == "abs" else U.content_rel(init[1])
            for nm, got in (("absolute", U.content_abs(a0)), ("relative", U.content_rel(r0))):
                if got[0] != put[0]:
                    lost = [x for x in put[0] if x not in got[0]]
                    return [("lossless", f"the {nm} view of the freshly built sequence (read {order}) does not show the events put in: missing/changed {lost[:4]}")]
                if got[1] != put[1] and init[1]:
                    return [("lossless", f"duration put in {put[1]}, the {nm} view (read {order}) shows {got[1]}")]
        f = U.views_disagree(a0, r0)
        if f:
            return [(c, f"freshly built: {d}") for c, d in f]
        prev = (a0, r0)
    snaps = [U.content_rel(prev[1])]         # snaps[j]: the content before op j
    copy_at = [j for j, op in enumerate(ops) if op[0] == "copy"]
    for i, op in enumerate(ops):
        order = "abs-first" if (i + len(ops)) % 2 == 0 else "rel-first"
        s, kept, pieces, err = _replay(init, st, ops[:i + 1])
        if err is not None:
            e = err[1]
            name = type(e).__name__
            if name == "SequenceException" and "stale" in str(e):
                return [("unreadable", f"op {i} {op[0]} raised: {e}")]
            if op[0] in U.READ_ONLY:
                pass        # what a read-only query answers (or that it refuses an empty / multi-channel sequence) is not C04's business; the state after it is
            elif name == "SequenceException":
                pass        # an op-level refusal; the object must still be readable afterwards (checked below)
            elif name in ("IndexError", "KeyError", "ValueError", "TypeError", "AttributeError"):
                return [("op-raises", f"op {i} {op[0]} raised {name}: {e}")]
            else:
                raise e
        try:
            a, r = U.read_direct(s, order)
        except Exception as e:
            return [("unreadable", f"after op {i} {op[0]}: reading ({order}) raised {type(e).__name__}: {e}")]
        f = U.views_disagree(a, r)
        if f:
            return [(c, f"after op {i} {op[0]} (read {order}): {d}") for c, d in f]
        # "the effect of every operation is visible through both views": for the operations with a harness-side model, both views show it
        exp = U.effect(op, prev[0], prev[1]) if err is None else (U.content_rel(prev[1]) if op[0] in U.READ_ONLY else None)
        if exp is not None:
            got = U.content_rel(r)
            if got[0] != exp[0]:
                diff = [x for x in exp[0] if x not in got[0]][:3] + [x for x in got[0] if x not in exp[0]][:3]
                return [("effect", f"after op {i} {op}: the views do not show the operation's effect on the content before it: differing events {diff}")]
            if got[1] != exp[1]:
                return [("effect", f"after op {i} {op}: duration {got[1]}, expected {exp[1]}")]
        # pieces of a split are sequences too: their views agree
        for pi, pc in enumerate(pieces or []):
            try:
                fp = views_agree(pc, order)
            except Exception as e:
                return [("unreadable", f"split piece {pi} after op {i}: reading raised {type(e).__name__}: {e}")]
            if fp:
                return [("piece-" + fp[0][0], f"split piece {pi} after op {i}: {fp[0][1]}")]
        # a copy taken during the history leaves an original behind: whatever happens to the copy afterwards, the original's views agree
        # and still show what they showed when the copy was taken (checked at the end of each prefix; reading ends that object's life)
        if i == len(ops) - 1:
            for ki, k in enumerate(kept):
                try:
                    fk = views_agree(k, order)
                except Exception as e:
                    return [("unreadable", f"the original left behind by copy #{ki}: reading raised {type(e).__name__}: {e}")]
                if fk:
                    return [("original-" + fk[0][0], f"the original left behind by copy #{ki} after the history continued on the copy: {fk[0][1]}")]
                if ki < len(copy_at) and copy_at[ki] < len(snaps) and U.content_rel([from_real(m) for m in k.rel._messages]) != snaps[copy_at[ki]]:
                    return [("original-changed", f"the original left behind by copy #{ki} no longer shows the content it had when it was copied")]
            # and a copy of the final state shows what the object itself shows
            try:
                ca, cr = U.read_direct(_replay(init, st, ops)[0].copy(), order)
            except Exception as e:
                return [("unreadable", f"copy of the final state: reading raised {type(e).__name__}: {e}")]
            if U.content_abs(ca) != U.content_abs(a) or U.content_rel(cr) != U.content_rel(r):
                return [("copy-differs", "a copy of the final state does not show the content the object itself shows")]
        prev = (a, r)
        snaps.append(U.content_rel(r))
    return []


def _norm_op(op):
    """JSON round trip turns tuples into lists: restore the message tuples"""
    def fix(x):
        if isinstance(x, list) and len(x) == 10 and not isinstance(x[0], list) and (x[0] is None or isinstance(x[0], int)) \
                and any(v is None for v in x):
            return tuple(x)
        if isinstance(x, list):
            return [fix(y) for y in x]
        return x
    return tuple(fix(x) for x in op)


def setup(ctx):
    ctx.oracle("history", o_history)


def generate(ctx):
    rng = ctx.rng
    for i in range(ctx.n(150, 3000)):
        init = H.gen_init(rng)
        ops = H.gen_history(rng, rng.randint(1, 12 if not ctx.thorough else 40), ext=U.gen_ext_op)
        start = rng.choice(["as-built", "both"])
        nm = sum(1 for o in ops if o[0] in MUTATORS)
        has_note = any(m[0] == 7 for m in init[1])
        ctx.case((init, ops, start), nm >= 3 and has_note)
        for o in ops:
            ctx.count("op:" + o[0])
        ctx.count("init:" + init[0])
        ctx.check("history", {"init": init, "ops": ops, "start": start})
        pre = [("refresh",)] if start == "both" else []
        # the Lean driver does not know the time edits and the read-only calls: it gets the history with each read-only call replaced by the
        # driver op with the same effect on the wrapper state and without the time edits (those are judged by the oracle only)
        ctx.corr("seq", P.op_seq(init, pre + U.driver_history(ops) + [("flags",), ("readAbs",), ("readRel",)]))
        ctx.sample({"init": [init[0], init[1][:4]], "ops": [o[0] for o in ops]})
    # complete table: every op from each freshness state on a small fixed sequence
    base = G.notes_to_abs([(5, 60, 0, 24, 64), (5, 62, 24, 12, 80)], cap=48)      # channel 5: every set_channel(0..3) is a real change
    rng2 = __import__("random").Random(1)
    oa = [G.notes_to_abs([(0, 65, 0, 12, 50)])]
    orl = [G.abs_to_rel(oa[0])]
    names = set()
    table = []
    for _ in range(400):
        op = H.gen_op(rng2, oa, orl)
        if op[0] not in names:
            names.add(op[0]); table.append(op)
    for op in table:
        for init, pre in ((("abs", base), []), (("rel", G.abs_to_rel(base)), []), (("abs", base), [("refresh",)])):
            ctx.corr("seq-table", P.op_seq(init, pre + [("flags",), op, ("flags",), ("readAbs",), ("readRel",)]))
            ctx.check("history", {"init": init, "ops": pre + [op], "start": "as-built"})
    ctx.count("table-ops", len(table))
    # the same for the extended alphabet (audit O11): every time edit kind through either iterator and every read-only public call
    seen, ext_table = set(), []
    for _ in range(600):
        op = U.gen_ext_op(rng2, oa)
        k = (op[0], op[1] if op[0].startswith("edit") else (op[1] is None if op[0] in ("equals", "eq") else None))
        if k not in seen:
            seen.add(k); ext_table.append(op)
    for op in ext_table:
        for init, pre in ((("abs", base), []), (("rel", G.abs_to_rel(base)), []), (("abs", base), [("refresh",)]), (("new", []), [])):
            ctx.corr("seq-table", P.op_seq(init, U.driver_history(pre + [("flags",), op, ("flags",), ("readAbs",), ("readRel",)])))
            ctx.check("history", {"init": init, "ops": pre + [op, ("normalise",), op], "start": "as-built"})
    ctx.count("table-ops-extended", len(ext_table))
    # exhaustive small scope of the two conversions: every relative list of <= 3 (quick) / <= 4 (thorough) messages,
    # read through the absolute view, and that absolute list read back through the relative view
    for rel in G.enum_rel(4 if ctx.thorough else 3):
        ctx.count("small-scope")
        init = ("rel", rel)
        ctx.corr("seq-small", P.op_seq(init, [("readAbs",), ("readRel",), ("flags",)]))
        ctx.check("history", {"init": init, "ops": [("readAbs",)], "start": "as-built"})
        try:
            a = [from_real(m) for m in P.make_seq(init).abs._messages]
        except Exception:
            continue
        ctx.corr("seq-small", P.op_seq(("abs", a), [("readRel",), ("readAbs",), ("flags",)]))
        ctx.check("history", {"init": ("abs", a), "ops": [("readRel",)], "start": "as-built"})
