"""C04 — absolute and relative views of a Sequence never diverge under any history."""
import gens as G
import histories as H
import pyimpl as P
from oracle_util import *  # noqa
from protocol import from_real

ID = "C04"
LEAN_MODULE = ["SCoda.Props.C04", "SCoda.Props.C04b", "SCoda.Props.C04c", "SCoda.Props.WrapTie", "SCoda.Props.C04d", "SCoda.Props.ViewTie", "SCoda.Props.C04e"]
LEVEL = "proof"
CLAUSES = [
    ("after any history both views describe the same timed events and the same duration (generic two-view machine, instantiated with the modelled conversions)",
     ["SCoda.C04.run_inv", "SCoda.C04.views_agree", "SCoda.C04.inv_new", "SCoda.C04.inv_ofAbs", "SCoda.C04.inv_ofRel",
      "SCoda.C04.readAbs_refines", "SCoda.C04.readRel_refines"]),
    ("the effect of every operation is visible through both views", ["SCoda.C04.absOp_visible", "SCoda.C04.relOp_visible", "SCoda.C04.read_content"]),
    ("no legal history leaves the sequence unreadable", ["SCoda.C04.step_inv", "SCoda.C04.run_inv"]),
    ("converting between the representations in either direction loses no event and no duration",
     ["SCoda.C04.toRel_events", "SCoda.C04.toRel_duration", "SCoda.C04.toAbs_events", "SCoda.C04.toAbs_duration",
      "SCoda.C04.toRel_ok", "SCoda.C04.toAbs_ok"]),
    ("every public mutator is a view-local function that keeps its view legal (OkAbs / OkRel), so it is an Op of the machine; "
     "the concrete wrapper functions are steps of the generic machine",
     ["SCoda.C04.normalise_okR", "SCoda.C04.pad_okR", "SCoda.C04.setChannel_okR", "SCoda.C04.scaleRel_okR", "SCoda.C04.transposeRel_okR",
      "SCoda.C04.concatenate_okR", "SCoda.C04.insertAt_okR", "SCoda.C04.mapRel_okR", "SCoda.C04.split_okR",
      "SCoda.C04.insort_eq_spec", "SCoda.C04.insort_okA", "SCoda.C04.overwrite_okA", "SCoda.C04.sortAbs_okA", "SCoda.C04.mergeAbs_okA",
      "SCoda.C04.cutoff_okA", "SCoda.C04.quantise_okA", "SCoda.C04.qnl_okA", "SCoda.C04.mapAbs_okA",
      "SCoda.C04.onRel_refines", "SCoda.C04.onAbs_refines", "SCoda.C04.overwriteAbs_refines", "SCoda.C04.overwriteRel_refines",
      "SCoda.C04.refresh_refines", "SCoda.C04.copy_inv"]),
    ("histories of the PUBLIC operations of the concrete wrapper model (one constructor per driver op, `Legal` states the argument restrictions once): "
     "from a state satisfying the invariant every legal operation succeeds and re-establishes it; after any legal history both reads succeed and describe "
     "the same timed events (up to the order of simultaneous ones) and the same duration; with any arguments at all a readable state stays readable unless an "
     "empty step list is handed to quantise (audit A3)",
     ["SCoda.C04c.exec_total", "SCoda.C04c.exec_inv", "SCoda.C04c.history_inv", "SCoda.C04c.views_agree_after", "SCoda.C04c.readable",
      "SCoda.C04c.views_agree", "SCoda.C04c.read_keeps_views", "SCoda.C04c.exec_ok_of_readable", "SCoda.C04c.exec_error_only",
      "SCoda.C04c.history_readable", "SCoda.C04c.inv_new", "SCoda.C04c.inv_ofAbs", "SCoda.C04c.inv_ofRel", "SCoda.C04c.envOk_defaults",
      "SCoda.C04c.split_pieces_inv", "SCoda.C04c.equals_inv", "SCoda.C04c.copy_same"]),
    ("the effect of every public mutator is visible through both views: the written view reads exactly the function's output, and both views have its events "
     "and duration; every mutator is the list of its view-local stages",
     ["SCoda.C04c.effect_visible", "SCoda.C04c.exec_stages", "SCoda.C04c.effect_visible_op", "SCoda.C04c.overwrite_visible"]),
    ("TIE BY TRANSLATION: the wrapper methods of sequence.py are re-translated statement by statement on every run (Gen/WrapFns.lean, tools/py2lean_wrap.py) and "
     "each translation is proved equal to the wrapper model function the theorems above are about — same state and result or same error, for every state and "
     "argument (the `abs` / `rel` properties: same state AND the object handed out is that view; every default argument is pinned; decorators and the conventions "
     "AbstractSequence.__init__/copy are refused / pinned by the translator); composed: any legal history executed by the translated source keeps the invariant and stays readable. View-level methods are links (Model/ViewLib.lean)",
     ["SCoda.WrapTie.getAbs_eq", "SCoda.WrapTie.getRel_eq", "SCoda.WrapTie.invalidateAbs_eq", "SCoda.WrapTie.invalidateRel_eq", "SCoda.WrapTie.refresh_eq",
      "SCoda.WrapTie.copy_eq", "SCoda.WrapTie.pad_eq", "SCoda.WrapTie.setChannel_eq", "SCoda.WrapTie.normalise_eq", "SCoda.WrapTie.cutoff_eq",
      "SCoda.WrapTie.addAbs_eq", "SCoda.WrapTie.addRel_eq", "SCoda.WrapTie.overwriteAbs_eq", "SCoda.WrapTie.overwriteRel_eq",
      "SCoda.WrapTie.messagesAbs_eq", "SCoda.WrapTie.messagesRel_eq", "SCoda.WrapTie.quantise_eq", "SCoda.WrapTie.quantiseNoteLengths_eq",
      "SCoda.WrapTie.quantiseAndNormalise_eq", "SCoda.WrapTie.scale_eq", "SCoda.WrapTie.transpose_eq", "SCoda.WrapTie.split_eq",
      "SCoda.WrapTie.concatenate_eq", "SCoda.WrapTie.merge_eq", "SCoda.WrapTie.getSequenceDuration_eq", "SCoda.WrapTie.isEmpty_eq",
      "SCoda.WrapTie.translated_covered", "SCoda.WrapTie.equals_eq", "SCoda.WrapTie.isChannelConsistent_eq", "SCoda.WrapTie.getSequenceChannel_eq", "SCoda.WrapTie.defaults_pinned", "SCoda.WrapTie.message_type_order",
      "SCoda.ViewTie.view_defaults_pinned", "SCoda.C04d.genExec_eq", "SCoda.C04d.genRun_eq", "SCoda.C04d.history_inv_gen", "SCoda.C04d.history_readable_gen"]),
    ("TIE BY TRANSLATION, view level: the methods of RelativeSequence / AbsoluteSequence / MidiTrack that the wrapper calls and that have no dict-of-dict state are "
     "re-translated statement by statement on every run (Gen/ViewFns.lean, tools/py2lean.py: for/while/break/continue, in-place edits, binary_insort's bisection with "
     "fuel) and each translation is proved equal to the hand model for all inputs whose channels are not None: both conversions, pad, set_channel, concatenate, both "
     "add_message, scale (integer factor >= 1), transpose, merge, binary_insort, sort/normalise_absolute, get_sequence_duration, is_empty, to_midi_track/to_mido_track. "
     "Still linked by correspondence only: normalise_relative, split, quantise, quantise_note_lengths, cutoff (stores through an alias), the pairing helpers",
     ["SCoda.ViewTie.setChannel_eq", "SCoda.ViewTie.concatenate_eq", "SCoda.ViewTie.pad_eq", "SCoda.ViewTie.addMessage_none", "SCoda.ViewTie.addMessage_some", "SCoda.ViewTie.addMessageUnsorted_eq", "SCoda.ViewTie.normaliseAbsolute_eq", "SCoda.ViewTie.binaryInsort_eq", "SCoda.ViewTie.absAddMessage_eq", "SCoda.ViewTie.toAbs_eq", "SCoda.ViewTie.toRel_eq", "SCoda.ViewTie.scaleRel_eq", "SCoda.ViewTie.transposeRel_eq", "SCoda.ViewTie.transposeRel_eq_gen", "SCoda.ViewTie.getSequenceDuration_eq", "SCoda.ViewTie.merge_eq", "SCoda.ViewTie.isEmpty_eq", "SCoda.ViewTie.isChannelConsistent_eq", "SCoda.ViewTie.getSequenceChannel_eq", "SCoda.ViewTie.parseInternalMessage_eq", "SCoda.ViewTie.toMidiTrack_eq", "SCoda.ViewTie.toMidoTrack_eq", "SCoda.ViewTie.toMidi_toMido_eq"]),
    ("tripwire: every public name of Sequence found by introspection (regenerated list) appears in the hand-written classification table and "
     "vice versa — a new or removed public method breaks it; it says nothing about what the methods do",
     ["SCoda.C04.ops_covered", "SCoda.C04.ops_exist"]),
    ("C04 FOR THE TRANSLATED SOURCE WITH NO FALLBACK ON THE MODEL (audit round 3 R7): genRunStrict executes every step by the translation of sequence.py and answers 'no translated counterpart' instead of falling back on the hand model; from a state in the invariant any legal history over the translated entries runs to the end, keeps the invariant and leaves both views readable and in agreement. The translated step exists EXACTLY for the hasGen entries, for every state, equals included, and equals the model's step there. 'Every alphabet entry has a translated counterpart' is FALSE: editAbsFirst / editRelFirst are a consumer abandoning a generator after the first message, and pairings (Sequence.get_message_pairings) is not in the wrapper translator's list, its effect being the heap-level AbsTie2.pairings_init, composed in pairings_gen_state; those three stay covered by C04c.history_inv plus the sampled correspondence",
     ["SCoda.C04e.genExec2_isSome", "SCoda.C04e.genExec_isSome", "SCoda.C04e.hasGen_false_iff", "SCoda.C04e.genExec2_eq", "SCoda.C04e.genExec2_total_partial", "SCoda.C04e.genExec_total_statement_false", "SCoda.C04e.genExec2_total_statement_false", "SCoda.C04e.genRunStrict_eq", "SCoda.C04e.genRunStrict_none", "SCoda.C04e.genRunStrict_eq_none", "SCoda.C04e.genRun_uses_gen", "SCoda.C04e.history_inv_strict", "SCoda.C04e.history_readable_strict", "SCoda.C04e.views_agree_after_strict", "SCoda.C04e.history_readable_illegal_strict", "SCoda.C04e.pairings_gen_state"]),
]
RULE = ("random histories (<=12 ops quick, <=40 thorough) over the full public alphabet (mutators, both overwrites, edits while "
        "iterating either view, copy, refresh, reads in any order) from each of the three freshness states, driven through real "
        "Sequence objects and the Lean wrapper machine; plus the complete table op x freshness state; "
        "non-trivial = history with >= 3 mutators and sequence with >= 1 note")
ASSUMPTIONS = ["model: Seq machine (Model/Wrapper.lean) instantiated with the modelled functions, compared step by step",
               "excluded as not legal (DESIGN C04): invalidate_* by hand, out-of-order time edits through an iterator"]
MUTATORS = {"editAbsPeek", "editRelPeek", "editAbsFirst", "editRelFirst", "normalise", "pad", "setChannel", "cutoff", "quantise", "qnl", "quantiseAndNormalise", "transpose", "scale",
            "editAbs", "editRel", "overwriteAbs", "overwriteRel", "merge", "concat", "addAbs", "addRel"}


def views_agree(s):
    """compare both views of a *copy* (so that the history is not perturbed by the reads)"""
    c = s.copy()
    a = [from_real(m) for m in c.abs._messages]
    r = [from_real(m) for m in c.rel._messages]
    ta, da = abs_timed(a)
    tr, dr = rel_timed(r)
    strip = lambda lst: sorted((t,) + tuple(-1 if x is None else x for x in (m[0], m[1]) + tuple(m[3:])) for t, m in lst)  # noqa
    fails = []
    if strip(ta) != strip(tr):
        fails.append(("diverge", f"views differ: abs {strip(ta)[:6]} rel {strip(tr)[:6]}"))
    if (da if a else 0) != dr:
        fails.append(("duration", f"abs duration {da}, rel duration {dr}"))
    return fails


def o_history(inp):
    init = (inp["init"][0], [tuple(m) for m in inp["init"][1]])
    ops = [tuple(tuple(x) if isinstance(x, list) and x and not isinstance(x[0], list) and len(x) == 10 and False else x for x in op) for op in inp["ops"]]
    s = P.make_seq(init)
    fails = []
    # start state variants: make only-abs / only-rel / both fresh
    st = inp.get("start", "as-built")
    if st == "both":
        s.refresh()
    # "converting loses no event and no duration": what was put in is what both views show, every field included
    # (a payload value 0 is a legal control / program number)
    if init[0] in ("abs", "rel"):
        put, dput = (abs_timed if init[0] == "abs" else rel_timed)(init[1])
        strip = lambda lst: sorted((t,) + tuple(-1 if x is None else x for x in (m[0], m[1]) + tuple(m[3:])) for t, m in lst)  # noqa
        try:
            c = s.copy()
            ga, da = abs_timed([from_real(m) for m in c.abs._messages])
            gr, dr = rel_timed([from_real(m) for m in c.rel._messages])
        except Exception as e:
            return [("unreadable", f"reading the freshly built sequence raised {type(e).__name__}: {e}")]
        for nm, got in (("absolute", ga), ("relative", gr)):
            if strip(got) != strip(put):
                lost = [x for x in strip(put) if x not in strip(got)]
                return [("lossless", f"the {nm} view of the freshly built sequence does not show the events put in: missing/changed {lost[:4]}")]
        if dr != dput and init[1]:
            return [("lossless", f"duration put in {dput}, relative view shows {dr}")]
    for i, op in enumerate(ops):
        op = _norm_op(op)
        try:
            s, _ = P._seq_step(s, op)
        except Exception as e:
            name = type(e).__name__
            if name == "SequenceException" and "stale" in str(e):
                return fails + [("unreadable", f"op {i} {op[0]} raised: {e}")]
            if name in ("SequenceException",):
                continue      # e.g. scale with a non-integer factor is not generated; other SequenceExceptions are op-level errors
            if name in ("IndexError", "KeyError", "ValueError", "TypeError", "AttributeError"):
                return fails + [("op-raises", f"op {i} {op[0]} raised {name}: {e}")]
            raise
        try:
            f = views_agree(s)
        except Exception as e:
            return fails + [("unreadable", f"after op {i} {op[0]}: reading raised {type(e).__name__}: {e}")]
        if f:
            return fails + [(c, f"after op {i} {op[0]}: {d}") for c, d in f]
    return fails


def _norm_op(op):
    """JSON round trip turns tuples into lists: restore the message tuples"""
    def fix(x):
        if isinstance(x, list) and len(x) == 10 and not isinstance(x[0], list) and (x[0] is None or isinstance(x[0], int)) \
                and any(v is None for v in x):
            return tuple(x)
        if isinstance(x, list):
            return [fix(y) for y in x]
        return x
    return tuple(fix(x) for x in op)


def setup(ctx):
    ctx.oracle("history", o_history)


def generate(ctx):
    rng = ctx.rng
    for i in range(ctx.n(150, 3000)):
        init = H.gen_init(rng)
        ops = H.gen_history(rng, rng.randint(1, 12 if not ctx.thorough else 40))
        start = rng.choice(["as-built", "both"])
        nm = sum(1 for o in ops if o[0] in MUTATORS)
        has_note = any(m[0] == 7 for m in init[1])
        ctx.case((init, ops, start), nm >= 3 and has_note)
        for o in ops:
            ctx.count("op:" + o[0])
        ctx.count("init:" + init[0])
        ctx.check("history", {"init": init, "ops": ops, "start": start})
        pre = [("refresh",)] if start == "both" else []
        ctx.corr("seq", P.op_seq(init, pre + ops + [("flags",), ("readAbs",), ("readRel",)]))
        ctx.sample({"init": [init[0], init[1][:4]], "ops": [o[0] for o in ops]})
    # complete table: every op from each freshness state on a small fixed sequence
    base = G.notes_to_abs([(5, 60, 0, 24, 64), (5, 62, 24, 12, 80)], cap=48)      # channel 5: every set_channel(0..3) is a real change
    rng2 = __import__("random").Random(1)
    oa = [G.notes_to_abs([(0, 65, 0, 12, 50)])]
    orl = [G.abs_to_rel(oa[0])]
    names = set()
    table = []
    for _ in range(400):
        op = H.gen_op(rng2, oa, orl)
        if op[0] not in names:
            names.add(op[0]); table.append(op)
    for op in table:
        for init, pre in ((("abs", base), []), (("rel", G.abs_to_rel(base)), []), (("abs", base), [("refresh",)])):
            ctx.corr("seq-table", P.op_seq(init, pre + [("flags",), op, ("flags",), ("readAbs",), ("readRel",)]))
            ctx.check("history", {"init": init, "ops": pre + [op], "start": "as-built"})
    ctx.count("table-ops", len(table))
    # exhaustive small scope of the two conversions: every relative list of <= 3 (quick) / <= 4 (thorough) messages,
    # read through the absolute view, and that absolute list read back through the relative view
    for rel in G.enum_rel(4 if ctx.thorough else 3):
        ctx.count("small-scope")
        init = ("rel", rel)
        ctx.corr("seq-small", P.op_seq(init, [("readAbs",), ("readRel",), ("flags",)]))
        ctx.check("history", {"init": init, "ops": [("readAbs",)], "start": "as-built"})
        try:
            a = [from_real(m) for m in P.make_seq(init).abs._messages]
        except Exception:
            continue
        ctx.corr("seq-small", P.op_seq(("abs", a), [("readRel",), ("readAbs",), ("flags",)]))
        ctx.check("history", {"init": ("abs", a), "ops": [("readRel",)], "start": "as-built"})
