"""C17 — equals distinguishes exactly the sequences that differ musically."""
import gens as G
import pyimpl as P
from oracle_util import *  # noqa
from protocol import from_real, pm
import h9_util as U

ID = "C17"
LEAN_MODULE = ["SCoda.Props.C17", "SCoda.Props.Notes", "SCoda.Props.NotesB", "SCoda.Props.WrapTie", "SCoda.Props.AbsTie2", "SCoda.Props.SortTie", "SCoda.Props.AbsTie2G"]
LEVEL = "proof"
CLAUSES = [
    ("reflexive (every list, every flag set) and symmetric", ["SCoda.C17.refl", "SCoda.C17.symm"]),
    ("insertion order and representation do not matter: permutations with distinct sort keys are interchangeable; only the sorted list is looked at",
     ["SCoda.C17.perm_invariant", "SCoda.C17.equals_of_perm", "SCoda.C17.sort_invariant"]),
    ("single-attribute sensitivity: two one-note sequences are equal iff channel, pitch, onset, duration and velocity agree; "
     "a time signature's value and tick both matter", ["SCoda.C17.single_note", "SCoda.C17.single_time_signature"]),
    ("each ignore flag relaxes only its own attribute: velocity = velocities erased, time/key signature = those events removed, "
     "channel = uniform relabelling equal with the flag and unequal without",
     ["SCoda.C17.flag_velocity", "SCoda.C17.flag_time_signature", "SCoda.C17.flag_key_signature",
      "SCoda.C17.flag_channel_relabel", "SCoda.C17.flag_channel_strict"]),
    ("general sensitivity: equals = true implies the same notes (channel, pitch, onset, end, velocity) and the same time/key signatures at the same ticks "
     "for arbitrary well-formed sequences — so any such difference makes equals fail; the pairings are the notes",
     ["SCoda.Notes.equals_sound", "SCoda.Notes.pairings_notes"]),
    ("ALL 16 flag settings, both directions (audit A16): content = notes from the independent notesOf of the sorted list and the sorted signature messages, each flag "
     "erasing exactly its attribute; equals = true implies equal content (as multisets) for arbitrary well-formed sequences; equal content (canonical order) implies "
     "equals = true (with the channel flag: for single-channel sequences); the iff holds when no two different signatures of a kind share a channel and tick; the "
     "unrestricted iff is refuted twice, replayed: two different time signatures on one tick in swapped order compare unequal (the one in force differs), and with "
     "ignore_channel two-channel sequences whose contents agree after erasing the channel compare unequal on a cross-channel onset tie (the property only claims "
     "single-channel relabelling)",
     ["SCoda.NotesB.equals_sound_all", "SCoda.NotesB.equals_complete", "SCoda.NotesB.equals_iff_content_partial", "SCoda.NotesB.equals_false_of_content",
      "SCoda.NotesB.equals_iff_content_statement_false", "SCoda.NotesB.equals_iff_content_channel_statement_false"]),
    ("through either representation and in any insertion order: equals (toAbs (toRel a)) a = true in both argument orders for every legal absolute view (not a "
     "permutation: the INTERNAL cap is dropped and re-created); a relative sequence equals an absolute one with the same events; permutations compare equal whenever "
     "compared messages that tie in the sort key agree on what equals compares (any number of control / program changes on one tick and channel allowed); the unrestricted "
     "insertion-order statement is refuted on two different time signatures on one tick",
     ["SCoda.NotesB.equals_rerepresented", "SCoda.NotesB.equals_of_same_events", "SCoda.NotesB.equals_of_perm_tie", "SCoda.NotesB.insertion_order_statement_false"]),
    ("TIE BY TRANSLATION: Sequence.equals (both absolute views read, the four flags handed on in the order of the signature) as re-translated from the source is the "
     "model's equalsSeq; AbsoluteSequence.equals itself stays tied by correspondence", ["SCoda.WrapTie.equals_eq"]),
    ("each of the velocity / time-signature / key-signature flags: sequences differing only in that attribute compare equal with the flag and unequal without it",
     ["SCoda.NotesB.flag_velocity_only", "SCoda.NotesB.flag_velocity_strict", "SCoda.NotesB.flag_time_signature_only", "SCoda.NotesB.flag_time_signature_strict",
      "SCoda.NotesB.flag_key_signature_only", "SCoda.NotesB.flag_key_signature_strict"]),
    ('TIE BY TRANSLATION, absolute view with object identity: the dict-heavy / aliasing methods of AbsoluteSequence are re-translated statement by statement on every run (Gen/AbsFns2.lean, tools/py2lean_abs2.py: Message objects live in a heap, a reference is a position tag, stores through any alias update the heap cell, dicts are insertion-ordered association lists, while loops carry proved fuel bounds) and proved equal to the hand models, for every heap and reference list with references into the heap and channels not None: equals = the model equalsAbs for all four flags, get_interleaved_message_pairings = the model interleaved — for ALL inputs since the repair of D30 (on inputs with only unopened note-offs both return the empty list: interleaved_onlyOrphanOffs; the translation of the unrepaired source raised IndexError there, which is how D30 was found)',
     ["SCoda.AbsTie2.equalsAbs_eq", "SCoda.AbsTie2.interleaved_eq", "SCoda.AbsTie2.interleaved_onlyOrphanOffs", "SCoda.AbsTie2.channelsWithoutPairings_input", "SCoda.AbsTie2.pairings_eq"]),
    ('the == operator (audit round 3 O1): Sequence.__eq__ is re-translated on every run and proved to be exactly equals with every ignore flag False (same state, verdict and error); AbsoluteSequence.__eq__ (return self.equals(o)) and RelativeSequence.__eq__ are dunder bodies pinned by the conventions fingerprint',
     ["SCoda.WrapTie.eqDunder_eq", "SCoda.WrapTie.equals_eq", "SCoda.WrapTie.defaults_pinned"]),
    ("TIE BY TRANSLATION of the sort that every absolute-view operation goes through: AbsoluteSequence.sort (its list.sort call and the key lambda (time, -1 if channel is None else channel, message_type, note)), MessageType.__lt__ and the declaration order of the enum members are re-translated expression by expression on every run (Gen/SortFns.lean, tools/py2lean_sort.py; Python's == and < on None / int / enum members, tuple comparison, list.index and list.sort are the language model Model/SortLib.lean) and proved equal to the hand model: on every message list whose keys Python can compare (the times are all None or all ints; two messages equal in (time, channel, type) have both notes None or both ints) the translated sort returns exactly sortAbs l, through any projection (heap references, tagged messages); outside that domain it raises TypeError, as the real code does (replayed: a NOTE_ON with a note and a hand-built NOTE_ON without one on the same tick and channel; a message without a time in a timed sequence; two TIME_SIGNATUREs on one tick and channel are inside the domain); keyLe a b holds iff key(b) < key(a) is False; Python's key order is a strict weak order on the domain and ANY stable sort by it (a permutation that is sorted and keeps the relative order of equal keys) is sortAbs l — modelling CPython's timsort by an insertion sort is a theorem, the one assumption left is that list.sort is a stable comparison sort. This discharges the list.sort links of tools/py2lean.py (sort -> sortAbs) and tools/py2lean_abs2.py (sortRefs), which until now were only fingerprinted (tools/conventions.py)",
     ["SCoda.SortTie.sort_eq", "SCoda.SortTie.sortOf_eq_isort", "SCoda.SortTie.sort_raises", "SCoda.SortTie.sortOf_raises", "SCoda.SortTie.sort_ok_iff", "SCoda.SortTie.keyLe_iff", "SCoda.SortTie.keyLt_eq", "SCoda.SortTie.keyLt_ok_iff_comparable", "SCoda.SortTie.messageTypeLt_eq", "SCoda.SortTie.messageTypeLt_nonmember", "SCoda.SortTie.members_eq", "SCoda.SortTie.memberNames_eq", "SCoda.SortTie.generated_order_strictWeakOrder", "SCoda.SortTie.any_stable_sort_eq_sortAbs", "SCoda.SortTie.stable_sort_is_isortBy", "SCoda.SortTie.isortBy_is_stable_sort", "SCoda.SortTie.sortDom_of_wellFormed", "SCoda.SortTie.sortRefs_discharged", "SCoda.SortTie.viewSort_discharged", "SCoda.SortTie.sort_eq_statement_false", "SCoda.SortTie.keyLe_iff_statement_false"]),
    ('equals only ADDS objects to the heap (audit round 4 C6): the translated equals returns the initial heap with the imputed messages appended, every old cell and every old reference list is unchanged',
     ["SCoda.AbsTie2G.equalsAbs_eq_grows", "SCoda.AbsTie2G.equalsAbs_old_cells"]),
]
RULE = ("base well-formed sequences (<=6 notes, signatures) paired with: themselves, shuffled insertion orders, the relative "
        "re-representation, and every single-attribute perturbation (pitch, onset, duration, velocity, channel relabel, "
        "signature value, signature tick) x all 16 flag sets; with no flag set every verdict is also taken through == / != of Sequence, "
        "AbsoluteSequence and RelativeSequence and against objects that are no sequences; two signatures of a kind on one tick (D27's class) "
        "and the channel flag on multi-channel pairs (same events: equal; another attribute differs: unequal) are drawn; "
        "HISTORIES of one pair of live objects (seed round 9): compare, change ONE attribute of one message of B in place (Sequence.messages_abs() or "
        "assignment on the messages of B.abs: pitch, onset, duration, velocity, channel, signature value / tick), compare again under all flag sets in "
        "both directions — and the converse (unequal, edited back to equal) — each verdict judged against the plain data as it is at that step; "
        "non-trivial = the pair differs in exactly one attribute")
ASSUMPTIONS = ["models: SCoda.equalsAbs + SCoda.interleaved, tied by translation (AbsTie2.equalsAbs_eq / interleaved_eq, WrapTie.equals_eq / eqDunder_eq, SortTie) and by correspondence"]
FLAGSETS = [(a, b, c, d) for a in (False, True) for b in (False, True) for c in (False, True) for d in (False, True)]


def build(notes, sigs, order=None):
    """real Sequence from notes (ch,p,on,dur,vel) and sigs (kind, tick, value) via add_absolute_message"""
    from scoda.sequences.sequence import Sequence
    msgs = []
    for (c, p, on, dur, v) in notes:
        msgs.append(pm(ON, c, on, note=p, vel=v))
        msgs.append(pm(OFF, c, on + dur, note=p))
    # signature events sit on the sequence's channel when it has exactly one (so that the 'channel'
    # perturbation is a uniform relabelling of the whole sequence), else on channel 0
    chans = {n[0] for n in notes}
    sch = next(iter(chans)) if len(chans) == 1 else 0
    for (kind, tick, val) in sigs:
        if kind == "ts":
            msgs.append(pm(TIMESIG, sch, tick, num=val[0], den=val[1]))
        else:
            msgs.append(pm(KEYSIG, sch, tick, key=val))
    if order is not None:
        msgs = [msgs[i] for i in order]
    s = Sequence()
    for m in msgs:
        s.add_absolute_message(P.to_real(m))
    return s, msgs


def content(notes, sigs, flags):
    ic, its, iks, iv = flags
    n = sorted((None if ic else c, p, on, dur, None if iv else v) for (c, p, on, dur, v) in notes)
    s = sorted((k, t, tuple(v) if isinstance(v, (list, tuple)) else v) for (k, t, v) in sigs
               if not (k == "ts" and its) and not (k == "ks" and iks))
    return (str(n), str(s))


def expected_verdict(na, sa, nb, sb, flags):
    """True / False / None (the text leaves it open) from the plain data only — see the comment in o_equals"""
    single = len({n[0] for n in na}) <= 1 and len({n[0] for n in nb}) <= 1
    exp = content(na, sa, flags) == content(nb, sb, flags)
    if flags[0] and not single:
        strict = content(na, sa, (False,) + flags[1:]) == content(nb, sb, (False,) + flags[1:])
        if strict:
            exp = True
        elif not exp:
            exp = False
        else:
            exp = None
    # a signature that repeats the value in force (as entered) is no musical difference and normalisation drops it: such pairs are
    # judged only in the direction "same events compare equal"
    if exp is False and (redundant_signature(sa) or redundant_signature(sb)):
        exp = None
    return exp


def o_equals(inp):
    na, sa = [tuple(x) for x in inp["a"]["notes"]], [tuple(x) if not isinstance(x, tuple) else x for x in inp["a"]["sigs"]]
    nb, sb = [tuple(x) for x in inp["b"]["notes"]], [tuple(x) if not isinstance(x, tuple) else x for x in inp["b"]["sigs"]]
    sa = [(k, t, tuple(v) if isinstance(v, list) else v) for (k, t, v) in sa]
    sb = [(k, t, tuple(v) if isinstance(v, list) else v) for (k, t, v) in sb]
    flags = tuple(inp["flags"])
    kind = inp.get("kind", "")
    # replayable process history: the comparisons made just before this one (state must not leak from one call to the next)
    for b in inp.get("before") or []:
        try:
            A0, _ = build([tuple(x) for x in b["a"]["notes"]], [(k, t, tuple(v) if isinstance(v, list) else v) for (k, t, v) in b["a"]["sigs"]])
            B0, _ = build([tuple(x) for x in b["b"]["notes"]], [(k, t, tuple(v) if isinstance(v, list) else v) for (k, t, v) in b["b"]["sigs"]])
            fb = tuple(b["flags"])
            A0.equals(B0, ignore_channel=fb[0], ignore_time_signature=fb[1], ignore_key_signature=fb[2], ignore_velocity=fb[3])
        except Exception:
            pass
    if inp.get("order_b") is not None and sorted(inp["order_b"]) != list(range(2 * len(nb) + len(sb))):
        return [("~skip:order-is-not-a-permutation", "")]
    fails = []
    A, _ = build(na, sa)
    B, _ = build(nb, sb, inp.get("order_b"))
    if inp.get("via_rel"):
        from scoda.sequences.sequence import Sequence
        B = Sequence(relative_sequence=B.rel.copy())
    kw = dict(ignore_channel=flags[0], ignore_time_signature=flags[1], ignore_key_signature=flags[2], ignore_velocity=flags[3])
    try:
        ab = A.equals(B, **kw)
        ba = B.equals(A, **kw)
        aa = A.equals(A, **kw)
        ac = A.equals(A.copy(), **kw)
    except Exception as e:
        return [("raises", f"{type(e).__name__}: {e}")]
    if not aa:
        fails.append(("reflexive", "a sequence does not equal itself"))
    if not ac:
        fails.append(("copy", "a sequence does not equal its copy"))
    if ab != ba:
        fails.append(("symmetric", f"a==b is {ab}, b==a is {ba}"))
    # expected verdict from the musical content, computed from the generator's plain data only.
    #  * channel flag on single-channel sequences: a uniform relabelling compares equal (content with the channel erased);
    #  * channel flag on MULTI-channel pairs (audit 3 table, C17): the text specifies two things there — the same events compare equal
    #    whatever the flags ("holds between sequences built from the same events"), and a difference in any OTHER attribute still makes
    #    the comparison fail ("each ignore flag relaxes only its own attribute"): pairs whose contents differ even with the channel
    #    erased must compare unequal.  Only the pairs in between (equal once the channels are erased, but not the same events) are
    #    left open by the text, and only those are not judged.
    exp = expected_verdict(na, sa, nb, sb, flags)
    if exp is None:
        fails.append(("~unjudged:text-leaves-it-open", ""))
    elif ab != exp:
        fails.append(("verdict", f"[{kind}] equals: got={ab} expected={exp} (contents {'equal' if exp else 'differ'}) under flags {flags}"))
    if flags == (False, False, False, False):
        # `==` / `!=` are the same relation (audit 3, O1): Sequence.__eq__, AbsoluteSequence.__eq__, RelativeSequence.__eq__, through every
        # route, in both directions, against the same content-based expectation; and against objects that are no sequences
        try:
            routes = [("A == B", A == B), ("B == A", B == A), ("not (A != B)", not (A != B)), ("A.abs == B.abs", A.abs == B.abs),
                      ("B.abs == A.abs", B.abs == A.abs), ("not (A.abs != B.abs)", not (A.abs != B.abs)),
                      ("A.rel == B.rel", A.rel == B.rel), ("B.rel == A.rel", B.rel == A.rel), ("not (A.rel != B.rel)", not (A.rel != B.rel))]
            own = [("A == A", A == A), ("A == A.copy()", A == A.copy()), ("A.abs == A.abs", A.abs == A.abs), ("A.rel == A.rel", A.rel == A.rel),
                   ("A.abs == A.copy().abs", A.abs == A.copy().abs), ("A.rel == A.copy().rel", A.rel == A.copy().rel)]
            foreign = []
            for name, x in (("A", A), ("A.abs", A.abs), ("A.rel", A.rel)):
                for oname, o in (("None", None), ("0", 0), ("'x'", "x"), ("[]", []), ("object()", object())):
                    foreign.append((f"{name} == {oname}", x == o))
                    foreign.append((f"not ({name} != {oname})", not (x != o)))
            # a wrapper against one of its views, a view against the other view: the text does not say what the answer is — it has to be
            # an answer (a bool, no exception)
            mixed = [("A == A.abs", A == A.abs), ("A == A.rel", A == A.rel), ("A.abs == A.rel", A.abs == A.rel), ("A.rel == A.abs", A.rel == A.abs),
                     ("A.abs == A", A.abs == A), ("A.rel == A", A.rel == A)]
        except Exception as e:
            return fails + [("raises", f"== raised {type(e).__name__}: {e}")]
        for name, got in routes:
            if not isinstance(got, bool):
                fails.append(("eq-verdict", f"[{kind}] {name} returned {got!r}"))
            elif exp is not None and got != exp:
                fails.append(("eq-verdict", f"[{kind}] {name}: got={got} expected={exp} (contents {'equal' if exp else 'differ'})"))
        for name, got in own:
            if got is not True:
                fails.append(("eq-reflexive", f"{name} is {got!r}"))
        for name, got in mixed:
            if not isinstance(got, bool):
                fails.append(("eq-foreign", f"{name} returned {got!r}"))
        for name, got in foreign:
            if got is not False:
                fails.append(("eq-foreign", f"{name} is {got!r} (not a sequence of that kind)"))
    return fails


def o_equals_history(inp):
    """HISTORY of one pair of live objects (seed round 9): A is built from plain data, B is A's copy (or built from its own data); then steps:
    {"compare": [flag sets]} compares A and B in both directions under each flag set (with no flag also through ==), {"edit": {...}, "via": ...}
    changes ONE attribute of one message of B in place — through Sequence.messages_abs() or by assignment on the messages of B.abs — and,
    identically, the plain data.  Every verdict is judged against the plain data AS IT IS at that step (expected_verdict: never against what
    equals said before, nor against a rebuilt object's answer): a comparison made earlier must not be remembered past an edit."""
    na, sa = U.norm_side(inp["a"])
    if inp.get("b") is not None:
        nb, sb = U.norm_side(inp["b"])
    else:
        nb, sb = list(na), list(sa)
    if not (U.plain_ok(na, sa) and U.plain_ok(nb, sb)):
        return [("~skip:history-data-not-well-formed", "")]
    A, _ = build(na, sa)
    if inp.get("b") is None and inp.get("how", "copy") == "copy":
        B = A.copy()
    else:
        B, _ = build(nb, sb)
    fails = []
    n_edits = 0
    for si, step in enumerate(inp.get("steps") or []):
        if not isinstance(step, dict):
            continue
        if "edit" in step:
            e = step["edit"]
            new = U.apply_edit_plain(nb, sb, e) if isinstance(e, dict) else None
            if new is None:
                return fails + [("~skip:edit-does-not-apply", "")]
            if not U.live_edit(B, step.get("via", "messages_abs"), nb, sb, e):
                # the messages are looked up by the plain data: not finding them means the sequence does not hold what it was given (the code
                # under test changed a value on the way in) — a failure to report, not a crash of the harness
                return fails + [("content", f"the messages of edit {e} were not found in B: B does not hold the values it was built from")]
            nb, sb = new
            n_edits += 1
            # the objects hold what the plain data says (read off the message objects, no library logic involved)
            import collections
            want = collections.Counter(build(nb, sb)[1])
            have = collections.Counter(from_real(m) for m in B.abs._messages)
            if want != have:
                return fails + [("content", f"after edit {e} B holds {sorted(have.items(), key=repr)}, the plain data is {sorted(want.items(), key=repr)}: "
                                            "the sequence does not hold the values it was given")]
            continue
        for flags in step.get("compare") or []:
            flags = tuple(bool(x) for x in flags)
            if len(flags) != 4:
                continue
            kw = dict(ignore_channel=flags[0], ignore_time_signature=flags[1], ignore_key_signature=flags[2], ignore_velocity=flags[3])
            exp = expected_verdict(na, sa, nb, sb, flags)
            try:
                got = [("A.equals(B)", A.equals(B, **kw)), ("B.equals(A)", B.equals(A, **kw)), ("A.abs.equals(B.abs)", A.abs.equals(B.abs, **kw))]
                if flags == (False, False, False, False):
                    got += [("A == B", A == B), ("B == A", B == A), ("not (A != B)", not (A != B)), ("B.abs == A.abs", B.abs == A.abs)]
            except Exception as ex:
                return fails + [("raises", f"step {si}: {type(ex).__name__}: {ex}")]
            if exp is None:
                fails.append(("~unjudged:text-leaves-it-open", ""))
                continue
            for name, g in got:
                if g is not exp:
                    fails.append(("history-verdict", f"step {si}, after {n_edits} in-place edit(s) of B: {name} is {g!r} under flags {flags}, expected {exp} "
                                                     f"(the contents {'are equal' if exp else 'differ'}: A notes={na} sigs={sa}; B notes={nb} sigs={sb})"))
                    break
    return fails


def redundant_signature(sigs):
    """some signature (in tick order, same-tick ones as entered) repeats the value then in force"""
    for k in ("ts", "ks"):
        cur = None
        for (_, t, v) in sorted((x for x in sigs if x[0] == k), key=lambda x: x[1]):
            if v == cur:
                return True
            cur = v
    return False


def o_equals_raw(inp):
    """reflexive / equal to its copy / symmetric for ANY pair of sequences, given as raw relative message lists — ill-formed ones included
    (a note-off that nothing opened, unclosed notes, re-triggers): equality must answer, and answer consistently, whatever it is asked"""
    a = [tuple(m) for m in inp["a"]]
    b = [tuple(m) for m in inp["b"]]
    flags = tuple(inp["flags"])
    kw = dict(ignore_channel=flags[0], ignore_time_signature=flags[1], ignore_key_signature=flags[2], ignore_velocity=flags[3])
    A, B = P.seq_of_rel(a), P.seq_of_rel(b)
    try:
        aa, ac, ab, ba = A.equals(A, **kw), A.equals(A.copy(), **kw), A.equals(B, **kw), B.equals(A, **kw)
    except Exception as e:
        return [("raises", f"{type(e).__name__}: {e}")]
    fails = []
    if not aa:
        fails.append(("reflexive", "a sequence does not equal itself"))
    if not ac:
        fails.append(("copy", "a sequence does not equal its copy"))
    if ab != ba:
        fails.append(("symmetric", f"a==b is {ab}, b==a is {ba}"))
    # `==` is the same relation as equals with no flag set (audit 3, O1): reflexive, symmetric, and one answer through all routes
    try:
        d_ab, d_ba = A.equals(B), B.equals(A)
        eq = [("A == B", A == B), ("A.abs == B.abs", A.abs == B.abs), ("A.rel == B.rel", A.rel == B.rel), ("not (A != B)", not (A != B))]
        qe = [("B == A", B == A), ("B.abs == A.abs", B.abs == A.abs), ("B.rel == A.rel", B.rel == A.rel)]
        own = [("A == A", A == A), ("A == A.copy()", A == A.copy()), ("A.abs == A.abs", A.abs == A.abs), ("A.rel == A.rel", A.rel == A.rel)]
    except Exception as e:
        return fails + [("raises", f"== raised {type(e).__name__}: {e}")]
    for name, got in own:
        if got is not True:
            fails.append(("eq-reflexive", f"{name} is {got!r}"))
    for (name, got), (name2, got2) in zip(eq, qe):
        if got != got2:
            fails.append(("eq-symmetric", f"{name} is {got}, {name2} is {got2}"))
    for name, got in eq:
        if got != d_ab:
            fails.append(("eq-agrees", f"{name} is {got} but A.equals(B) is {d_ab}"))
    return fails


# D30 (fixed): a sequence whose only note event is a note-off that nothing opened made equals raise IndexError, even against itself
D30_EXAMPLE = {"a": [G.pm(WAIT, 0, 5), G.pm(OFF, 3, None, note=60)], "b": [], "flags": [False, False, False, False]}


def entered_signatures(side, order=None):
    """(kind, tick) -> the values of that kind on that tick in the order in which `build` enters them (the insort keeps the
    insertion order of one tick, the stable sort keeps it for one kind and channel)"""
    notes, sigs = side["notes"], side["sigs"]
    slots = [None] * (2 * len(notes)) + [(k, t, tuple(v) if isinstance(v, list) else v) for (k, t, v) in sigs]
    if order is not None:
        slots = [slots[i] for i in order]
    out = {}
    for x in slots:
        if x is not None:
            out.setdefault((x[0], x[1]), []).append(x[2])
    return out


def swapped_tie(inp):
    """D27's class, read off the INPUT as entered: both sequences hold, on some tick, the same signatures of a kind that is compared
    (not switched off by its ignore flag), at least two different ones, and in a different order"""
    ea = entered_signatures(inp["a"])
    eb = entered_signatures(inp["b"], inp.get("order_b"))
    flags = inp["flags"]
    for key in ea:
        if (key[0] == "ts" and flags[1]) or (key[0] == "ks" and flags[2]):
            continue
        va, vb = ea[key], eb.get(key, [])
        if len(set(va)) >= 2 and sorted(va) == sorted(vb) and va != vb:
            return True
    return False


D27_EXAMPLE = {"a": {"notes": [], "sigs": [("ts", 0, (4, 4)), ("ts", 0, (3, 4))]}, "b": {"notes": [], "sigs": [("ts", 0, (4, 4)), ("ts", 0, (3, 4))]},
               "order_b": [1, 0], "flags": [False, False, False, False], "kind": "same events, other insertion order"}


def setup(ctx):
    ctx.oracle("equals", o_equals)
    ctx.oracle("equals_raw", o_equals_raw)
    ctx.oracle("equals_history", o_equals_history)

    def kf_d27(f):
        # OUTCOME: the comparison answered "unequal" where the same events were expected to compare equal (never the other way round),
        # through equals or ==; CLASS: the two sequences hold the same different signatures of a compared kind on one tick in another order
        return f["oracle"] == "equals" and f["clause"] in ("verdict", "eq-verdict") and "got=False expected=True" in f["detail"] \
            and swapped_tie(f["input"])
    ctx.kf_predicates["D27"] = kf_d27
    ctx.history_oracles = {"equals"}


def perturbations(rng, notes, sigs):
    out = [("identical", notes, sigs)]
    if notes:
        i = rng.randrange(len(notes))
        c, p, on, dur, v = notes[i]

        def rep(n):
            return notes[:i] + [n] + notes[i + 1:]
        out.append(("pitch", rep((c, p + 1, on, dur, v)), sigs))
        out.append(("onset", [(cc, pp, o + 6, d, vv) for (cc, pp, o, d, vv) in notes], sigs))
        out.append(("onset1", rep((c, p, on + 300, dur, v)), sigs))
        out.append(("duration", rep((c, p, on, dur + 1, v)), sigs))
        out.append(("velocity", rep((c, p, on, dur, (v % 127) + 1)), sigs))
        out.append(("channel", [(cc + 3, pp, o, d, vv) for (cc, pp, o, d, vv) in notes], sigs))
    for j, (k, t, val) in enumerate(sigs):
        if k == "ts":
            out.append(("ts-value", notes, sigs[:j] + [(k, t, (val[0] + 1, val[1]))] + sigs[j + 1:]))
            out.append(("ts-den", notes, sigs[:j] + [(k, t, (val[0], val[1] * 2))] + sigs[j + 1:]))
            # same bar length, different signature (4/4 vs 2/2 vs 8/8, 3/4 vs 6/8): still a different value
            out.append(("ts-scaled", notes, sigs[:j] + [(k, t, (val[0] * 2, val[1] * 2))] + sigs[j + 1:]))
            if val[0] % 2 == 0 and val[1] % 2 == 0:
                out.append(("ts-halved", notes, sigs[:j] + [(k, t, (val[0] // 2, val[1] // 2))] + sigs[j + 1:]))
            other = rng.choice([x for x in [(4, 4), (3, 4), (6, 8), (2, 2), (12, 8), (6, 4), (2, 4), (4, 8), (5, 8), (1, 1)] if x != val])
            out.append(("ts-other", notes, sigs[:j] + [(k, t, other)] + sigs[j + 1:]))
            out.append(("ts-tick", notes, sigs[:j] + [(k, t + 500, val)] + sigs[j + 1:]))
            out.append(("ts-tick-near", notes, sigs[:j] + [(k, t + rng.choice([1, 24, 48]), val)] + sigs[j + 1:]))     # moved INSIDE the notes
        else:
            out.append(("ks-value", notes, sigs[:j] + [(k, t, (val + 1) % 15)] + sigs[j + 1:]))
            out.append(("ks-other", notes, sigs[:j] + [(k, t, rng.choice([x for x in range(15) if x != val]))] + sigs[j + 1:]))
            out.append(("ks-tick", notes, sigs[:j] + [(k, t + 500, val)] + sigs[j + 1:]))
            out.append(("ks-tick-near", notes, sigs[:j] + [(k, t + rng.choice([1, 24, 48]), val)] + sigs[j + 1:]))
    return out


def wf_filter(notes):
    ok = []
    for n in notes:
        if not any(x[0] == n[0] and x[1] == n[1] and not (n[2] + n[3] <= x[2] or x[2] + x[3] <= n[2]) for x in ok):
            ok.append(n)
    return ok


def gen_tied_channels(rng):
    """notes on two or three channels with several onsets shared ACROSS channels, the earliest note not on channel 0 (where the signatures
    of a multi-channel sequence sit): the order in which channels first appear then depends on where a signature stands (seeded C17_agent8)"""
    chans = rng.choice([(1, 0), (2, 0, 1), (1, 0, 3)])
    notes = [(chans[0], rng.choice([60, 62]), 0, rng.choice([12, 24]), 80)]
    t = 0
    for _ in range(rng.randint(1, 3)):
        t += rng.choice([24, 48])
        for c in rng.sample(chans, rng.randint(2, len(chans))):
            notes.append((c, rng.choice([64, 65, 67, 69]) + c, t, rng.choice([12, 24]), rng.choice([64, 80, 100])))
    sigs = []
    if rng.random() < 0.8:
        sigs.append(("ts", 0, rng.choice([(4, 4), (3, 4), (6, 8)])))
    if rng.random() < 0.6:
        sigs.append(("ks", 0, rng.randrange(15)))
    return wf_filter(notes), sigs


def gen_histories(ctx, rng, notes, sigs):
    """in-place edit histories of one base (seed round 9); every kind of edit the base admits in the thorough tier, some of them in the quick one"""
    notes = [n for n in notes if n[3] >= 1]
    if not U.plain_ok(notes, sigs):
        ctx.count("history:base-not-used(two signatures of a kind on one tick / empty note)")
        return
    kinds = list(U.EDIT_KINDS)
    if not ctx.thorough:
        rng.shuffle(kinds)
        kinds = kinds[:4]
    for what in kinds:
        e = U.gen_edit(rng, notes, sigs, what)
        if e is None:
            continue
        via = rng.choice(["messages_abs", "messages_abs", "direct"])
        first = rng.choice([[FLAGSETS[0]], [rng.choice(FLAGSETS)], rng.sample(FLAGSETS, 4), FLAGSETS])
        second = FLAGSETS if (ctx.thorough or rng.random() < 0.5) else list({FLAGSETS[0], rng.choice(FLAGSETS)} | set(first))
        first, second = [list(f) for f in first], [list(f) for f in second]
        a = {"notes": notes, "sigs": sigs}
        pattern = rng.choice(["copy,compare,edit,compare", "rebuild,compare,edit,compare", "unequal,compare,edit-back,compare", "copy,compare,edit,compare,edit-back,compare"])
        if pattern.startswith("unequal"):
            nb, sb = U.apply_edit_plain(notes, sigs, e)
            inp = {"a": a, "b": {"notes": nb, "sigs": sb}, "steps": [{"compare": first}, {"edit": U.inverse_edit(notes, sigs, e), "via": via}, {"compare": second}]}
        else:
            steps = [{"compare": first}, {"edit": e, "via": via}, {"compare": second}]
            if pattern.endswith("edit-back,compare"):
                steps += [{"edit": U.inverse_edit(notes, sigs, e), "via": rng.choice(["messages_abs", "direct"])}, {"compare": second}]
            inp = {"a": a, "how": "copy" if pattern.startswith("copy") else "rebuild", "steps": steps}
        inp["kind"] = f"history {what}: {pattern}"
        ctx.count("history:" + what)
        ctx.count("history-pattern:" + pattern)
        ctx.count("history-via:" + via)
        ctx.case(("history", notes, sigs, e, via, first, second, pattern), True)
        ctx.check("equals_history", inp)


def generate(ctx):
    rng = ctx.rng

    def corr(name, res):
        # per-case data (audit: the thorough tier held > 2 GB): the request is kept once, as the line the driver is sent, not a second time as a word list
        ctx.corr(name, res)
        ctx.corr_cases[-1] = (name, [ctx.driver.requests[-1]]) + tuple(ctx.corr_cases[-1][2:])

    seen = [0, False]
    ctx.check("equals", D27_EXAMPLE)            # the recorded instance of the known finding
    ctx.check("equals_raw", D30_EXAMPLE)        # the recorded instance of a repaired defect: reported again if it ever returns
    for i in range(ctx.n(150, 3000)):
        a = G.gen_ill_rel(rng, n=rng.randint(1, 8), channels=rng.choice([(0,), (0, 1), (3,)]), pitches=(60, 62))
        b = rng.choice([[], a[:-1], G.gen_ill_rel(rng, n=rng.randint(1, 6), channels=(0, 1), pitches=(60, 62))])
        if rng.random() < 0.3:
            # only note-offs that nothing opened (and waits): a pairing table with channels but no pairing
            a = [m for m in a if m[0] in (OFF, WAIT)]
            ctx.count("raw:orphan-offs-only")
        ctx.count("raw")
        ctx.check("equals_raw", {"a": a, "b": b, "flags": list(rng.choice(FLAGSETS))})
    # the pair oracle below is the expensive kind (every perturbation x 16 flag sets x two builds x the driver): 400 bases in the thorough tier
    # (was 1500: 836 s and > 2.3 GB, audit round 4); every kind of base / perturbation / flag set is still drawn, see `distribution`
    for i in range(ctx.n(60, 400)):
        notes = wf_filter(G.gen_notes(rng, n_notes=rng.randint(0, 6), channels=rng.choice([(0,), (0,), (0, 1)]),
                                      pitches=[60, 62, 64], max_tick=100, max_dur=30, short_bias=0.1))
        sigs = []
        if rng.random() < 0.6:
            sigs.append(("ts", rng.choice([0, 96]), G.any_sig(rng)))
        if rng.random() < 0.5:
            sigs.append(("ks", rng.choice([0, 48]), rng.randrange(15)))
        if i % 5 == 4:
            notes, sigs = gen_tied_channels(rng)
            ctx.count("cross-channel-onset-ties")
        if sigs and rng.random() < 0.3:
            # a second, DIFFERENT signature of a kind on the tick of the first (D27's class: the insertion order of the two decides) —
            # or on a later tick
            k0, t0, v0 = rng.choice(sigs)
            t1 = t0 if rng.random() < 0.7 else t0 + rng.choice([24, 96])
            if k0 == "ts":
                v1 = rng.choice([x for x in [(4, 4), (3, 4), (6, 8), (2, 2), (8, 8)] if x != v0])
            else:
                v1 = rng.choice([x for x in range(15) if x != v0])
            sigs.insert(sigs.index((k0, t0, v0)) + 1, (k0, t1, v1))
            ctx.count("two-signatures-of-a-kind:" + ("one-tick" if t1 == t0 else "two-ticks"))
        if len({n[0] for n in notes}) > 1:
            ctx.count("multi-channel-base")
        perts = perturbations(rng, notes, sigs)
        for kind, nb, sb in perts:
            if kind not in ("identical",) and not wf_filter(nb) == nb:
                continue
            flagsets = FLAGSETS if ctx.thorough else [FLAGSETS[0], rng.choice(FLAGSETS), rng.choice(FLAGSETS)]
            cached = None
            for flags in flagsets:
                order = None
                via_rel = False
                if kind == "identical":
                    m = 2 * len(nb) + len(sb)
                    order = list(range(m))
                    rng.shuffle(order)
                    via_rel = rng.random() < 0.5
                inp = {"a": {"notes": notes, "sigs": sigs}, "b": {"notes": nb, "sigs": sb}, "flags": list(flags),
                       "kind": kind, "order_b": order, "via_rel": via_rel}
                ctx.case((notes, sigs, nb, sb, flags), kind != "identical")
                ctx.count("kind:" + kind)
                if flags[0] and (len({n[0] for n in notes}) > 1 or len({n[0] for n in nb}) > 1):
                    ctx.count("ignore_channel-on-multi-channel-pair")
                if swapped_tie(inp):
                    ctx.count("same-tick-signatures-entered-in-another-order(D27 class)")
                ctx.check("equals", inp)
                if order is not None or cached is None:
                    A, _ = build(notes, sigs)
                    B, _ = build(nb, sb, order)
                    cached = ([from_real(x) for x in A.abs._messages], [from_real(x) for x in B.abs._messages])
                corr("equals", P.op_equals(flags, cached[0], cached[1]))
        # the history the pair oracle re-enacts is the input just before it; nothing older is ever read back unless a failure needs the whole run
        hist = ctx.__dict__.get("_history", {}).get("equals")
        while seen[0] < len(ctx.failures):
            f = ctx.failures[seen[0]]
            seen[0] += 1
            if f["oracle"] == "equals" and not ctx.kf_predicates["D27"](f):
                seen[1] = True          # a failure that is no known finding: its report may need the whole history, keep it
        if hist is not None and len(hist) > 400 and not seen[1]:
            del hist[:-50]
        gen_histories(ctx, rng, notes, sigs)
        ctx.sample({"notes": notes, "sigs": sigs})
