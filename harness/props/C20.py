"""C20 — key and circle-of-fifths tables are algebraically consistent."""
import pyimpl as P
from protocol import KEYS
import h9_util as U

ID = "C20"
LEAN_MODULE = "SCoda.Props.C20"
CLAUSES = [
    ("transposing a key by any integer returns a key, never nothing", "SCoda.C20.transpose_total"),
    ("tonic and scale of the result are the original's shifted by the interval mod 12", "SCoda.C20.transpose_tonic"),
    ("transpositions compose additively (tonics)", "SCoda.C20.transpose_compose"),
    ("a multiple of 12 is the identity", "SCoda.C20.transpose_12"),
    ("every key's note set is a major scale on its tonic", "SCoda.C20.scales_major"),
    ("circle of fifths: distance in [-5,6], agrees with position difference mod 12, from_distance lands on b", "SCoda.C20.cof"),
]
LEVEL = "proof"
EXHAUSTIVE = True
RULE = ("exhaustive: 15 keys x intervals -36..36 (transpose_key) and 128 x 128 pitch pairs (get_distance, from_distance); "
        "every case is non-trivial (distinct arguments); the same sweep is judged directly by the oracle; then HISTORIES: short random sequences of public "
        "calls that read the tables (key guesses with and without a leading key signature, get_distance / from_distance / get_position with references "
        "that are no C, Sequence.transpose, Bar.transpose, get_info, transpose_key), after each of which the complete sweep is judged again with the "
        "harness's own tables — the statement holds whatever was called before")
ASSUMPTIONS = ["theorems are stated over Gen/Tables.lean and Gen/TheoryFns.lean, regenerated from music_theory.py on every run",
               "the AST translator (tools/gen_lean.py) is trusted to translate the subset it accepts; the exhaustive correspondence sweep cross-checks it"]
MAJOR = [0, 2, 4, 5, 7, 9, 11]


def setup(ctx):
    from scoda.misc.music_theory import Key, MusicMapping, CircleOfFifths

    def tonic(k):
        return MusicMapping.KeyNoteMapping[k][0][0].value

    def scale(k):
        return [n.value for n in MusicMapping.KeyNoteMapping[k][0]]

    def o_key(inp):
        ki, n = inp["key"], inp["interval"]
        k = KEYS[ki]
        fails = []
        try:
            r = Key.transpose_key(k, n)
        except Exception as e:
            return [("total", f"transpose_key({k}, {n}) raised {type(e).__name__}: {e}")]
        if not isinstance(r, Key):
            return [("total", f"transpose_key({k}, {n}) returned {r!r}")]
        if tonic(r) != (tonic(k) + n) % 12:
            fails.append(("tonic", f"tonic of transpose_key({k},{n})={r} is {tonic(r)}, expected {(tonic(k)+n)%12}"))
        if scale(r) != [(x + n) % 12 for x in scale(k)]:
            fails.append(("scale", f"scale of {r} is not the scale of {k} shifted by {n}"))
        if n % 12 == 0 and tonic(r) != tonic(k):
            fails.append(("multiple-of-12", f"transpose_key({k},{n})={r}"))
        if [((x - tonic(k)) % 12) for x in scale(k)] != MAJOR:
            fails.append(("major", f"scale of {k} is not major on its tonic"))
        m = inp.get("second")
        if m is not None:
            try:
                a = Key.transpose_key(Key.transpose_key(k, n), m)
                b = Key.transpose_key(k, n + m)
                if a is None or b is None or tonic(a) != tonic(b):
                    fails.append(("compose", f"({k}+{n})+{m} = {a}, {k}+({n+m}) = {b}"))
            except Exception as e:
                fails.append(("compose", f"raised {type(e).__name__}"))
        return fails

    def o_cof(inp):
        a, b = inp["a"], inp["b"]
        try:
            d = CircleOfFifths.get_distance(a, b)
            pa, pb = CircleOfFifths.get_position(a), CircleOfFifths.get_position(b)
            f = CircleOfFifths.from_distance(a, d)
        except Exception as e:
            return [("cof-total", f"raised {type(e).__name__}: {e} for ({a},{b})")]
        fails = []
        if not (isinstance(d, int) and -5 <= d <= 6):
            fails.append(("cof-range", f"get_distance({a},{b})={d}"))
        elif (d - (pb - pa)) % 12 != 0:
            fails.append(("cof-mod", f"distance {d} vs positions {pa},{pb}"))
        if f != b % 12:
            fails.append(("cof-from", f"from_distance({a},{d})={f}, expected {b%12}"))
        return fails

    def o_tables_after(inp):
        """the statement of the property over its complete domains AFTER a history of public calls (seed round 9: a library function that sorts or
        rotates one of the module-level tables in place leaves every later caller with wrong answers).  Every expectation comes from the harness's own
        tables (h9_util: TONIC, MAJOR, COF_POS), also for the calls of the history itself.  Nothing is restored: when the tables are already
        disturbed before the history starts (an earlier input did it, in this process: a new interpreter finds them intact), the input is judged in a fresh interpreter, so the verdict
        belongs to the input and the replay file reproduces on its own."""
        hist = inp.get("history")
        if not isinstance(hist, list):
            return [("~skip:no-history", "")]
        if not U.IN_CHILD and U.table_failures(light=True) and U.fresh_ok("tables"):
            return U.eval_fresh(ID, "tables_after", inp)
        fails = []
        for i, op in enumerate(hist):
            for c, d in U.run_theory_op(op):
                fails.append((c, f"call {i}: {d}"))
        for c, d in U.table_failures():
            fails.append(("after-history:" + c, d + f" — after {len(hist)} earlier public call(s)"))
        return fails

    ctx.oracle("key", o_key)
    ctx.oracle("cof", o_cof)
    ctx.oracle("tables_after", o_tables_after)


def generate(ctx):
    for ki in range(len(KEYS)):
        for n in range(-36, 37):
            inp = {"key": ki, "interval": n, "second": ((n * 7 + ki) % 25) - 12}
            ctx.case(("key", ki, n), True)
            ctx.check("key", inp)
            ctx.corr("transposeKey", P.op_transposeKey(ki, n))
    ctx.sample({"key": "C", "interval": 12})
    for p in range(128):
        ctx.corr("getPosition", P.op_getPosition(p))
    for a in range(128):
        for b in range(128):
            ctx.case(("cof", a, b), True)
            ctx.check("cof", {"a": a, "b": b})
            ctx.corr("getDistance", P.op_getDistance(a, b))
    for a in range(128):
        for d in range(-12, 13):
            ctx.corr("fromDistance", P.op_fromDistance(a, d))
    ctx.sample({"a": 60, "b": 67})
    # histories LAST: the sweep above (and the answers recorded for the correspondence) are taken in an untouched process
    rng = ctx.rng
    for i in range(ctx.n(40, 200)):
        hist = U.gen_theory_history(rng, 1, 6 if i % 4 else 12)
        for k in U.describe_history(hist):
            ctx.count("history-op:" + k)
        if any(op["op"] == "guess" and op["lead"] is None for op in hist):
            ctx.count("history:key-guess-without-leading-signature")
        if any(op["op"] == "distance" and op["a"] % 12 != 0 for op in hist):
            ctx.count("history:distance-from-a-reference-that-is-no-C")
        ctx.case(("history", hist), True)
        if ctx.check("tables_after", {"history": hist}):
            ctx.count("history:stopped-after-the-first-failing-one")
            break           # the process state is disturbed from here on: one failing history is reported (shrunk in fresh interpreters)
    ctx.sample({"history": [{"op": "guess", "pitches": [62, 66, 69, 73], "lead": None}]})
