"""C20 — key and circle-of-fifths tables are algebraically consistent."""
import pyimpl as P
from protocol import KEYS

ID = "C20"
LEAN_MODULE = "SCoda.Props.C20"
CLAUSES = [
    ("transposing a key by any integer returns a key, never nothing", "SCoda.C20.transpose_total"),
    ("tonic and scale of the result are the original's shifted by the interval mod 12", "SCoda.C20.transpose_tonic"),
    ("transpositions compose additively (tonics)", "SCoda.C20.transpose_compose"),
    ("a multiple of 12 is the identity", "SCoda.C20.transpose_12"),
    ("every key's note set is a major scale on its tonic", "SCoda.C20.scales_major"),
    ("circle of fifths: distance in [-5,6], agrees with position difference mod 12, from_distance lands on b", "SCoda.C20.cof"),
]
LEVEL = "proof"
EXHAUSTIVE = True
RULE = ("exhaustive: 15 keys x intervals -36..36 (transpose_key) and 128 x 128 pitch pairs (get_distance, from_distance); "
        "every case is non-trivial (distinct arguments); the same sweep is judged directly by the oracle")
ASSUMPTIONS = ["theorems are stated over Gen/Tables.lean and Gen/TheoryFns.lean, regenerated from music_theory.py on every run",
               "the AST translator (tools/gen_lean.py) is trusted to translate the subset it accepts; the exhaustive correspondence sweep cross-checks it"]
MAJOR = [0, 2, 4, 5, 7, 9, 11]


def setup(ctx):
    from scoda.misc.music_theory import Key, MusicMapping, CircleOfFifths

    def tonic(k):
        return MusicMapping.KeyNoteMapping[k][0][0].value

    def scale(k):
        return [n.value for n in MusicMapping.KeyNoteMapping[k][0]]

    def o_key(inp):
        ki, n = inp["key"], inp["interval"]
        k = KEYS[ki]
        fails = []
        try:
            r = Key.transpose_key(k, n)
        except Exception as e:
            return [("total", f"transpose_key({k}, {n}) raised {type(e).__name__}: {e}")]
        if not isinstance(r, Key):
            return [("total", f"transpose_key({k}, {n}) returned {r!r}")]
        if tonic(r) != (tonic(k) + n) % 12:
            fails.append(("tonic", f"tonic of transpose_key({k},{n})={r} is {tonic(r)}, expected {(tonic(k)+n)%12}"))
        if scale(r) != [(x + n) % 12 for x in scale(k)]:
            fails.append(("scale", f"scale of {r} is not the scale of {k} shifted by {n}"))
        if n % 12 == 0 and tonic(r) != tonic(k):
            fails.append(("multiple-of-12", f"transpose_key({k},{n})={r}"))
        if [((x - tonic(k)) % 12) for x in scale(k)] != MAJOR:
            fails.append(("major", f"scale of {k} is not major on its tonic"))
        m = inp.get("second")
        if m is not None:
            try:
                a = Key.transpose_key(Key.transpose_key(k, n), m)
                b = Key.transpose_key(k, n + m)
                if a is None or b is None or tonic(a) != tonic(b):
                    fails.append(("compose", f"({k}+{n})+{m} = {a}, {k}+({n+m}) = {b}"))
            except Exception as e:
                fails.append(("compose", f"raised {type(e).__name__}"))
        return fails

    def o_cof(inp):
        a, b = inp["a"], inp["b"]
        try:
            d = CircleOfFifths.get_distance(a, b)
            pa, pb = CircleOfFifths.get_position(a), CircleOfFifths.get_position(b)
            f = CircleOfFifths.from_distance(a, d)
        except Exception as e:
            return [("cof-total", f"raised {type(e).__name__}: {e} for ({a},{b})")]
        fails = []
        if not (isinstance(d, int) and -5 <= d <= 6):
            fails.append(("cof-range", f"get_distance({a},{b})={d}"))
        elif (d - (pb - pa)) % 12 != 0:
            fails.append(("cof-mod", f"distance {d} vs positions {pa},{pb}"))
        if f != b % 12:
            fails.append(("cof-from", f"from_distance({a},{d})={f}, expected {b%12}"))
        return fails

    ctx.oracle("key", o_key)
    ctx.oracle("cof", o_cof)


def generate(ctx):
    for ki in range(len(KEYS)):
        for n in range(-36, 37):
            inp = {"key": ki, "interval": n, "second": ((n * 7 + ki) % 25) - 12}
            ctx.case(("key", ki, n), True)
            ctx.check("key", inp)
            ctx.corr("transposeKey", P.op_transposeKey(ki, n))
    ctx.sample({"key": "C", "interval": 12})
    for p in range(128):
        ctx.corr("getPosition", P.op_getPosition(p))
    for a in range(128):
        for b in range(128):
            ctx.case(("cof", a, b), True)
            ctx.check("cof", {"a": a, "b": b})
            ctx.corr("getDistance", P.op_getDistance(a, b))
    for a in range(128):
        for d in range(-12, 13):
            ctx.corr("fromDistance", P.op_fromDistance(a, d))
    ctx.sample({"a": 60, "b": 67})
