"""C03 — stateful bar-by-bar tokenisation is equivalent to tokenising the whole piece."""
import gens as G
import pyimpl as P
from oracle_util import *  # noqa
from tokutil import *  # noqa
from protocol import from_real
import h1tok_util as H

ID = "C03"
LEAN_MODULE = ["SCoda.Props.C01", "SCoda.Props.C01b", "SCoda.Props.C03b", "SCoda.Props.C10", "SCoda.Props.C03c", "SCoda.Props.TokTie", "SCoda.Props.TokTie2", "SCoda.Props.TokTie3", "SCoda.Props.C03e", "SCoda.Props.C03f"]
LEVEL = "proof"
CLAUSES = [
    ("two consecutive calls threading the state emit (notes and bar ends) exactly what one call on the joined events emits; "
     "by induction every grouping of consecutive whole-bar chunks does",
     ["SCoda.C01.chunked", "SCoda.C01.specLog_append_partial", "SCoda.C01.sim_partial"]),
    ("the simulation holds from an arbitrary related start state (the carried state dictionary), across signature changes and empty chunks",
     ["SCoda.C01.sim_partial", "SCoda.C01.applyRest_sync"]),
    ("any number of consecutive calls threading the state: the concatenated stream makes the detokeniser emit exactly the specification log of the whole piece "
     "(chunk i laid at the clock its call starts from)", ["SCoda.C01.chunked_n"]),
    ("WHOLE BARS at cumulative bar lengths (audit A1): chunks are lists of bars (signature + bar-relative events; input-level, decidable `BarsOk`), laid at the "
     "cumulative sum of bar lengths — not at the tokeniser's own carried clock. A call on whole bars from a bar line ends exactly one chunk length later iff the chunk "
     "does not stall (input-level `Stalls`: the last onset does not pass the line on which the last bar starts — the D19 class), and falls strictly short otherwise. "
     "For every grouping in which no chunk but the last stalls, whenever the threaded calls are accepted the SINGLE call on the joined piece succeeds with the same tokens and "
     "final state, and the detokeniser's log is the independent grid log (notes at bar start + tick, a bar end at every cumulative bar length); against a single call on "
     "any presentation of the piece with the same notes per bar (what the real merge produces) the two logs are permutations of each other. Without the no-stall "
     "hypothesis the statement is refuted (3/8, two one-bar chunks with a whole-bar note each; replayed: known finding D19)",
     ["SCoda.C03c.call_end_wholebars", "SCoda.C03c.wholebars_log", "SCoda.C03c.chunked_wholebars", "SCoda.C03c.chunked_vs_single",
      "SCoda.C03c.chunked_wholebars_init", "SCoda.C03c.chunked_wholebars_statement_false", "SCoda.C03c.d19_facts"]),
    ("glue: a bar produced by sequences_split_bars lasts exactly its signature's length (so chunks of bars are whole bars)", ["SCoda.C10.bar_duration"]),
    ("glue: where a call ends — on the onset of its last event if that is a bar line, else at the end of the bar containing it; hence a call on whole bars "
     "ends at the end of its last bar unless nothing in that bar moves the clock off the bar line (partial: known finding D19, refuted in general by a kernel-checked example)",
     ["SCoda.C01.call_end", "SCoda.C01.call_end_tokenise", "SCoda.C01.foldClock_cur", "SCoda.C01.call_stalls_on_barline"]),
    ("TIE BY TRANSLATION, tokeniser: MultiTrackLargeVocabularyNotelikeTokeniser is re-translated statement by statement on every run (Gen/TokFns.lean, tools/py2lean_tok.py: __init__, _construct_dictionary, tokenise with its closure _apply_rest as a fuelled loop, detokenise, get_info, encode, decode; f-strings as string concatenation, dicts as association lists, floats as exact rationals) and each translation is proved equal to the hand model the theorems above are about, on rendered token strings: a call with a state dictionary (default flags insert_bar_token = True, flag_running_time_signature = True: tokenise_defaults; False for the latter raises NotImplementedError: tokenise_not_running; the hand model has no insert_bar_token parameter, the theorems above are about the default flags only; insert_bar_token = False is the same call with the bar tokens deleted and the SAME carried state: tokenise_eq_flag_gen, tokenise_no_bar) is tokeniseCore started from the state read out of the dictionary, on extract at the tokeniser's OWN ppqn for every ppqn (tokenise_eq_gen: tracks with non-negative waits and no INTERNAL message, track count = num_tracks, state denominator ≠ 0, 0 ≤ ppqn·4·n, input time signatures with non-zero denominator; the source imputes note-offs with the module constant PPQN, not observable on such tracks: TokPpqnL.extract_ppqn_irrel, observable with a negative wait: negwait_code_vs_model), and writes the model's final state back into it; a call without one starts from the initial state (tokenise_fresh_gen)",
     ["SCoda.TokTie.tokenise_eq", "SCoda.TokTie.tokenise_eq'", "SCoda.TokTie.tokenise_fresh", "SCoda.TokTie.tokenise_fresh'", "SCoda.TokTie.tokenise_none", "SCoda.TokTie.stOfDict_nil", "SCoda.TokTie.tokenise_wrong_length", "SCoda.TokTie.tokenise_zero_denominator", "SCoda.TokTie2.tokenise_eq_in", "SCoda.TokTie2.tokenise_eq_gen", "SCoda.TokTie2.tokenise_fresh_gen", "SCoda.TokPpqnL.extract_ppqn_irrel", "SCoda.TokTie2.negwait_code_vs_model", "SCoda.TokTie2.tokenise_not_running", "SCoda.TokTie2.tokenise_defaults", "SCoda.TokTie3.tokenise_eq_flag_gen", "SCoda.TokTie3.tokenise_no_bar"]),
    ("glue to the real bars (audit A1 (ii)): for bars returned by sequences_split_bars, what the tokeniser extracts from any run [lo,hi) of them (Bar.to_sequence per track, set_channel, merge, interleaved pairings), cut at the cumulative bar lengths, is a well-formed whole-bar chunk (BarsOk after any running bar length: onsets in time order inside their bar, signatures only on bar lines and equal to the bar's own, every change of bar length announced by a signature event) with one bar per real bar carrying that bar's signature, and laid end to end it is exactly the extracted event list — provided the meta track's signatures are positive (input-level SigsPos) and every bar sequence of the run is a good track on its own (on its track's channel well-formed, no zero-length note; decidable, about the bars); for one-bar runs this is the full glue statement. The unrestricted statement (C03c.extract_wholebars_statement) is refuted: a zero-length note in one bar swallows a later note of the same pitch when the bars are merged in one run but not bar by bar (replayed on the implementation: same output; known finding D18/D18b). NOT proved: for runs of >= 2 bars, that the cut bars have bar by bar the same note events (up to order) as the one-bar runs (SameNotes; fuzzed, 0 failures in 17 000 runs)",
     ["SCoda.C03e.extract_wholebars_statement_false", "SCoda.C03e.d18_facts", "SCoda.C03e.extract_run", "SCoda.C03e.extract_wholebars_bars", "SCoda.C03e.extract_wholebars_partial", "SCoda.C03e.extract_wholebars_onebar", "SCoda.C03e.bars_pos"]),
    ("glue to the real bars, input-level hypotheses only (closes audit A1 (ii)): for tracks that are legal relative views, well-formed, free of zero-length notes and on one channel each, with positive signatures on the meta track, every bar sequence sequences_split_bars returns is a good track on its own, and what the tokeniser extracts from ANY run [lo,hi) of the bars (Bar.to_sequence per track, set_channel, merge, interleaved pairings) is a well-formed whole-bar chunk after any running bar length, one bar per real bar with that bar's signature, which bar by bar has the same lengths and - up to the order of simultaneous events - the same note events as the one-bar runs: exactly the presentation chunked_vs_single is stated for. Hypotheses tested: zero-length notes refute the statement (kernel-checked, same output on the implementation: known finding D18/D18b); a non-positive or too short signature (0/4, 1/128 at ppqn 24) on a silent piece yields a zero-length bar (kernel-checked, same on the implementation); 0 < ppqn follows from the signature condition; one channel per track is a need of the proof, no counter-example known",
     ["SCoda.C03f.bars_trackGood", "SCoda.C03f.extract_wholebars_input", "SCoda.C03f.extract_wholebars_full", "SCoda.C03f.extract_wholebars_nozero", "SCoda.C03f.nozero_needs_sigsPos", "SCoda.C03f.sigsPos_ppqn", "SCoda.C03e.extract_wholebars_statement_false"]),
]
RULE = ("valid pieces (1-3 tracks, 2-6 bars, signature changes, empty bars) split into bars by sequences_split_bars, regrouped "
        "by random partitions (thorough: all 2^(bars-1) partitions up to 6 bars) x sampled configurations (a quarter with custom / unsorted step "
        "lists, a step above ppqn, three-digit steps, repeated entries); the chunked stream is compared with the single call on the re-joined bars "
        "AND, when no note crosses a bar line, with the single call on the GENERATED tracks and with the piece's own signatures (plain data): notes, "
        "bar ends, in-force bar-length timeline of the returned signature events; pieces in and around D19's class (short bars, notes struck on the "
        "bar line that last exactly the bar, part of it or two bars, signature changes after such bars), cut at random bar lines; pieces with "
        "REPEATED bars (a bar's content copied into later bars of the same signature, repeated phrases, repeated empty bars; notes from two "
        "values / two velocities) mostly under configurations with an un-fused attribute and running values, one bar per call, two / three bars "
        "per call and random partitions (thorough: all), every call of a partition on one tokeniser object; "
        "non-trivial = at least 2 chunks and at least 2 notes")
ASSUMPTIONS = ["the glue from real bars to whole-bar chunks (C03f.extract_wholebars_nozero) assumes tracks on one channel each — a need of the proof only: mixed-channel tracks were replayed on the implementation and evaluated in the model without a failure",
               "models: SCoda.tokeniseCore with explicit carried state, SCoda.splitBars, SCoda.barsToSeq; every call of every "
               "partition is compared separately (its state in, tokens and state out)"]


def bars_of(tracks):
    from scoda.sequences.sequence import Sequence
    seqs = [P.seq_of_rel(t) for t in tracks]
    return Sequence.sequences_split_bars(seqs, meta_track_index=0, quantise_note_lengths=False)


def chunk_tracks(tb, lo, hi):
    """relative plain lists of Bar.to_sequence(bars[lo:hi]) per track"""
    from scoda.elements.bar import Bar
    out = []
    for bars in tb:
        s = Bar.to_sequence([b.copy() for b in bars[lo:hi]])
        out.append([from_real(m) for m in s.rel._messages])
    return out


def stalled_chunk(tracks, cuts):
    """D19: a call other than the last ends with a bar in which no track moves the clock off the bar line.
    NOT used by the known-finding predicate any more (audit round 3, K5: it reads the bars through sequences_split_bars of the tree under
    test); kept as the reference H.stalled_chunk_plain was validated against on the unchanged tree (7 618 cuts, 99 stalled, 0 disagreements)."""
    try:
        tb = bars_of(tracks)
    except Exception:
        return False
    nb = len(tb[0])
    for c in sorted({c for c in cuts if 0 < c < nb}):
        # what moves the tokeniser's clock in the bar that ends the call: note onsets and signatures, and the INTERNAL cap
        # message of the *merged* bar — which exists only when some track's trailing rest reaches past every track's last
        # message (a rest that ends together with another track's note-off leaves no cap message)
        onsets, last_msg, longest = [0], 0, 0
        for bars in tb:
            rel = [from_real(m) for m in bars[c - 1].sequence.rel._messages]
            timed, dur = rel_timed(rel)
            onsets += [t for t, m in timed if m[TY] in (ON, TIMESIG)]
            last_msg = max([last_msg] + [t for t, m in timed])
            longest = max(longest, dur)
        cap = longest if longest > last_msg else 0
        if max(onsets + [cap]) == 0:
            return True
    return False


def o_chunked(inp):
    cfg = P.TkCfg(**inp["cfg"])
    tracks = [[tuple(m) for m in t] for t in inp["tracks"]]
    cuts = list(inp["cuts"])          # bar indices where a new call starts (sorted, within 1..nbars-1)
    if not valid_piece(cfg.kw, tracks):
        return [("~skip:invalid-piece", "")]
    # ONE tokeniser object makes the single call and every call of the partition (as a caller would): the harness's instance of the
    # configuration, which earlier inputs of the run have used too (what they left on it is part of the replayable history, `before`), or —
    # `own_tokeniser` — an object constructed for this input alone, so that the outcome (and the shrinker) depends on this input only
    tk = cfg.fresh() if inp.get("own_tokeniser") else cfg.tk()
    try:
        tb = bars_of(tracks)
    except Exception:
        return [("~skip:split-bars-raises", "")]
    P.warm_up(inp.get("before"))
    nb = len(tb[0])
    cuts = sorted({c for c in cuts if 0 < c < nb})
    bounds = [0] + cuts + [nb]
    try:
        whole = tk.tokenise([P.seq_of_rel(t) for t in chunk_tracks(tb, 0, nb)])
    except Exception:
        return [("~skip:single-call-rejects", "")]
    fails = []
    sd = {}
    toks = []
    try:
        for lo, hi in zip(bounds, bounds[1:]):
            toks += tk.tokenise([P.seq_of_rel(t) for t in chunk_tracks(tb, lo, hi)], state_dict=sd)
    except Exception as e:
        return [("chunk-raises", f"{type(e).__name__}: {e} (partition {bounds})")]
    try:
        va = detok_view(tk.detokenise(whole))
        vb = detok_view(tk.detokenise(toks))
    except Exception as e:
        return [("detokenise-raises", f"{type(e).__name__}: {e}")]
    for ti, (a, b) in enumerate(zip(va, vb)):
        if a["notes"] != b["notes"]:
            fails.append(("notes", f"track {ti}: single call {a['notes']}, chunked {b['notes']} (partition {bounds})"))
        if a["bar_ends"] != b["bar_ends"]:
            fails.append(("bar-grid", f"track {ti}: single call {a['bar_ends']}, chunked {b['bar_ends']} (partition {bounds})"))
    # the signature EVENTS (audit round 3, O8): where the bar length changes and to what, single call against chunked calls
    tla, tlb = _sig_timeline(va), _sig_timeline(vb)
    if tla != tlb:
        fails.append(("signatures", f"bar length in force (tick, ticks per bar): single call {tla}, chunked {tlb} (partition {bounds})"))
    # "the whole piece" is the GENERATED piece, not what sequences_split_bars + Bar.to_sequence make of it (audit round 3, table): when no
    # note crosses a bar line (bars from the signatures alone, harness-side) the chunks hold the piece's own notes, so the chunked stream must
    # agree with the single call on the generated tracks — and its signature timeline with the piece's signatures, read from the plain input
    notes_, sigs_, caps_, _ = piece_of_tracks(tracks)
    lines = {e for _, e in H.bars_plain(tracks)}
    if any(on < e < on + d for ns in notes_ for (p_, on, d, v_) in ns for e in lines):
        return fails + [("~note:a-note-crosses-a-bar-line", "")]
    try:
        direct = tk.tokenise([P.seq_of_rel(t) for t in tracks])
    except Exception:
        return fails + [("~note:single-call-on-generated-tracks-rejects", "")]
    try:
        vd = detok_view(tk.detokenise(direct))
    except Exception as e:
        return fails + [("detokenise-raises", f"{type(e).__name__}: {e}")]
    for ti, (a, b) in enumerate(zip(vd, vb)):
        if a["notes"] != b["notes"]:
            fails.append(("notes", f"track {ti}: single call on the generated tracks {a['notes']}, chunked {b['notes']} (partition {bounds})"))
        # the generated tracks may end before their last bar does (the chunks are padded to whole bars; D15 is C01's finding): the shorter
        # list of bar ends must be the beginning of the longer
        k_ = min(len(a["bar_ends"]), len(b["bar_ends"]))
        if a["bar_ends"][:k_] != b["bar_ends"][:k_]:
            fails.append(("bar-grid", f"track {ti}: single call on the generated tracks {a['bar_ends']}, chunked {b['bar_ends']} (partition {bounds})"))
    # a signature standing exactly on the END of the piece opens no bar: the bars (and so the chunks) do not hold it, the single call on the
    # generated tracks does — only changes before the last bar line are compared
    end_ = max(lines) if lines else 0
    tlp = [x for x in H.barlen_timeline(sigs_) if x[0] < end_ or x[0] == 0]          # (tick 0 opens the first bar even of an empty piece)
    tld = [x for x in _sig_timeline(vd) if x[0] < end_ or x[0] == 0]
    if tlb != tlp:
        fails.append(("signatures", f"bar length in force (tick, ticks per bar): the piece's signatures {tlp}, chunked {tlb} (partition {bounds})"))
    if tld != tlb:
        fails.append(("signatures", f"bar length in force (tick, ticks per bar): single call on the generated tracks {tld}, chunked {tlb} (partition {bounds})"))
    return fails


def _sig_timeline(view, ppqn=24):
    return H.barlen_timeline(sorted([x for v in view for x in v["sigs"]], key=lambda x: x[0]), ppqn)


def o_chunked_split(inp):
    """the same equivalence with chunks cut by `Sequence.split` at bar lines (such chunks carry a signature message only where the
    signature changes, unlike `Bar` objects) and a tokeniser built for another resolution (ppqn = 24*k, the piece scaled by k)"""
    k = inp["scale"]
    kw = dict(inp["cfg"])
    base = P.TkCfg(**kw)
    tracks = [[tuple(m) for m in t] for t in inp["tracks"]]
    if not valid_piece(base.kw, tracks):
        return [("~skip:invalid-piece", "")]
    try:
        tb = bars_of(tracks)
    except Exception:
        return [("~skip:split-bars-raises", "")]
    nb = len(tb[0])
    lens = []
    for b in tb[0]:
        _, d = rel_timed([from_real(m) for m in b.sequence.rel._messages])
        lens.append(d * k)
    cuts = sorted({c for c in inp["cuts"] if 0 < c < nb})
    bounds = [0] + cuts + [nb]
    caps = [sum(lens[lo:hi]) for lo, hi in zip(bounds, bounds[1:])]
    # a note sounding across a cut would be cut and re-struck by split: the chunks are then a different piece
    edges, acc = set(), 0
    for c_ in caps[:-1]:
        acc += c_
        edges.add(acc // k)
    notes_, _, _, _ = piece_of_tracks(tracks)
    if any(on < e_ < on + dur for ns in notes_ for (p_, on, dur, v_) in ns for e_ in edges):
        return [("~skip:note-crosses-a-cut", "")]
    kw.update(ppqn=24 * k, step_sizes=[x * k for x in [2, 3, 4, 6, 8, 12, 16, 24]], note_values=[x * k for x in [24, 12, 6, 16, 8, 4, 36, 18, 9]])
    tk = P.TkCfg(**kw).tk()

    def scaled():
        out = []
        for t in tracks:
            s_ = P.seq_of_rel([(m[0], m[1], (m[2] * k if m[0] == WAIT else m[2])) + tuple(m[3:]) for m in t])
            s_.pad(sum(lens))
            out.append(s_)
        return out
    try:
        whole = tk.tokenise(scaled())
    except Exception:
        return [("~skip:single-call-rejects", "")]
    sd, toks = {}, []
    try:
        pieces = [s_.split(caps[:-1]) for s_ in scaled()]
        for j in range(len(caps)):
            from scoda.sequences.sequence import Sequence
            toks += tk.tokenise([(p[j] if j < len(p) else Sequence()) for p in pieces], state_dict=sd)
    except Exception as e:
        return [("chunk-raises", f"{type(e).__name__}: {e} (partition {bounds})")]
    try:
        va = detok_view(tk.detokenise(whole))
        vb = detok_view(tk.detokenise(toks))
    except Exception as e:
        return [("detokenise-raises", f"{type(e).__name__}: {e}")]
    fails = []
    for ti, (a, b) in enumerate(zip(va, vb)):
        if a["notes"] != b["notes"]:
            fails.append(("notes", f"track {ti}: single call {a['notes']}, chunked {b['notes']} (partition {bounds}, ppqn {24 * k})"))
        if a["bar_ends"] != b["bar_ends"]:
            fails.append(("bar-grid", f"track {ti}: single call {a['bar_ends']}, chunked {b['bar_ends']} (partition {bounds}, ppqn {24 * k})"))
    tla, tlb = _sig_timeline(va, 24 * k), _sig_timeline(vb, 24 * k)
    if tla != tlb:
        fails.append(("signatures", f"bar length in force (tick, ticks per bar): single call {tla}, chunked {tlb} (partition {bounds}, ppqn {24 * k})"))
    # against the piece's own signatures (plain input, scaled by k)
    _, sigs_, _, _ = piece_of_tracks(tracks)
    tlp = H.barlen_timeline([(t * k, n, d) for (t, n, d) in sigs_], 24 * k)
    if tlb != tlp:
        fails.append(("signatures", f"bar length in force (tick, ticks per bar): the piece's signatures {tlp}, chunked {tlb} (partition {bounds}, ppqn {24 * k})"))
    return fails


def setup(ctx):
    ctx.oracle("chunked", o_chunked)
    ctx.oracle("chunked_split", o_chunked_split)
    ctx.history_oracles = {"chunked"}

    def kf_d19(f):
        # decided on the plain input (bars from the signatures alone), not through sequences_split_bars of the tree under test (audit round 3, K5)
        # and by the OUTCOME (audit round 4, B3): the chunked list of the failure IS the single call's list with every note (whole tuple: pitch,
        # onset, duration, velocity — none lost, none invented) / bar end that lies at or after the cut of a call that returned early moved
        # earlier by exactly the cumulative amount predicted from the plain input, and the bar ends such a call never reached left out
        # (H.d19_outcome / H.d19_predict); a signature change of a later call moves like a note onset (clause `signatures`: it does occur on /repo —
        # 2/8 bars with whole-bar notes followed by a change to 3/8 — though the random pieces of a quick run never reach it)
        tracks = [[tuple(m) for m in t] for t in f["input"]["tracks"]]
        if f["clause"] not in ("notes", "bar-grid", "signatures"):
            return False
        if f["oracle"] == "chunked_split":
            # chunks cut by Sequence.split, piece scaled by k (soak seed 5): the same defect — a call returns on its last event onset's bar —
            # with the class of split chunks (a note may sound across the chunk's inner bar lines up to the cut: H.split_call_falls) and the
            # ticks scaled by k; found by a thorough soak, VERIF_SEED=5 (3/8, cut after a bar holding one whole-bar note, ppqn 48)
            k = f["input"]["scale"]
            return H.d19_outcome(f["clause"], f["detail"], [(a * k, b * k) for (a, b) in H.split_call_falls(tracks, f["input"]["cuts"])], 24 * k)
        if not (f["oracle"] == "chunked" and H.stalled_chunk_plain(tracks, f["input"]["cuts"])):
            return False
        return H.d19_outcome(f["clause"], f["detail"], H.d19_falls(tracks, f["input"]["cuts"]), grid=[e for _, e in H.bars_plain(tracks)])
    ctx.kf_predicates["D19"] = kf_d19


D19_EXAMPLE = {"cfg": dict(num_tracks=1), "cuts": [1], "tracks": [[
    G.pm(TIMESIG, 0, None, num=3, den=8), G.pm(ON, 0, None, note=60, vel=64), G.pm(WAIT, 0, 36), G.pm(OFF, 0, None, note=60),
    G.pm(ON, 0, None, note=62, vel=64), G.pm(WAIT, 0, 36), G.pm(OFF, 0, None, note=62)]]}


# D19 through chunks cut by Sequence.split (found by a thorough soak, VERIF_SEED=5): the recorded example at ppqn 48, and the shape only split
# chunks have — a note struck in the middle of the first 2/8 bar sounds exactly to the cut after the second bar, so the call returns at the end
# of the FIRST bar (its last onset's bar), one bar short
D19_SPLIT_EXAMPLE = {"cfg": dict(num_tracks=1), "cuts": [1], "scale": 2, "tracks": D19_EXAMPLE["tracks"]}
D19_SPLIT_TAIL_EXAMPLE = {"cfg": dict(num_tracks=1), "cuts": [2], "scale": 1, "tracks": [[
    G.pm(TIMESIG, 0, None, num=2, den=8), G.pm(WAIT, 0, 12), G.pm(ON, 0, None, note=60, vel=64), G.pm(WAIT, 0, 36), G.pm(OFF, 0, None, note=60),
    G.pm(WAIT, 0, 6), G.pm(ON, 0, None, note=62, vel=64), G.pm(WAIT, 0, 12), G.pm(OFF, 0, None, note=62), G.pm(WAIT, 0, 6)]]}


# audit round 3, O8: a signature change in a later bar must come back at its tick, in the single call and in the chunked calls
SIG_EXAMPLE = {"cfg": dict(num_tracks=1), "cuts": [1], "tracks": [[
    G.pm(TIMESIG, 0, None, num=4, den=4), G.pm(ON, 0, None, note=60, vel=64), G.pm(WAIT, 0, 24), G.pm(OFF, 0, None, note=60), G.pm(WAIT, 0, 72),
    G.pm(TIMESIG, 0, None, num=3, den=4), G.pm(ON, 0, None, note=62, vel=64), G.pm(WAIT, 0, 24), G.pm(OFF, 0, None, note=62), G.pm(WAIT, 0, 48)]]}


def gen_d19_piece(rng):
    """pieces in and around D19's class (audit round 4, B3: the random pieces reach it a handful of times per run): short bars (2/8, 3/8, 2/4,
    4/4, changing), one or two tracks, and in every bar mostly notes that START ON THE BAR LINE — lasting the whole bar (the call stalls), part of
    it, or two bars — next to a few free notes; result shape of gens.gen_piece"""
    menu = [(2, 8), (3, 8), (2, 4), (4, 4), (3, 4)]
    n_bars = rng.randint(2, 5)
    n_tracks = rng.choice([1, 1, 2])
    bars, sigs, t, cur = [], [], 0, None
    for b in range(n_bars):
        if b == 0 or rng.random() < 0.25:
            new = rng.choice(menu)
            if new != cur:
                sigs.append((t, new[0], new[1]))
            cur = new
        ln = 96 * cur[0] // cur[1]
        bars.append((t, ln, cur[0], cur[1]))
        t += ln
    total = t
    tracks, notes_all = [], []
    for ti in range(n_tracks):
        notes = []
        for bi, (start, length, _, _) in enumerate(bars):
            r = rng.random()
            cand = []
            if r < 0.45:
                cand.append((rng.choice([60, 62, 64]), start, length))                     # a whole-bar note on the bar line
            elif r < 0.6:
                cand.append((rng.choice([60, 62, 64]), start, rng.choice([12, 24])))       # a short note on the bar line
            elif r < 0.7 and bi + 1 < len(bars):
                cand.append((rng.choice([60, 62]), start, length + bars[bi + 1][1]))      # two bars long, from the bar line
            if rng.random() < 0.3:
                on = start + rng.choice([6, 12, 18, 24])
                if on < start + length:
                    cand.append((rng.choice([65, 67]), on, rng.choice([6, 12, start + length - on])))
            for (p, on, d) in cand:
                if on + d <= total and not any(x[0] == p and not (on + d <= x[1] or x[1] + x[2] <= on) for x in notes):
                    notes.append((p, on, d, rng.choice([1, 64, 127])))
        extras = [G.pm(TIMESIG, 0, tick, num=n, den=d) for (tick, n, d) in sigs] if ti == 0 else []
        a = G.notes_to_abs([(0, p, on, d, v) for (p, on, d, v) in notes], extras, cap=total if rng.random() < 0.5 else None)
        tracks.append(G.abs_to_rel(a))
        notes_all.append(sorted(notes, key=lambda x: (x[1], x[0])))
    return {"tracks": tracks, "notes": notes_all, "bars": bars, "sigs": sigs, "total": total}


def generate(ctx):
    rng = ctx.rng
    ctx.check("chunked", D19_EXAMPLE)
    ctx.check("chunked_split", D19_SPLIT_EXAMPLE)
    ctx.check("chunked_split", D19_SPLIT_TAIL_EXAMPLE)
    ctx.check("chunked", SIG_EXAMPLE)
    # members and neighbours of D19's class (audit round 4, B3): pieces whose bars mostly hold notes struck on the bar line, many of them
    # lasting exactly the bar — several calls stall, signature changes follow stalled calls, notes of one pitch are laid onto each other
    for i in range(ctx.n(40, 800)):
        piece = gen_d19_piece(rng)
        nb = len(piece["bars"])
        cuts = [c for c in range(1, nb) if rng.random() < 0.6]
        kw = dict(num_tracks=len(piece["tracks"]), pitch_range=(55, 70), velocity_bins=rng.choice([1, 4, 16]), fuse_track=rng.random() < 0.5,
                  running=rng.random() < 0.5)
        ctx.case((piece["tracks"], sorted(kw.items()), cuts), len(cuts) >= 1)
        ctx.count("bar-line-pieces")
        nst = len(H.d19_falls(piece["tracks"], cuts))
        if nst:
            ctx.count("bar-line-pieces:calls-that-stall(D19 class):%s" % (nst if nst < 3 else "3+"))
        ctx.check("chunked", {"cfg": kw, "tracks": piece["tracks"], "cuts": cuts})
        if i % 2 == 0:
            ctx.check("chunked_split", {"cfg": kw, "tracks": piece["tracks"], "cuts": cuts, "scale": rng.choice([1, 2])})
    # pieces with REPEATED bars (seeded change C03_agent8): bars copied into later bars of the same signature (2-3 repeats, repeated phrases,
    # repeated empty bars), tokenised one bar per call and in mixed partitions by ONE tokeniser object (o_chunked takes the harness's instance of
    # the configuration, `cfg.tk()`, and makes every call of the partition on it, as a caller would), mostly under configurations with an un-fused attribute and running values — there
    # the tokens of a call depend on the attributes carried into it, so two calls of identical content are not interchangeable
    for i in range(ctx.n(60, 500)):
        piece = H.gen_repeat_piece(rng)
        nt, nb = len(piece["tracks"]), len(piece["bars"])
        r = rng.random()
        if r < 0.85:
            unf = rng.choice(["value", "value", "velocity", "track"] if nt > 1 else ["value", "value", "velocity"])
            kw = dict(num_tracks=nt, pitch_range=(55, 70), running=True,
                      fuse_value=False if unf == "value" else rng.random() < 0.5,
                      fuse_velocity=False if unf == "velocity" else rng.random() < 0.5,
                      fuse_track=False if unf == "track" else rng.random() < 0.5,
                      velocity_bins=rng.choice([2, 4, 8, 16]) if unf == "velocity" else rng.choice([1, 2, 4, 8]))
        else:
            kw = dict(num_tracks=nt, pitch_range=(55, 70), running=rng.random() < 0.5, fuse_value=rng.random() < 0.5,
                      fuse_velocity=rng.random() < 0.5, fuse_track=rng.random() < 0.5, velocity_bins=rng.choice([1, 2, 4, 8]))
        ctx.count("repeated-bars")
        ctx.count("repeated-bars:plan:" + ("empty-bar-repeated" if piece["plan"].count("E") >= 2 else "no-empty-repeat"))
        if H.unfused_running(kw):
            ctx.count("repeated-bars:cfg-unfused-attribute-with-running-values")
        if len(piece["sigs"]) > 1:
            ctx.count("repeated-bars:signature-change")
        if ctx.thorough and nb <= 5:
            parts = [[c for c in range(1, nb) if (mask >> (c - 1)) & 1] for mask in range(1 << (nb - 1))]
        else:
            parts = [list(range(1, nb))] + [[c for c in range(1, nb) if rng.random() < 0.6] for _ in range(2)]
            if nb % 2 == 0 and nb >= 4:
                parts.append(list(range(2, nb, 2)))             # two bars per call: a repeated phrase is a repeated call
            if nb % 3 == 0 and nb >= 6:
                parts.append(list(range(3, nb, 3)))
        nn = sum(len(x) for x in piece["notes"])
        own = {"own_tokeniser": True} if i % 2 == 0 else {}
        ctx.count("repeated-bars:tokeniser-object:" + ("constructed-for-this-input" if own else "shared-with-earlier-inputs"))
        for cuts in parts:
            ctx.case((piece["tracks"], sorted(kw.items()), cuts), len(cuts) >= 1 and nn >= 2)
            rep = H.repeated_calls(piece, cuts)
            if rep:
                ctx.count("repeated-bars:partition-with-two-calls-of-identical-content")
                if any(d for _, _, d in rep):
                    ctx.count("repeated-bars:…-reached-under-different-carried-running-values")
                    if H.unfused_running(kw):
                        ctx.count("repeated-bars:…-…-and-cfg-unfused-with-running-values")
            ctx.check("chunked", dict({"cfg": kw, "tracks": piece["tracks"], "cuts": cuts}, **own))
        if i % 3 == 0:
            # correspondence: every call of the finest partition with the state Python carried into it, all on the harness's one tokeniser object
            try:
                tb = bars_of(piece["tracks"])
            except Exception:
                ctx.count("split-bars-error")
                continue
            cfg = P.TkCfg(**kw)
            sd = None
            for b in range(len(tb[0])):
                res = P.op_tokenise(cfg, sd, chunk_tracks(tb, b, b + 1))
                ctx.corr("tokenise_stateful", res)
                if not res[1].startswith("T "):
                    break
                sd = [int(x) for x in res[1].split(" | ")[1].split()]
    prev = None
    for i in range(ctx.n(60, 1200)):
        extra = {}
        if i % 4 == 1:
            # off the default step list (audit round 3, O3); the bars are cut by sequences_split_bars at the library's resolution, so ppqn stays 24
            # here (other resolutions: chunked_split below)
            extra = {"step_sizes": list(rng.choice(H.STEP_MENU[24][:6] + H.STEP_MENU[24][7:8] + H.DUP_STEPS[:3]))}
            piece = H.gen_piece_p(rng, ppqn=24, steps=extra["step_sizes"], n_bars=rng.randint(2, 6), tail_ok=False, pitch_range=(55, 70),
                                  within_bar=rng.random() < 0.9, max_notes_per_bar=4)
            for lab in H.describe_cfg(extra):
                ctx.count("cfg:" + lab)
        else:
            piece = G.gen_piece(rng, n_bars=rng.randint(2, 6), tail_ok=False, pitch_range=(55, 70), within_bar=rng.random() < 0.9,
                                 max_notes_per_bar=4)
        kw = dict(num_tracks=len(piece["tracks"]), velocity_bins=rng.choice([1, 2, 4, 8, 8, 12, 16]), running=rng.random() < 0.7,
                  fuse_track=rng.random() < 0.5, fuse_value=rng.random() < 0.5, fuse_velocity=rng.random() < 0.5,
                  pitch_range=(55, 70), **extra)
        if len(piece["sigs"]) > 1:
            ctx.count("signature-change")
        cfg = P.TkCfg(**kw)
        nb = len(piece["bars"])
        if ctx.thorough and nb <= 5:
            parts = [[c for c in range(1, nb) if (mask >> (c - 1)) & 1] for mask in range(1 << (nb - 1))]
        else:
            parts = [[c for c in range(1, nb) if rng.random() < 0.5] for _ in range(3)] + [list(range(1, nb))]
        nn = sum(len(x) for x in piece["notes"])
        for cuts in parts:
            ctx.case((piece["tracks"], sorted(kw.items()), cuts), len(cuts) >= 1 and nn >= 2)
            ctx.check("chunked", {"cfg": kw, "tracks": piece["tracks"], "cuts": cuts})
        if i % 2 == 0 and not extra:
            ctx.count("chunks-by-Sequence.split")
            if H.split_call_shifts(piece["tracks"], parts[0]):
                ctx.count("chunks-by-Sequence.split:a-call-falls-short(D19 class)")
            ctx.check("chunked_split", {"cfg": kw, "tracks": piece["tracks"], "cuts": parts[0], "scale": rng.choice([1, 2, 2, 4])})
        prev = {"cfg": kw, "tracks": piece["tracks"]}
        ctx.count("bars:%d" % nb)
        # correspondence: every call of the finest partition, with the state Python carried into it
        try:
            tb = bars_of(piece["tracks"])
        except Exception:
            ctx.count("split-bars-error")
            continue
        ctx.corr("splitBars", P.op_splitBars(0, False, piece["tracks"]))
        sd = None
        for b in range(len(tb[0])):
            ct = chunk_tracks(tb, b, b + 1)
            res = P.op_tokenise(cfg, sd, ct)
            ctx.corr("tokenise_stateful", res)
            if not res[1].startswith("T "):
                break
            sd = [int(x) for x in res[1].split(" | ")[1].split()]
        ctx.sample({"cfg": {k: str(v) for k, v in kw.items()}, "tracks": [t[:6] for t in piece["tracks"]], "cuts": parts[0]})
