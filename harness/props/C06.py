"""C06 — note-length quantisation yields only allowed durations and never moves onsets."""
import gens as G
import h4seq_util as U
import h2bars_util as U2
import pyimpl as P
from oracle_util import *  # noqa
from protocol import from_real

ID = "C06"
LEAN_MODULE = ["SCoda.Props.C06", "SCoda.Props.C06b", "SCoda.Props.Notes", "SCoda.Props.AbsTie2", "SCoda.Props.UtilTie", "SCoda.Props.SortTie"]
LEVEL = "proof"
CLAUSES = [
    ("every remaining note-off lies an allowed duration after a remaining note-on of its key; the operation never fails", ["SCoda.C06.durations", "SCoda.C06.total", "SCoda.C06.pairings_twoEl"]),
    ("onset, pitch, channel and velocity of every remaining note unchanged (every note-on of the result is an unchanged input note-on)", ["SCoda.C06.onsets_kept"]),
    ("non-note events untouched; result time-sorted", ["SCoda.C06.others_same", "SCoda.C06.sorted_out"]),
    ("local rule per note: the new duration fits before the next onset of its key (no overlap), is not longer than the original when extension is disabled, "
     "is closest to the original among the allowed values that fit, and the note is removed exactly when none fits",
     ["SCoda.C06.qnlChannel_spec", "SCoda.C06.validDurations_spec", "SCoda.C06.nearest_spec"]),
    ("glue (first half): on a sorted well-formed list the per-channel pairings are exactly its notes, no imputation", ["SCoda.Notes.pairings_notes"]),
    ("FOR LISTS OF POSITIVE VALUES (hypothesis `forall v in values, 0 < v` of qnl_notes / qnl_durations / qnl_wf; a value <= 0 that is chosen puts the note-off at or "
     "before its note-on and the result is ill-formed: known finding D39, replayed on the implementation) "
     "the notes of the result are the original notes, each removed or given a new end on + x where x is an allowed value that fits before the next onset of its "
     "channel and pitch (and is not longer than the note when extension is disabled), closest to the original duration; removed exactly when none fits; "
     "hence allowed durations only, onsets/pitch/channel/velocity unchanged, no overlap, well-formed result",
     ["SCoda.C06.qnl_notes", "SCoda.C06.qnl_durations", "SCoda.C06.qnl_no_overlap", "SCoda.C06.qnl_wf"]),
    ('TIE BY TRANSLATION, absolute view with object identity: the dict-heavy / aliasing methods of AbsoluteSequence are re-translated statement by statement on every run (Gen/AbsFns2.lean, tools/py2lean_abs2.py: Message objects live in a heap, a reference is a position tag, stores through any alias update the heap cell, dicts are insertion-ordered association lists, while loops carry proved fuel bounds) and proved equal to the hand models, for every heap and reference list with references into the heap and channels not None: quantise_note_lengths = the model quantiseNoteLengths (None = the default note values) for pairwise distinct objects; get_message_pairings = the model pairing table (the heap only grows, the list ends up sorted)',
     ["SCoda.AbsTie2.quantiseNoteLengths_eq", "SCoda.AbsTie2.quantiseNoteLengths_init", "SCoda.AbsTie2.pairings_eq", "SCoda.AbsTie2.pairings_init", "SCoda.AbsTie2.findMinimalDistance_eq"]),
    ('TIE BY TRANSLATION, numeric helpers: scoda/misc/util.py is re-translated statement by statement on every run (Gen/UtilFns.lean, tools/py2lean_util.py: one operator of the PyNum int/float tower per Python operator — floats as exact rationals, no rounding modelled —, range/enumerate/zip/comprehensions, while with proved fuel, numpy.digitize(right=True) modelled explicitly) and tied to the hand models and to the dumped tables: get_default_note_values() evaluated from the translated source = the dumped table the theorems quantify over; dotted and tuplet durations as the hand transcription',
     ["SCoda.UtilTie.getDefaultNoteValues_eq", "SCoda.UtilTie.default_tables_from_source", "SCoda.UtilTie.getDottedNoteDurations_int", "SCoda.UtilTie.getTupletDurations_eq"]),
    ("TIE BY TRANSLATION of the sort that every absolute-view operation goes through: AbsoluteSequence.sort (its list.sort call and the key lambda (time, -1 if channel is None else channel, message_type, note)), MessageType.__lt__ and the declaration order of the enum members are re-translated expression by expression on every run (Gen/SortFns.lean, tools/py2lean_sort.py; Python's == and < on None / int / enum members, tuple comparison, list.index and list.sort are the language model Model/SortLib.lean) and proved equal to the hand model: on every message list whose keys Python can compare (the times are all None or all ints; two messages equal in (time, channel, type) have both notes None or both ints) the translated sort returns exactly sortAbs l, through any projection (heap references, tagged messages); outside that domain it raises TypeError, as the real code does (replayed: a NOTE_ON with a note and a hand-built NOTE_ON without one on the same tick and channel; a message without a time in a timed sequence; two TIME_SIGNATUREs on one tick and channel are inside the domain); keyLe a b holds iff key(b) < key(a) is False; Python's key order is a strict weak order on the domain and ANY stable sort by it (a permutation that is sorted and keeps the relative order of equal keys) is sortAbs l — modelling CPython's timsort by an insertion sort is a theorem, the one assumption left is that list.sort is a stable comparison sort. This discharges the list.sort links of tools/py2lean.py (sort -> sortAbs) and tools/py2lean_abs2.py (sortRefs), which until now were only fingerprinted (tools/conventions.py)",
     ["SCoda.SortTie.sort_eq", "SCoda.SortTie.sortOf_eq_isort", "SCoda.SortTie.sort_raises", "SCoda.SortTie.sortOf_raises", "SCoda.SortTie.sort_ok_iff", "SCoda.SortTie.keyLe_iff", "SCoda.SortTie.keyLt_eq", "SCoda.SortTie.keyLt_ok_iff_comparable", "SCoda.SortTie.messageTypeLt_eq", "SCoda.SortTie.messageTypeLt_nonmember", "SCoda.SortTie.members_eq", "SCoda.SortTie.memberNames_eq", "SCoda.SortTie.generated_order_strictWeakOrder", "SCoda.SortTie.any_stable_sort_eq_sortAbs", "SCoda.SortTie.stable_sort_is_isortBy", "SCoda.SortTie.isortBy_is_stable_sort", "SCoda.SortTie.sortDom_of_wellFormed", "SCoda.SortTie.sortRefs_discharged", "SCoda.SortTie.viewSort_discharged", "SCoda.SortTie.sort_eq_statement_false", "SCoda.SortTie.keyLe_iff_statement_false"]),
]
RULE = ("well-formed multi-channel note sets (<=8 notes, back-to-back repeated pitches, very short notes) x value lists "
        "(defaults, lists with duplicates, single values; since audit round 4 also lists holding 0 and negative values, about 12 % of the cases) "
        "x extension on/off; non-trivial = some note's duration not in the list; every second case also as an ARGUMENT HISTORY through the wrapper: "
        "the same Sequence quantised twice with the caller's list edited in place in between (remove / replace / append a value), the second call with "
        "the same list object or an equal copy, judged against the text for the content and the list as they are at the second call")
ASSUMPTIONS = ["model: SCoda.quantiseNoteLengths + SCoda.pairings, tied by translation (AbsTie2) and sampled by correspondence (lists with a negative value are left "
               "out of the correspondence: a tick of -1 is the line protocol's None)",
               "reading (audit round 4, A4): `any list of allowed values` includes 0 and negative values; the text's result for a note whose closest fitting value "
               "is x <= 0 is the note with its note-off x ticks after its note-on; the code delivers those events but sorted off-before-on (D39)"]
VALUE_LISTS = [[24, 12, 6, 16, 8, 4, 36, 18, 9], [12, 12, 24], [6], [4, 8], [48, 24], [3, 5], [1], [96]]
# audit round 4, A4: "any list of allowed values" — lists with the value 0 and with negative values (known finding D39) were never drawn
NONPOSITIVE_VALUE_LISTS = [[0, 24], [24, 0], [0], [12, 0, 24, 6], [-24, 24], [-1, 24], [6, -1, 12], [0, -3, 48], [-5]]


def qnl_text_prediction(pre, values, dne):
    """the property text, applied note by note to the well-formed input `pre` (timed events in canonical order): per (channel, pitch) in onset
    order a note keeps its note-on and gets the allowed value closest to its length among those that fit before the next onset of its key
    (and are not longer than the note when extension is disabled) — of several closest values the first of the list, the documented
    tie-break of find_minimal_distance —, or is removed when none fits.  Returns [(channel, pitch, on, chosen value, velocity)]: the chosen
    value may be 0 or negative when the list holds such values (they always fit)."""
    by_key, out = {}, []
    for n in notes_of(pre):
        by_key.setdefault((n[0], n[1]), []).append(n)
    for k, lst in by_key.items():
        lst.sort(key=lambda n: n[2])
        for i, (c, p, on, off, v) in enumerate(lst):
            nxt = lst[i + 1][2] if i + 1 < len(lst) else None
            fit = [x for x in values if (nxt is None or on + x <= nxt) and (not dne or x <= off - on)]
            if fit:
                out.append((c, p, on, min(fit, key=lambda x: abs(x - (off - on))), v))
    return out


def _canon_key(m):
    return (m[2], m[1], m[0], -1 if m[3] is None else m[3])


def apply_list_edits(lst, edits):
    """the caller's in-place edits of ITS OWN list of allowed values, between two calls (seeded change C06_agent8): ["remove", v] (list.remove,
    a no-op when v is not in the list), ["append", v], ["replace", i, v] (lst[i % len] = v).  Works IN PLACE on `lst` (the object identity is
    the point) and returns it."""
    for e in edits:
        if e[0] == "remove":
            if e[1] in lst:
                lst.remove(e[1])
        elif e[0] == "append":
            lst.append(e[1])
        elif e[0] == "replace" and lst:
            lst[e[1] % len(lst)] = e[2]
    return lst


def after_first_pass(pre, a, values, dne):
    """plain-data content of the sequence after a pass with the (positive) values `values`: the text's result (qnl_text_prediction) as an
    absolute plain list in canonical order — every non-note message of `a` as it is, every kept note with its new end"""
    a1 = [m for m in a if m[TY] not in (ON, OFF)]
    for (c, p, on, x, v) in qnl_text_prediction(pre, values, dne):
        a1 += [G.pm(ON, c, on, note=p, vel=v), G.pm(OFF, c, on + x, note=p)]
    return sorted(a1, key=_canon_key)


def o_qnl(inp):
    a = [tuple(m) for m in inp["abs"]]
    values = list(inp["values"])
    dne = inp["dne"]
    pre, _ = abs_timed(sorted(a, key=_canon_key))
    if wf_violations(pre) or any(on >= off for (_, _, on, off, _) in notes_of(pre)):
        return [("~skip:not-well-formed", "")]
    relist = inp.get("relist")
    if relist:
        # OBJECT HISTORY OF THE ARGUMENT (seeded change C06_agent8): the same Sequence is quantised twice through the wrapper with nothing in
        # between but the CALLER editing its own list of allowed values in place; the second call gets the same list object ("same-object") or
        # a different list object with the content the first one has by then ("equal-copy").  The second call is judged, like every call, against
        # the text for the sequence as it is then (the text's result of the first pass, from plain data) and the list as it is then.
        first = list(relist["first"])
        values = apply_list_edits(list(first), relist["edits"])      # the list as it is at the second call (plain data, the harness's own copy)
        if not first or not values or any(x <= 0 for x in first + values):
            return [("~skip:relist-needs-positive-non-empty-lists", "")]
        s_ = P.seq_in_state(G.abs_to_rel(a), inp.get("state") or "rel")
        the_list = list(first)
        try:
            s_.quantise_note_lengths(the_list, do_not_extend=dne)
        except Exception as e:
            return [("raises", f"first call: {type(e).__name__}: {e}")]
        # the absolute view as the first call left it, read off the private field (no method of the object is called between the two calls)
        mid = [from_real(m) for m in s_._abs._messages]
        a1 = after_first_pass(pre, a, first, dne)
        if notes_of(abs_timed(sorted(mid, key=_canon_key))[0]) != notes_of(abs_timed(a1)[0]):
            return [("first-call", f"the first pass with {first} left the notes {notes_of(abs_timed(sorted(mid, key=_canon_key))[0])[:6]}, "
                                   f"the text gives {notes_of(abs_timed(a1)[0])[:6]}")]
        apply_list_edits(the_list, relist["edits"])
        if the_list != values:
            return [("argument", f"the caller's list {first} was changed by the first call: after the caller's edits it reads {the_list}, not {values}")]
        try:
            s_.quantise_note_lengths(the_list if relist["second"] == "same-object" else list(the_list), do_not_extend=dne)
        except Exception as e:
            return [("raises", f"second call: {type(e).__name__}: {e}")]
        out = [from_real(m) for m in s_.abs._messages]
        out_rel = [from_real(m) for m in s_.rel._messages]
        pre, _ = abs_timed(a1)
    elif inp.get("state"):
        # through the Sequence wrapper, from one of its freshness states
        s_ = P.seq_in_state(G.abs_to_rel(a), inp["state"])
        try:
            s_.quantise_note_lengths(list(values), do_not_extend=dne)
        except Exception as e:
            return [("raises", f"{type(e).__name__}: {e}")]
        # the object's own two views, read directly (no copy(), no second conversion by the library): the absolute view is judged below, the
        # relative view must show the same timed events and duration
        out = [from_real(m) for m in s_.abs._messages]
        out_rel = [from_real(m) for m in s_.rel._messages]
    else:
        s = P.mk_abs(a)
        try:
            s.quantise_note_lengths(list(values), do_not_extend=dne)
        except Exception as e:
            return [("raises", f"{type(e).__name__}: {e}")]
        out = [from_real(m) for m in s._messages]
    tin = pre          # expected notes are read off the canonical order, whatever order the messages were entered in
    tout = [(m[TIME], m) for m in out if m[TY] != INTERNAL]
    fails = []
    if wf_violations(tout):
        # the observed events travel with the failure: known finding D39 (a non-positive allowed value) PREDICTS them
        return [("no-overlap", U2.Detail(f"output notes not well-formed: {wf_violations(tout)[:3]}", out=[m for _, m in tout], bad=wf_violations(tout)))]
    if inp.get("state") or relist:
        # (judged after the well-formedness of the absolute view, audit round 4: an ill-formed result is reported as such, with its events)
        if U.content_abs(out) != U.content_rel(out_rel):
            return [("views", f"after quantise_note_lengths from state '{inp.get('state')}' the relative view does not show what the absolute view shows")]
        if not all_int_times(out) or not all_int_times(out_rel):
            return [("int", "non-integer tick after quantise_note_lengths")]
    nin = notes_of(tin)
    nout = notes_of(tout)
    if inp.get("state") or relist:
        # the wrapper state was built from a relative list: its cap message was created by the conversion (its channel is inferred, there is
        # none when another message sits on the last tick) — it is not an event; what must be unchanged is every non-note event and the duration
        last = max([m[TIME] for m in a if m[TY] != INTERNAL] + [0])
        same_cap = [m[TIME] for m in out if m[TY] == INTERNAL] == [m[TIME] for m in a if m[TY] == INTERNAL and m[TIME] > last][:1]
    else:
        same_cap = [m for m in a if m[TY] == INTERNAL] == [m for m in out if m[TY] == INTERNAL]
    if non_note(tin) != non_note(tout) or not same_cap:
        fails.append(("others", "a non-note event changed"))
    by_key = {}
    for n in nin:
        by_key.setdefault((n[0], n[1]), []).append(n)
    kept = {}
    for (c, p, on, off, v) in nout:
        if off - on not in values:
            fails.append(("durations", f"note ({c},{p},{on}) has duration {off - on} not in {values}"))
        src = [n for n in nin if (n[0], n[1], n[2], n[4]) == (c, p, on, v)]
        if not src:
            fails.append(("onsets", f"output note ({c},{p},{on},{v}) has no original with the same channel, pitch, onset and velocity"))
        else:
            kept[src[0]] = off - on
    for k, lst in by_key.items():
        lst.sort(key=lambda n: n[2])
        for i, n in enumerate(lst):
            (c, p, on, off, v) = n
            nxt = lst[i + 1][2] if i + 1 < len(lst) else None
            fit = [x for x in values if (nxt is None or on + x <= nxt) and (not dne or x <= off - on)]
            if n in kept:
                d = kept[n]
                if dne and d > off - on:
                    fails.append(("no-extend", f"note {n} extended to {d}"))
                if d not in fit:
                    fails.append(("closest", f"note {n} got duration {d} which does not fit (fit={fit})"))
                elif any(abs(x - (off - on)) < abs(d - (off - on)) for x in fit):
                    fails.append(("closest", f"note {n} got {d}, a closer fitting value exists in {fit}"))
            else:
                if fit:
                    fails.append(("removed", f"note {n} removed although {fit} fit"))
    # overlap
    for k, lst in by_key.items():
        outs = sorted(x for x in nout if (x[0], x[1]) == k)
        for x, y in zip(outs, outs[1:]):
            if x[3] > y[2]:
                fails.append(("no-overlap", f"{x} overlaps {y}"))
    return fails


# D39 (audit round 4, A4): the allowed value 0 is the closest fitting value for the note [0,5) — it comes back as note-off BEFORE note-on
D39_EXAMPLE = {"abs": [G.pm(ON, 0, 0, note=60, vel=64), G.pm(OFF, 0, 5, note=60), G.pm(ON, 0, 30, note=60, vel=64), G.pm(OFF, 0, 54, note=60)],
               "values": [0, 24], "dne": False}
# D39, second member: a negative allowed value (the audit calls them harmless: [-24, 24] is, because -24 is never the closest; -1 is not)
D39_EXAMPLE2 = {"abs": [G.pm(ON, 0, 0, note=60, vel=64), G.pm(OFF, 0, 5, note=60), G.pm(ON, 0, 30, note=60, vel=64), G.pm(OFF, 0, 54, note=60)],
                "values": [-1, 24], "dne": True}


def gen_relist(rng, a, dne):
    """a second call with the caller's list edited in place in between (seeded change C06_agent8): a first list of positive values, 1-2 edits
    (mostly removing / replacing a value the first pass actually GAVE to some note, so that the second pass has something to do), and whether
    the second call gets the same list object or an equal copy.  Returns the `relist` record and whether the second pass must change a note."""
    first = list(rng.choice(VALUE_LISTS))
    if rng.random() < 0.4:
        first = [rng.choice([1, 2, 3, 4, 6, 8, 9, 12, 16, 18, 24, 36, 48]) for _ in range(rng.randint(2, 6))]
    pre, _ = abs_timed(sorted(a, key=_canon_key))
    used = sorted({x for (_, _, _, x, _) in qnl_text_prediction(pre, first, dne)})
    edits = []
    cur = list(first)
    for _ in range(rng.choice([1, 1, 2])):
        kind = rng.choice(["remove", "remove", "replace", "replace", "append", "none"])
        pool = [x for x in used if x in cur] or cur
        if kind == "remove" and len(set(cur)) >= 2:
            edits.append(["remove", rng.choice(pool)])
        elif kind == "replace":
            edits.append(["replace", cur.index(rng.choice(pool)), rng.choice([1, 2, 3, 4, 6, 8, 9, 12, 16, 18, 24, 36, 48, 96])])
        elif kind == "append":
            edits.append(["append", rng.choice([1, 2, 3, 5, 6, 12, 24, 48])])
        apply_list_edits(cur, edits[-1:])
    a1 = after_first_pass(pre, a, first, dne)
    busy = any(off - on not in cur for (_, _, on, off, _) in notes_of(abs_timed(a1)[0]))
    return {"first": first, "edits": edits, "second": rng.choice(["same-object", "same-object", "equal-copy"])}, busy


def setup(ctx):
    ctx.oracle("qnl", o_qnl)

    def kf_d39(f):
        # OUTCOME: the list of allowed values holds a value <= 0, the result is ill-formed, and its events are exactly the text's result —
        # every note keeps its note-on and gets its note-off `chosen value` after it, non-note events untouched — in the order of the absolute
        # view's sort key (tick, channel, type with note-off before note-on, pitch), with at least one note whose chosen value is <= 0 (its
        # note-off therefore stands before its note-on: D17 / D22's mechanism).  Any other ill-formed result is a VIOLATION.
        d = U2.data_of(f)
        inp = f["input"]
        if f["clause"] != "no-overlap" or "out" not in d or not any(x <= 0 for x in inp["values"]):
            return False
        a = [tuple(m) for m in inp["abs"]]
        pre, _ = abs_timed(sorted(a, key=lambda m: (m[2], m[1], m[0], -1 if m[3] is None else m[3])))
        chosen = qnl_text_prediction(pre, list(inp["values"]), inp["dne"])
        if not any(x <= 0 for (_, _, _, x, _) in chosen):
            return False
        want = [(on, c, ON, p, v) for (c, p, on, x, v) in chosen] + [(on + x, c, OFF, p, None) for (c, p, on, x, v) in chosen]
        got = [(m[TIME], m[CH], m[TY], m[NOTE], m[VEL]) for m in d["out"] if m[TY] in (ON, OFF)]
        others_same = non_note([(m[TIME], m) for m in d["out"]]) == non_note(pre)
        return others_same and got == sorted(want, key=lambda e: (e[0], -1 if e[1] is None else e[1], e[2], e[3]))
    ctx.kf_predicates["D39"] = kf_d39


def generate(ctx):
    rng = ctx.rng
    ctx.check("qnl", D39_EXAMPLE)       # the recorded instances of the known finding
    ctx.check("qnl", D39_EXAMPLE2)
    for i in range(ctx.n(400, 15000)):
        chans = rng.choice([(0, 1), (0, 1), (0, 1, 2), (0, 5, 9, 15)])
        ctx.count("channels:%d" % len(chans))
        a, notes = G.gen_wf_abs(rng, channels=chans)
        if rng.random() < 0.35:
            a = G.shuffle_ties(rng, a)       # entered in another order: equal-time messages not in canonical order
            ctx.count("abs:ties-shuffled")
        values = rng.choice(VALUE_LISTS)
        if rng.random() < 0.3:      # random list: duplicates and any order allowed
            values = [rng.choice([1, 2, 3, 4, 6, 8, 9, 12, 16, 18, 24, 36, 48]) for _ in range(rng.randint(1, 6))]
        if rng.random() < 0.12:
            # "any list of allowed values": 0 and negative values among them (audit round 4, A4; known finding D39 when one is chosen)
            values = rng.choice(NONPOSITIVE_VALUE_LISTS) if rng.random() < 0.5 else \
                [rng.choice([0, 0, -1, -6, -24, 1, 3, 6, 12, 24, 48]) for _ in range(rng.randint(1, 5))]
            ctx.count("values:with-a-non-positive-value")
            if 0 in values:
                ctx.count("values:with-0")
        dne = rng.random() < 0.5
        ctx.case((a, values, dne), any(n[3] not in values for n in notes))
        ctx.check("qnl", {"abs": a, "values": values, "dne": dne})
        if i % 3 == 0:
            ctx.count("wrapper-states")
            ctx.check("qnl", {"abs": a, "values": values, "dne": dne, "state": rng.choice(P.SEQ_STATES)})
        if i % 2 == 0:
            # the same Sequence quantised twice, the caller's list edited in place in between (seeded change C06_agent8)
            relist, busy = gen_relist(rng, a, dne)
            ctx.count("relist:%s" % relist["second"])
            ctx.count("relist:edits:" + ("+".join(e[0] for e in relist["edits"]) or "none"))
            ctx.count("relist:second-pass-" + ("must-change-a-note" if busy else "is-a-no-op"))
            ctx.check("qnl", {"abs": a, "values": relist["first"], "dne": dne, "state": rng.choice(P.SEQ_STATES), "relist": relist})
        if any(x < 0 for x in values):
            # a negative allowed value can put a note-off on tick -1, which the line protocol of the Lean driver cannot tell from None (the
            # sentinel -1 = None of harness/protocol.py): such lists are judged by the oracle (D39) and left out of the correspondence; lists
            # with the value 0 are compared as usual
            ctx.count("corr:qnl:skipped(negative allowed value: tick -1 is the protocol's None)")
        else:
            ctx.corr("qnl", P.op_qnl(values, 24, dne, a))
        ctx.corr("pairings", P.op_pairings([6, 7], 24, True, a))
        ctx.count("dne" if dne else "extend")
        ctx.sample({"abs": a, "values": values, "dne": dne})
