"""C05 — quantise puts every event on the grid and keeps every note well-formed."""
import gens as G
import pyimpl as P
from oracle_util import *  # noqa
from protocol import from_real, to_real

ID = "C05"
LEAN_MODULE = ["SCoda.Props.C05", "SCoda.Props.C05b", "SCoda.Props.Strong589Q", "SCoda.Props.WrapTie", "SCoda.Props.AbsTie2", "SCoda.Props.UtilTie"]
LEVEL = "proof"
CLAUSES = [
    ("every remaining event lies on a tick divisible by at least one step size; quantise never fails on well-formed input",
     ["SCoda.C05.on_grid", "SCoda.C05.total", "SCoda.C05.candidates_spec", "SCoda.C05.fmd_spec"]),
    ("every remaining message is an input message that moved by at most the largest step size, everything else about it unchanged (so survivors keep pitch, channel, velocity)",
     ["SCoda.C05.displacement"]),
    ("notes pair one-to-one per (channel, pitch) — the output is well-formed and time-sorted, so same-key notes do not overlap — with positive duration, "
     "including the same pitch on several channels", ["SCoda.C05.wf_out", "SCoda.C05.positive_durations", "SCoda.C05.sorted_out"]),
    ("non-note events are all kept", ["SCoda.C05.others_kept"]),
    ("NO DUPLICATION (audit A14): the output is, up to order, a sublist of the input with only `time` changed, each by at most the largest step — so no message is invented "
     "or doubled (length, note count and multiset bounds follow); notes of one channel and pitch do not overlap (`notesOf` pairwise: off <= next on); well-formedness of "
     "the input is necessary (for [on@0, on@8] a note-off is fabricated, model and implementation alike)",
     ["SCoda.Strong589.notes_injective", "SCoda.Strong589.length_le", "SCoda.Strong589.note_count_le", "SCoda.Strong589.multiset_le", "SCoda.Strong589.no_overlap", "SCoda.Strong589.dropped_of_lt'"]),
    ("TIE BY TRANSLATION: Sequence.quantise / quantise_and_normalise (absolute view, quantise, invalidate; the three calls in order) as re-translated from the source equal the "
     "wrapper model; AbsoluteSequence.quantise itself stays tied by correspondence", ["SCoda.WrapTie.quantise_eq", "SCoda.WrapTie.quantiseAndNormalise_eq"]),
    ("an isolated note (of positive length) survives at the nearest grid position of its onset with a strictly later end whenever some grid position of "
     "its end lies after its quantised start, and is dropped only otherwise (the statement that does not tie the note-off to its note-on is refuted)",
     ["SCoda.C05.survives_of_lt", "SCoda.C05.dropped_of_lt", "SCoda.C05.survives_partial", "SCoda.C05.dropped_partial",
      "SCoda.C05.survives_statement_false", "SCoda.C05.dropped_statement_false"]),
    ("TIE BY TRANSLATION, absolute view with object identity: the dict-heavy / aliasing methods of AbsoluteSequence are re-translated statement by statement on every run (Gen/AbsFns2.lean, tools/py2lean_abs2.py: Message objects live in a heap, a reference is a position tag, stores through any alias update the heap cell, dicts are insertion-ordered association lists, while loops carry proved fuel bounds) and proved equal to the hand models, for every heap and reference list with references into the heap and channels not None: quantise = the model quantise — same messages or the same error (KeyError / IndexError cases included) — for pairwise distinct objects and positive step sizes (step 0 raises ZeroDivisionError in the code and the translation, the model returns []: replayed); find_minimal_distance = the model's, no hypothesis",
     ["SCoda.AbsTie2.quantise_eq", "SCoda.AbsTie2.quantise_init", "SCoda.AbsTie2.findMinimalDistance_eq", "SCoda.AbsTie2.pairings_eq", "SCoda.AbsTie2.pairings_init"]),
    ("TIE BY TRANSLATION, numeric helpers: scoda/misc/util.py is re-translated statement by statement on every run (Gen/UtilFns.lean, tools/py2lean_util.py: one operator of the PyNum int/float tower per Python operator — floats as exact rationals, no rounding modelled —, range/enumerate/zip/comprehensions, while with proved fuel, numpy.digitize(right=True) modelled explicitly) and tied to the hand models and to the dumped tables: find_minimal_distance = the model's for all integer inputs, and meets its independent specification: the index is in range, no element is closer, and it is the FIRST such index",
     ["SCoda.UtilTie.findMinimalDistance_eq", "SCoda.UtilTie.findMinimalDistance_spec", "SCoda.UtilTie.getDefaultStepSizes_of_py", "SCoda.UtilTie.default_tables_from_source"]),
]
RULE = ("well-formed multi-channel note sets (<=8 notes, 3 channels, ticks<200, 30% very short notes, abutting notes) with "
        "non-note events x step lists from the defaults and {2,3,4,5,7,12,16,24}; non-trivial = at least two notes or a note shorter than the largest step")
ASSUMPTIONS = ["model: SCoda.quantise (Model/Quantise.lean), tied by correspondence on the same inputs"]
STEP_LISTS = [[24, 12, 6, 16, 8, 4], [12], [4], [2, 3], [5, 7], [16, 24], [3], [24], [6, 4], [7], [2],
              [8, 8, 12], [6, 4, 6, 9], [12, 12], [4, 6, 4], [9, 6, 9, 4]]      # duplicates, unsorted


def gen_steps(rng):
    """a listed step list, or (30 %) a random one: 1-5 values from 2..24, duplicates and any order allowed"""
    if rng.random() < 0.3:
        pool = [2, 3, 4, 5, 6, 7, 8, 9, 12, 16, 18, 24]
        return [rng.choice(pool) for _ in range(rng.randint(1, 5))]
    return rng.choice(STEP_LISTS)


def candidates(t, steps):
    return [(t // s) * s for s in steps] + [(t // s) * s + s for s in steps]


def o_quantise(inp):
    a = [tuple(m) for m in inp["abs"]]
    steps = list(inp["steps"])
    if not steps or any(s <= 0 for s in steps):
        return [("~skip:bad-steps", "")]
    pre, _ = abs_timed(a)
    if wf_violations(pre) or any(on >= off for (_, _, on, off, _) in notes_of(pre)) \
            or a != sorted(a, key=lambda m: (m[2], m[1], m[0], -1 if m[3] is None else m[3])):
        return [("~skip:not-well-formed-sorted", "")]      # the property is about well-formed sequences
    S = max(steps)
    real = [to_real(m) for m in a]
    orig_time = {id(m): m.time for m in real}
    from scoda.sequences.absolute_sequence import AbsoluteSequence
    seq = AbsoluteSequence(messages=real)
    if inp.get("rerun"):
        # the same object was quantised before (same step list) and its ticks were then edited in place, as the iterators allow:
        # judged against the content it has now
        try:
            seq.quantise(list(steps))
        except Exception:
            return [("~skip:first-quantise-raised", "")]
        for m in seq._messages:
            m.time += inp["rerun"]
        real = list(seq._messages)
        a = [from_real(m) for m in real]
        pre, _ = abs_timed(a)
        if wf_violations(pre) or any(on >= off for (_, _, on, off, _) in notes_of(pre)):
            return [("~skip:not-well-formed-sorted", "")]
        orig_time = {id(m): m.time for m in real}
    try:
        seq.quantise(list(steps))
    except Exception as e:
        return [("raises", f"quantise raised {type(e).__name__}: {e}")]
    out_real = seq._messages
    out = [from_real(m) for m in out_real]
    fails = []
    for m in out:
        if not is_int(m[TIME]):
            fails.append(("grid", f"non-integer time {m[TIME]!r}"))
        elif not any(m[TIME] % s == 0 for s in steps):
            fails.append(("grid", f"time {m[TIME]} of {m} not divisible by any of {steps}"))
    for m in out_real:
        if id(m) in orig_time and abs(m.time - orig_time[id(m)]) > S:
            fails.append(("displacement", f"message moved from {orig_time[id(m)]} to {m.time} (> {S})"))
    tout = [(m[TIME], m) for m in out if m[TY] != INTERNAL]
    bad = wf_violations(tout)
    if bad:
        fails.append(("wf", f"notes not well-formed after quantise: {bad[:3]}"))
    else:
        for (c, p, on, off, v) in notes_of(tout):
            if not off > on:
                fails.append(("wf", f"note ({c},{p}) has duration {off - on}"))
    tin, _ = abs_timed(a)
    cnt_in = sorted((m[TY], m[CH]) + tuple(-1 if x is None else x for x in m[VEL:]) for t, m in tin if m[TY] not in (ON, OFF))
    cnt_out = sorted((m[TY], m[CH]) + tuple(-1 if x is None else x for x in m[VEL:]) for t, m in tout if m[TY] not in (ON, OFF))
    if cnt_in != cnt_out:
        fails.append(("others-kept", "a non-note event was lost or invented"))
    # survival of isolated notes
    notes_in = notes_of(tin)
    surv = {}
    for m in out_real:
        if id(m) in orig_time and m.message_type.value == "note_on":
            surv[id(m)] = m
    on_msgs = {}
    for m, pmsg in zip(real, a):
        if pmsg[TY] == ON:
            on_msgs[(pmsg[CH], pmsg[NOTE], orig_time[id(m)])] = m
    for (c, p, on, off, v) in notes_in:
        others = [x for x in notes_in if x[0] == c and x[1] == p and x != (c, p, on, off, v)]
        if any(abs(x[2] - off) < 2 * S or abs(on - x[3]) < 2 * S or abs(x[2] - on) < 2 * S for x in others):
            continue
        mobj = on_msgs.get((c, p, on))
        cand_on = candidates(on, steps)
        dmin = min(abs(q - on) for q in cand_on)
        best_on = [q for q in cand_on if abs(q - on) == dmin]
        cand_off = candidates(off, steps)
        can = [any(q2 > q for q2 in cand_off) for q in best_on]
        survived = mobj is not None and id(mobj) in surv
        if survived:
            m = surv[id(mobj)]
            if (m.channel, m.note, m.velocity) != (c, p, v):
                fails.append(("survival", f"survivor changed pitch/channel/velocity: {(m.channel, m.note, m.velocity)} vs {(c, p, v)}"))
        elif all(can):
            fails.append(("survival", f"isolated note ({c},{p},{on},{off}) dropped although a grid position for its end exists after its quantised start"))
    return fails


def setup(ctx):
    ctx.oracle("quantise", o_quantise)


def generate(ctx):
    rng = ctx.rng
    for i in range(ctx.n(400, 15000)):
        a, notes = G.gen_wf_abs(rng, channels=(0, 1, 2))
        steps = gen_steps(rng)
        ctx.case((a, steps), len(notes) >= 2 or any(n[3] < max(steps) for n in notes))
        ctx.count("notes:%d" % min(len(notes), 6))
        if len({(n[1]) for n in notes}) < len({(n[0], n[1]) for n in notes}):
            ctx.count("same-pitch-on-two-channels")
        ctx.check("quantise", {"abs": a, "steps": steps})
        if i % 3 == 0:
            ctx.count("object-with-a-past")
            ctx.check("quantise", {"abs": a, "steps": steps, "rerun": rng.choice([1, 1, 2, 5])})
        ctx.corr("quantise", P.op_quantise(steps, a))
        ctx.sample({"abs": a, "steps": steps})
    if ctx.thorough:
        # small-scope exhaustive: <=3 notes x 2 channels x 2 pitches on ticks 0..8, steps {2,3,4}
        import itertools
        slots = [(c, p, on, d) for c in (0, 1) for p in (60, 61) for on in range(0, 8) for d in (1, 2, 3)]
        n = 0
        for k in (1, 2):
            for combo in itertools.combinations(slots, k):
                ns = [(c, p, on, d, 64) for (c, p, on, d) in combo]
                if any(x[0] == y[0] and x[1] == y[1] and not (x[2] + x[3] <= y[2] or y[2] + y[3] <= x[2])
                       for x in ns for y in ns if x is not y):
                    continue
                n += 1
                if n % 7:
                    continue
                a = G.notes_to_abs(ns)
                for steps in ([2], [3], [4], [2, 3]):
                    ctx.case((a, steps), True)
                    ctx.check("quantise", {"abs": a, "steps": steps})
                    ctx.corr("quantise", P.op_quantise(steps, a))
        ctx.count("small-scope", n)
