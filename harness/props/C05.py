"""C05 — quantise puts every event on the grid and keeps every note well-formed."""
import json

import gens as G
import h4seq_util as U
import h9b_util as HB
import pyimpl as P
from oracle_util import *  # noqa
from protocol import from_real, to_real

ID = "C05"
LEAN_MODULE = ["SCoda.Props.C05", "SCoda.Props.C05b", "SCoda.Props.C05s", "SCoda.Props.Strong589Q", "SCoda.Props.WrapTie", "SCoda.Props.AbsTie2", "SCoda.Props.UtilTie", "SCoda.Props.SortTie"]
LEVEL = "proof"
CLAUSES = [
    ("every remaining event lies on a tick divisible by at least one step size; quantise never fails on well-formed input",
     ["SCoda.C05.on_grid", "SCoda.C05.total", "SCoda.C05.candidates_spec", "SCoda.C05.fmd_spec"]),
    ("every remaining message is an input message that moved by at most the largest step size, everything else about it unchanged (so survivors keep pitch, channel, velocity)",
     ["SCoda.C05.displacement"]),
    ("notes pair one-to-one per (channel, pitch) — the output is well-formed and time-sorted, so same-key notes do not overlap — with positive duration, "
     "including the same pitch on several channels", ["SCoda.C05.wf_out", "SCoda.C05.positive_durations", "SCoda.C05.sorted_out"]),
    ("non-note events are all kept", ["SCoda.C05.others_kept"]),
    ("NO DUPLICATION (audit A14): the output is, up to order, a sublist of the input with only `time` changed, each by at most the largest step — so no message is invented "
     "or doubled (length, note count and multiset bounds follow); notes of one channel and pitch do not overlap (`notesOf` pairwise: off <= next on); well-formedness of "
     "the input is necessary (for [on@0, on@8] a note-off is fabricated, model and implementation alike)",
     ["SCoda.Strong589.notes_injective", "SCoda.Strong589.length_le", "SCoda.Strong589.note_count_le", "SCoda.Strong589.multiset_le", "SCoda.Strong589.no_overlap", "SCoda.Strong589.dropped_of_lt'"]),
    ("STORED ORDER (finding D41, repaired): AbsoluteSequence.quantise begins with normalise_absolute(), so it is the walk `SCoda.quantise` (Model/Quantise.lean, what the clauses "
     "above are proved of) applied to the CANONICAL order of the stored messages: model `quantiseS steps a = quantise steps (sortAbs a)` (Model/QuantiseS.lean). Every clause above "
     "is restated and proved of `quantiseS` with its hypotheses on the canonical order `sortAbs a` — well-formedness is asked of the sorted events, never of the order in which the "
     "messages of one tick happen to be stored (add_absolute_message is an insort by time only): grid, totality, per-message displacement, well-formed output with positive "
     "durations, non-note events kept, no duplication / no invented message (the result is a sublist of the canonical order re-timed by at most the largest step each), no overlap, "
     "survival and removal of isolated notes. The recorded D41 input (on@0, on@50, off@50, off@100 of one key, steps [4]) satisfies these hypotheses although its stored order is not "
     "well-formed, and the repaired function keeps its second note [48,100) (kernel-evaluated); NEGATIVE CONTROL: the same statement about the unrepaired function (the walk over the "
     "stored order) is refuted by that input — a note-off is fabricated and the second note ends at 52",
     ["SCoda.C05s.total", "SCoda.C05s.on_grid", "SCoda.C05s.sorted_out", "SCoda.C05s.displacement", "SCoda.C05s.others_kept", "SCoda.C05s.wf_out", "SCoda.C05s.positive_durations",
      "SCoda.C05s.survives_partial", "SCoda.C05s.survives_of_lt", "SCoda.C05s.dropped_partial", "SCoda.C05s.dropped_of_lt", "SCoda.C05s.survives_statement_false",
      "SCoda.C05s.dropped_statement_false", "SCoda.C05s.notes_injective", "SCoda.C05s.length_le", "SCoda.C05s.note_count_le", "SCoda.C05s.multiset_le", "SCoda.C05s.no_overlap",
      "SCoda.C05s.d41_hyps", "SCoda.C05s.d41_quantiseS", "SCoda.C05s.d41_quantise_stored", "SCoda.C05s.quantise_stored_order_statement_false"]),
    ("TIE BY TRANSLATION: Sequence.quantise / quantise_and_normalise (absolute view, quantise, invalidate; the three calls in order) as re-translated from the source equal the "
     "wrapper model (whose quantise step is `quantiseS`); AbsoluteSequence.quantise itself is tied by translation below and by correspondence",
     ["SCoda.WrapTie.quantise_eq", "SCoda.WrapTie.quantiseAndNormalise_eq"]),
    ("an isolated note (of positive length) survives at the nearest grid position of its onset with a strictly later end whenever some grid position of "
     "its end lies after its quantised start, and is dropped only otherwise (the statement that does not tie the note-off to its note-on is refuted)",
     ["SCoda.C05.survives_of_lt", "SCoda.C05.dropped_of_lt", "SCoda.C05.survives_partial", "SCoda.C05.dropped_partial",
      "SCoda.C05.survives_statement_false", "SCoda.C05.dropped_statement_false"]),
    ("TIE BY TRANSLATION, absolute view with object identity: the dict-heavy / aliasing methods of AbsoluteSequence are re-translated statement by statement on every run (Gen/AbsFns2.lean, tools/py2lean_abs2.py: Message objects live in a heap, a reference is a position tag, stores through any alias update the heap cell, dicts are insertion-ordered association lists, while loops carry proved fuel bounds) and proved equal to the hand models, for every heap and reference list with references into the heap and channels not None: quantise (normalise_absolute() first, then the walk) = the model quantiseS — same messages or the same error (KeyError / IndexError cases included) — for pairwise distinct objects and positive step sizes (step 0 raises ZeroDivisionError in the code and the translation, the model returns []: replayed); find_minimal_distance = the model's, no hypothesis",
     ["SCoda.AbsTie2.quantise_eq", "SCoda.AbsTie2.quantise_init", "SCoda.AbsTie2.findMinimalDistance_eq", "SCoda.AbsTie2.pairings_eq", "SCoda.AbsTie2.pairings_init"]),
    ("TIE BY TRANSLATION, numeric helpers: scoda/misc/util.py is re-translated statement by statement on every run (Gen/UtilFns.lean, tools/py2lean_util.py: one operator of the PyNum int/float tower per Python operator — floats as exact rationals, no rounding modelled —, range/enumerate/zip/comprehensions, while with proved fuel, numpy.digitize(right=True) modelled explicitly) and tied to the hand models and to the dumped tables: find_minimal_distance = the model's for all integer inputs, and meets its independent specification: the index is in range, no element is closer, and it is the FIRST such index",
     ["SCoda.UtilTie.findMinimalDistance_eq", "SCoda.UtilTie.findMinimalDistance_spec", "SCoda.UtilTie.getDefaultStepSizes_of_py", "SCoda.UtilTie.default_tables_from_source"]),
    ("TIE BY TRANSLATION of the sort that every absolute-view operation goes through: AbsoluteSequence.sort (its list.sort call and the key lambda (time, -1 if channel is None else channel, message_type, note)), MessageType.__lt__ and the declaration order of the enum members are re-translated expression by expression on every run (Gen/SortFns.lean, tools/py2lean_sort.py; Python's == and < on None / int / enum members, tuple comparison, list.index and list.sort are the language model Model/SortLib.lean) and proved equal to the hand model: on every message list whose keys Python can compare (the times are all None or all ints; two messages equal in (time, channel, type) have both notes None or both ints) the translated sort returns exactly sortAbs l, through any projection (heap references, tagged messages); outside that domain it raises TypeError, as the real code does (replayed: a NOTE_ON with a note and a hand-built NOTE_ON without one on the same tick and channel; a message without a time in a timed sequence; two TIME_SIGNATUREs on one tick and channel are inside the domain); keyLe a b holds iff key(b) < key(a) is False; Python's key order is a strict weak order on the domain and ANY stable sort by it (a permutation that is sorted and keeps the relative order of equal keys) is sortAbs l — modelling CPython's timsort by an insertion sort is a theorem, the one assumption left is that list.sort is a stable comparison sort. This discharges the list.sort links of tools/py2lean.py (sort -> sortAbs) and tools/py2lean_abs2.py (sortRefs), which until now were only fingerprinted (tools/conventions.py)",
     ["SCoda.SortTie.sort_eq", "SCoda.SortTie.sortOf_eq_isort", "SCoda.SortTie.sort_raises", "SCoda.SortTie.sortOf_raises", "SCoda.SortTie.sort_ok_iff", "SCoda.SortTie.keyLe_iff", "SCoda.SortTie.keyLt_eq", "SCoda.SortTie.keyLt_ok_iff_comparable", "SCoda.SortTie.messageTypeLt_eq", "SCoda.SortTie.messageTypeLt_nonmember", "SCoda.SortTie.members_eq", "SCoda.SortTie.memberNames_eq", "SCoda.SortTie.generated_order_strictWeakOrder", "SCoda.SortTie.any_stable_sort_eq_sortAbs", "SCoda.SortTie.stable_sort_is_isortBy", "SCoda.SortTie.isortBy_is_stable_sort", "SCoda.SortTie.sortDom_of_wellFormed", "SCoda.SortTie.sortRefs_discharged", "SCoda.SortTie.viewSort_discharged", "SCoda.SortTie.sort_eq_statement_false", "SCoda.SortTie.keyLe_iff_statement_false"]),
]
RULE = ("well-formed multi-channel note sets (<=8 notes, 3 channels, ticks<200, 30% very short notes, abutting notes) with "
        "non-note events x step lists from the defaults and {2,3,4,5,7,12,16,24}; 35% with the messages of each tick stored in random order (as "
        "add_absolute_message leaves them); a quarter also through Sequence.quantise from every wrapper state, half of those without a step list; "
        "every second case also a HISTORY of 2-3 calls sharing one caller-owned step list that the caller edits in place in between (set / append / insert / "
        "pop / sort / reverse / clear-and-refill), handed over as the same object, as an equal fresh list or not at all, through AbsoluteSequence.quantise, "
        "Sequence.quantise and quantise_and_normalise, on a copy of the earlier data, on a piece sharing notes and ticks with it, on the same object again or on an "
        "unrelated piece: every call judged for the list as it read at that call; "
        "non-trivial = at least two notes or a note shorter than the largest step")
ASSUMPTIONS = ["model: SCoda.quantiseS (Model/QuantiseS.lean: sortAbs, then SCoda.quantise of Model/Quantise.lean), tied by translation (AbsTie2.quantise_eq) and by "
               "correspondence on the same inputs, 35 % of them with the messages of a tick stored in random order"]
STEP_LISTS = [[24, 12, 6, 16, 8, 4], [12], [4], [2, 3], [5, 7], [16, 24], [3], [24], [6, 4], [7], [2],
              [8, 8, 12], [6, 4, 6, 9], [12, 12], [4, 6, 4], [9, 6, 9, 4]]      # duplicates, unsorted


def gen_steps(rng):
    """a listed step list, or (30 %) a random one: 1-5 values from 2..24, duplicates and any order allowed"""
    if rng.random() < 0.3:
        pool = [2, 3, 4, 5, 6, 7, 8, 9, 12, 16, 18, 24]
        return [rng.choice(pool) for _ in range(rng.randint(1, 5))]
    return rng.choice(STEP_LISTS)


def candidates(t, steps):
    return [(t // s) * s for s in steps] + [(t // s) * s + s for s in steps]


def o_quantise(inp):
    a = [tuple(m) for m in inp["abs"]]
    # `steps: None` = the call without a step list (only through the wrapper variant): judged against the library's documented defaults,
    # written down in the harness (gens.DEFAULT_STEPS), not read from the code
    steps = list(G.DEFAULT_STEPS) if inp["steps"] is None else list(inp["steps"])
    if not steps or any(s <= 0 for s in steps):
        return [("~skip:bad-steps", "")]
    # the property is about well-formed sequences: judged on the canonical order of the same timed events.  The messages of one tick may be
    # STORED in any order (add_absolute_message is an insort by time only; before the repair of D41 quantise walked the stored order, since then it
    # sorts first): such inputs are judged too (audit O12)
    canon = sorted(a, key=lambda m: (m[2], m[1], m[0], -1 if m[3] is None else m[3]))
    pre, _ = abs_timed(canon)
    if wf_violations(pre) or any(on >= off for (_, _, on, off, _) in notes_of(pre)) or [m[2] for m in a] != [m[2] for m in canon]:
        return [("~skip:not-well-formed-sorted", "")]
    S = max(steps)
    real = [to_real(m) for m in a]
    orig_time = {id(m): m.time for m in real}
    from scoda.sequences.absolute_sequence import AbsoluteSequence
    seq = AbsoluteSequence(messages=real)
    wrapper = None
    if inp.get("state"):
        # Sequence.quantise through the wrapper, from one of its freshness states (built from the harness's own relative rendering of the
        # canonical list): the message objects judged are those of the absolute view quantise is about to work on
        wrapper = P.seq_in_state(G.abs_to_rel(canon), inp["state"])
        real = list(wrapper.abs._messages)
        a = [from_real(m) for m in real]
        if U.content_abs(a) != U.content_abs(canon):
            return [("input-not-held", f"a Sequence built in state '{inp['state']}' does not show the generated events and duration")]
        canon = sorted(a, key=lambda m: (m[2], m[1], m[0], -1 if m[3] is None else m[3]))
        pre, _ = abs_timed(canon)
        orig_time = {id(m): m.time for m in real}

        class _W:          # same two-method surface as the bare view below
            _messages = property(lambda self_: wrapper.abs._messages)

            def quantise(self_, st):
                wrapper.quantise(None if inp["steps"] is None else st)
        seq = _W()
    if inp.get("rerun"):
        # the same object was quantised before (same step list) and its ticks were then edited in place, as the iterators allow:
        # judged against the content it has now
        try:
            seq.quantise(list(steps))
        except Exception:
            return [("~skip:first-quantise-raised", "")]
        for m in seq._messages:
            m.time += inp["rerun"]
        real = list(seq._messages)
        a = [from_real(m) for m in real]
        canon = sorted(a, key=lambda m: (m[2], m[1], m[0], -1 if m[3] is None else m[3]))
        pre, _ = abs_timed(canon)
        if wf_violations(pre) or any(on >= off for (_, _, on, off, _) in notes_of(pre)):
            return [("~skip:not-well-formed-sorted", "")]
        orig_time = {id(m): m.time for m in real}
    try:
        seq.quantise(list(steps))
    except Exception as e:
        return [("raises", f"quantise raised {type(e).__name__}: {e}")]
    return judge(steps, real, a, pre, orig_time, seq._messages, None if wrapper is None else wrapper.rel._messages)


def judge(steps, real, a, pre, orig_time, out_real, rel_view=None, qan=False):
    """the property's clauses for ONE call, from plain data: `steps` the step list the call was given (as it read at the time of the call), `real` / `a`
    the message objects / plain messages before the call, `pre` their canonical timed form, `orig_time` tick of every object before the call,
    `out_real` the objects of the absolute view after it.  `qan`: the call was quantise_and_normalise — the note-length pass that follows
    quantise moves note ends to the allowed values and may remove notes (property C06) and normalise drops repeated signatures: only what
    that leaves of C05 is judged (note-ons and non-note events on the grid and moved by at most the largest step, well-formed notes, every
    note of the result an input note whose START moved by at most the largest step, no non-note event invented)"""
    S = max(steps)
    out = [from_real(m) for m in out_real]
    fails = []
    if rel_view is not None:
        fails.extend(("views", d) for _, d in U.views_disagree(out, [from_real(m) for m in rel_view]))
    for m in out:
        if not is_int(m[TIME]):
            fails.append(("grid", f"non-integer time {m[TIME]!r}"))
        elif not any(m[TIME] % s == 0 for s in steps) and not (qan and m[TY] in (OFF, INTERNAL)):
            fails.append(("grid", f"time {m[TIME]} of {m} not divisible by any of {steps}"))
    for m in out_real:
        if qan and from_real(m)[TY] in (OFF, INTERNAL):
            continue
        if id(m) in orig_time and abs(m.time - orig_time[id(m)]) > S:
            fails.append(("displacement", f"message moved from {orig_time[id(m)]} to {m.time} (> {S})"))
    tout = [(m[TIME], m) for m in out if m[TY] != INTERNAL]
    bad = wf_violations(tout)
    if bad:
        fails.append(("wf", f"notes not well-formed after quantise: {bad[:3]}"))
    else:
        for (c, p, on, off, v) in notes_of(tout):
            if not off > on:
                fails.append(("wf", f"note ({c},{p}) has duration {off - on}"))
    tin = pre
    # the same at the level of notes (the sounding result): every note of the result is an input note of its channel, pitch and velocity whose
    # start AND end moved by at most the largest step — each input note used at most once
    if not bad:
        nin, nout = notes_of(tin), notes_of(tout)
        for key in sorted({(n[0], n[1]) for n in nout}):
            ins = sorted((n[2], n[3], n[4]) for n in nin if (n[0], n[1]) == key)
            outs = sorted((n[2], n[3], n[4]) for n in nout if (n[0], n[1]) == key)
            fit = lambda o, i_: o[2] == i_[2] and abs(o[0] - i_[0]) <= S and (qan or abs(o[1] - i_[1]) <= S)  # noqa
            # order-preserving injection of the result's notes into the input's notes of that key (notes of one key are disjoint in time)
            reach = [set() for _ in range(len(outs) + 1)]
            reach[0] = {0}
            for oi, o in enumerate(outs):
                for j0 in reach[oi]:
                    for j in range(j0, len(ins)):
                        if fit(o, ins[j]):
                            reach[oi + 1].add(j + 1)
                if not reach[oi + 1]:
                    fails.append(("note-displacement", f"note {key} [{o[0]},{o[1]}) vel {o[2]} of the result is no input note moved by at most {S} at either end "
                                                       f"(each input note used once, in order); input notes of that key: {ins}, result: {outs}"
                                  + OBS + json.dumps({"key": list(key), "note": list(o), "input_notes": ins, "result_notes": outs})))
                    break
    cnt_in = sorted((m[TY], m[CH]) + tuple(-1 if x is None else x for x in m[VEL:]) for t, m in tin if m[TY] not in (ON, OFF))
    cnt_out = sorted((m[TY], m[CH]) + tuple(-1 if x is None else x for x in m[VEL:]) for t, m in tout if m[TY] not in (ON, OFF))
    if qan:
        rest = list(cnt_in)
        for e in cnt_out:
            if e in rest:
                rest.remove(e)
            else:
                fails.append(("others-kept", f"a non-note event was invented: {e}"))
                break
        return fails
    if cnt_in != cnt_out:
        fails.append(("others-kept", "a non-note event was lost or invented"))
    # survival of isolated notes
    notes_in = notes_of(tin)
    surv = {}
    for m in out_real:
        if id(m) in orig_time and m.message_type.value == "note_on":
            surv[id(m)] = m
    on_msgs = {}
    for m, pmsg in zip(real, a):
        if pmsg[TY] == ON:
            on_msgs[(pmsg[CH], pmsg[NOTE], orig_time[id(m)])] = m
    for (c, p, on, off, v) in notes_in:
        others = [x for x in notes_in if x[0] == c and x[1] == p and x != (c, p, on, off, v)]
        if any(abs(x[2] - off) < 2 * S or abs(on - x[3]) < 2 * S or abs(x[2] - on) < 2 * S for x in others):
            continue
        mobj = on_msgs.get((c, p, on))
        cand_on = candidates(on, steps)
        dmin = min(abs(q - on) for q in cand_on)
        best_on = [q for q in cand_on if abs(q - on) == dmin]
        cand_off = candidates(off, steps)
        can = [any(q2 > q for q2 in cand_off) for q in best_on]
        survived = mobj is not None and id(mobj) in surv
        if survived:
            m = surv[id(mobj)]
            if (m.channel, m.note, m.velocity) != (c, p, v):
                fails.append(("survival", f"survivor changed pitch/channel/velocity: {(m.channel, m.note, m.velocity)} vs {(c, p, v)}"))
        elif all(can):
            fails.append(("survival", f"isolated note ({c},{p},{on},{off}) dropped although a grid position for its end exists after its quantised start"))
    return fails


_CANON = lambda m: (m[2], m[1], m[0], -1 if m[3] is None else m[3])  # noqa


def o_history(inp):
    """HISTORY OF CALLS WITH ONE CALLER-OWNED STEP LIST (seeded change C05 of round 9: candidates memoised at module level, the memo keyed by a
    reference to the caller's list).  `list`: the content the caller's list starts with; `calls`: for each call, in order — `edits` the caller
    makes to its list IN PLACE before the call (plain data, HB.apply_list_edits), `pass`: the call gets that very list object ("same-object"),
    a fresh list with the content it has by then ("equal-copy") or no list ("none": the defaults); `via`: AbsoluteSequence.quantise ("abs"),
    Sequence.quantise ("seq", from wrapper state `state`) or Sequence.quantise_and_normalise ("qan"); the sequence is built from `abs` (a new
    object), or `on`: k = the object call k worked on is quantised again as it is now (an AbsoluteSequence optionally after `shift` was added
    to every tick in place).  EVERY call is judged (judge) against the content the list has AT THE TIME OF THAT CALL, kept by the harness in
    a list of its own; the library must not change the caller's list."""
    from scoda.sequences.absolute_sequence import AbsoluteSequence
    caller = list(inp["list"])          # the caller's list object
    mine = list(inp["list"])            # what it must read, by the harness's own bookkeeping
    objs = []
    try:
        for ci, call in enumerate(inp["calls"]):
            HB.apply_list_edits(caller, call.get("edits") or [])
            HB.apply_list_edits(mine, call.get("edits") or [])
            how = call.get("pass") or "same-object"
            steps = list(G.DEFAULT_STEPS) if how == "none" else list(mine)
            if not steps or any(not is_int(x) or x <= 0 for x in steps):
                return [("~skip:bad-steps", "")]
            arg = None if how == "none" else caller if how == "same-object" else list(mine)
            via = call.get("via") or "abs"
            k = call.get("on")
            if k is not None and 0 <= k < len(objs):
                kind, obj = objs[k]
                via = "abs" if kind == "abs" else ("seq" if via == "abs" else via)
                if kind == "abs" and call.get("shift"):
                    for m in obj._messages:
                        m.time += call["shift"]
                objs.append((kind, obj))            # objs[i] = the object call i worked on
            elif "abs" in call:
                a0 = [tuple(m) for m in call["abs"]]
                if [m[2] for m in a0] != [m[2] for m in sorted(a0, key=_CANON)]:
                    return [("~skip:not-time-sorted", "")]
                if via == "abs":
                    kind, obj = "abs", AbsoluteSequence(messages=[to_real(m) for m in a0])
                else:
                    kind, obj = "seq", P.seq_in_state(G.abs_to_rel(sorted(a0, key=_CANON)), call.get("state") or "rel")
                    if U.content_abs([from_real(m) for m in obj.abs._messages]) != U.content_abs(sorted(a0, key=_CANON)):
                        return [("input-not-held", f"call {ci}: a Sequence built in state '{call.get('state')}' does not show the generated events and duration")]
                objs.append((kind, obj))
            else:
                return [("~skip:call-without-a-sequence", "")]
            # the content the call works on, read off the object (private list of the absolute view; nothing is computed by the library here
            # beyond the wrapper handing out its absolute view, which is what quantise itself starts with)
            real = list(obj._messages if kind == "abs" else obj.abs._messages)
            a = [from_real(m) for m in real]
            canon = sorted(a, key=_CANON)
            pre, _ = abs_timed(canon)
            if wf_violations(pre) or any(on >= off for (_, _, on, off, _) in notes_of(pre)) or any(not is_int(m[2]) for m in a):
                return [("~skip:not-well-formed-sorted", "")]
            orig_time = {id(m): m.time for m in real}
            try:
                if via == "abs":
                    obj.quantise(arg)
                elif via == "seq":
                    obj.quantise(arg)
                else:
                    obj.quantise_and_normalise(arg)
            except Exception as e:
                return [("raises", f"call {ci} ({via}, step list {steps}): {type(e).__name__}: {e}")]
            if caller != mine or (how == "equal-copy" and arg != mine):
                return [("argument", f"call {ci} ({via}): the list handed in read {mine} and reads {caller if caller != mine else arg} after the call")]
            out_real = obj._messages if kind == "abs" else obj.abs._messages
            fails = judge(steps, real, a, pre, orig_time, out_real, None if kind == "abs" else obj.rel._messages, qan=(via == "qan"))
            if fails:
                return [(c, f"call {ci} of the history ({via}, step list {steps} at that time, passed as {how}): {d}") for c, d in fails]
        return []
    finally:
        # the last call of every history hands over a list nobody edits afterwards: whatever a later case of this process is given, no list of
        # THIS history is still referenced as "the grid asked for last" (keeps every reported input self-contained)
        try:
            AbsoluteSequence(messages=[to_real(G.pm(CC, 0, 0, vel=0, ctl=7))]).quantise([1])
        except Exception:
            pass


def gen_calls(rng):
    """a history for o_history: 2-3 calls, the caller's list edited in place between them, later sequences sharing ticks with earlier ones.
    Returns (input, labels)"""
    labels = []
    first = list(gen_steps(rng))
    a1, notes1 = G.gen_wf_abs(rng, channels=(0, 1, 2))
    vias = ["abs", "abs", "seq", "qan"]
    calls = [{"abs": a1, "via": rng.choice(vias), "state": rng.choice(P.SEQ_STATES), "edits": [], "pass": "same-object" if rng.random() < 0.85 else "equal-copy"}]
    cur = list(first)
    seen = {m[2] for m in a1}
    prev_notes, prev_a = notes1, a1
    for ci in range(1, rng.choice([2, 2, 2, 3])):
        edits = HB.gen_list_edits(rng, cur)
        before = set(cur)
        HB.apply_list_edits(cur, edits)
        labels.extend("edit:" + e[0] for e in edits)
        if not edits:
            labels.append("edit:none")
        labels.append("grid-changed" if set(cur) != before else "grid-unchanged")
        call = {"edits": edits, "via": rng.choice(vias), "state": rng.choice(P.SEQ_STATES),
                "pass": rng.choice(["same-object", "same-object", "same-object", "equal-copy", "equal-copy", "none"])}
        r = rng.random()
        if r < 0.35:
            call["abs"] = [tuple(m) for m in prev_a]                  # a fresh object with the same data as an earlier call's input
            labels.append("sequence:copy-of-earlier-data")
        elif r < 0.75:
            # another piece that shares notes / ticks with the earlier one: some of its notes (some on another channel or pitch), new notes around them
            keep = [n for n in prev_notes if rng.random() < 0.6]
            keep = [(rng.choice([0, 1, 2]), n[1], n[2], n[3], n[4]) if rng.random() < 0.3 else n for n in keep]
            new = G.gen_notes(rng, n_notes=rng.randint(0, 4), channels=(0, 1, 2))
            ns = []
            for n in keep + new:
                if not any(x[0] == n[0] and x[1] == n[1] and not (n[2] + n[3] <= x[2] or x[2] + x[3] <= n[2]) for x in ns):
                    ns.append(n)
            extras = [m for m in prev_a if m[0] not in (ON, OFF, INTERNAL) and rng.random() < 0.6] + G.gen_extras(rng, n=rng.choice([0, 1]), channels=(0, 1))
            call["abs"] = G.notes_to_abs(ns, extras, None if rng.random() < 0.5 else max([n[2] + n[3] for n in ns] + [m[2] for m in extras] + [0]) + rng.choice([0, 7]))
            prev_notes = ns
            labels.append("sequence:shares-notes-with-earlier")
        elif r < 0.9:
            call["on"] = rng.randrange(len(calls))
            if rng.random() < 0.5:
                call["shift"] = rng.choice([1, 2, 5])
            labels.append("sequence:same-object-again")
        else:
            call["abs"], prev_notes = G.gen_wf_abs(rng, channels=(0, 1, 2))
            labels.append("sequence:unrelated")
        if "abs" in call:
            if rng.random() < 0.3:
                call["abs"] = G.shuffle_ties(rng, call["abs"])
            labels.append("shares-ticks-with-earlier-calls" if any(m[2] in seen for m in call["abs"]) else "no-shared-tick")
            seen |= {m[2] for m in call["abs"]}
            prev_a = sorted(call["abs"], key=_CANON)
        labels.append("pass:" + call["pass"])
        labels.append("via:" + call["via"])
        calls.append(call)
    return {"list": first, "calls": calls}, labels


OBS = " ## observed="
# notes 60 [0,50) and [50,100) entered as on@0, on@50, off@50, off@100 (add_absolute_message keeps that order); quantise([4])
D41_EXAMPLE = {"abs": [G.pm(ON, 0, 0, note=60, vel=64), G.pm(ON, 0, 50, note=60, vel=70), G.pm(OFF, 0, 50, note=60), G.pm(OFF, 0, 100, note=60)], "steps": [4]}


def on_before_off_ticks(a):
    """(channel, pitch, tick) where the stored list has a note-on of a key BEFORE a note-off of the same key on the same tick"""
    hits = set()
    for i, m in enumerate(a):
        if m[TY] == ON:
            for n in a[i + 1:]:
                if n[TIME] != m[TIME]:
                    break
                if n[TY] == OFF and (n[CH], n[NOTE]) == (m[CH], m[NOTE]):
                    hits.add((m[CH], m[NOTE], m[TIME]))
    return hits


def setup(ctx):
    ctx.oracle("quantise", o_quantise)
    ctx.oracle("history", o_history)

    def kf_d41(f):
        # (finding D41, repaired by fix_D41.diff; the predicate stays for source trees without the repair)
        # two abutting notes of one key whose shared tick is STORED note-on before note-off: the unrepaired quantise (which walks the stored order
        # and does not sort first) closes the first note where the second begins and then takes the first note's note-off for the second note's end.  Known
        # only for the note-level clause, only for a key and tick stored that way, and only when the OUTCOME is that: the failing note of the
        # result has the velocity of the input note starting on that tick, starts within a step of it and ENDS within a step of it too
        if f["oracle"] != "quantise" or f["clause"] != "note-displacement" or OBS not in (f.get("detail") or ""):
            return False
        obs = json.loads(f["detail"].split(OBS, 1)[1])
        inp = f["input"]
        S = max(inp["steps"] or G.DEFAULT_STEPS)
        a = [tuple(m) for m in inp["abs"]]
        on_, off_, vel = obs["note"]
        for (c, p, t) in on_before_off_ticks(a):
            if [c, p] == obs["key"] and abs(on_ - t) <= S and abs(off_ - t) <= S and any(n[0] == t and n[2] == vel for n in obs["input_notes"]):
                return True
        return False
    ctx.kf_predicates["D41"] = kf_d41


def generate(ctx):
    rng = ctx.rng
    ctx.check("quantise", D41_EXAMPLE)      # regression input: the recorded instance of finding D41 (repaired: fix_D41.diff); on a source without the repair
    #                                           it fails 'note-displacement' and is recognised as D41 by kf_d41 above
    ctx.corr("quantise", P.op_quantise(D41_EXAMPLE["steps"], D41_EXAMPLE["abs"]))     # … and model = implementation on it (Lean: C05s.d41_quantiseS)
    for i in range(ctx.n(400, 15000)):
        a, notes = G.gen_wf_abs(rng, channels=(0, 1, 2))
        steps = gen_steps(rng)
        if notes and rng.random() < 0.3:
            # non-note events ON the tick (and channel) where a note starts or ends: ties between notes and other events
            for _ in range(rng.randint(1, 2)):
                nt = rng.choice(notes)
                t = rng.choice([nt[2], nt[2] + nt[3]])
                a.append(rng.choice([G.pm(CC, nt[0], t, vel=rng.choice([0, 64]), ctl=7), G.pm(PC, nt[0], t, prog=rng.randrange(8)),
                                     G.pm(KEYSIG, nt[0], t, key=rng.randrange(15))]))
            a.sort(key=lambda m: (m[2], m[1], m[0], -1 if m[3] is None else m[3]))
            ctx.count("non-note-event-on-a-note-boundary")
        if rng.random() < 0.35:
            a = G.shuffle_ties(rng, a)       # entered in another order: the messages of one tick are not stored in canonical order
            ctx.count("abs:ties-shuffled")
            if on_before_off_ticks(a):
                ctx.count("abs:ties-shuffled:note-on-stored-before-note-off-of-its-key")
        ctx.case((a, steps), len(notes) >= 2 or any(n[3] < max(steps) for n in notes))
        ctx.count("notes:%d" % min(len(notes), 6))
        if len({(n[1]) for n in notes}) < len({(n[0], n[1]) for n in notes}):
            ctx.count("same-pitch-on-two-channels")
        ctx.check("quantise", {"abs": a, "steps": steps})
        if i % 3 == 0:
            ctx.count("object-with-a-past")
            ctx.check("quantise", {"abs": a, "steps": steps, "rerun": rng.choice([1, 1, 2, 5])})
        if i % 4 == 1:
            # through the Sequence wrapper from any of its states; every other time without a step list (the defaults)
            ctx.count("wrapper-states")
            ctx.check("quantise", {"abs": a, "steps": None if i % 8 == 1 else steps, "state": rng.choice(P.SEQ_STATES)})
        if i % 2 == 0:
            # two or three calls sharing one caller-owned step list that the caller edits in place in between (seeded change C05, round 9)
            hist, labels = gen_calls(rng)
            for lab in labels:
                ctx.count("history:" + lab)
            ctx.check("history", hist)
        ctx.corr("quantise", P.op_quantise(steps, a))
        ctx.sample({"abs": a, "steps": steps})
    if ctx.thorough:
        # small-scope exhaustive: <=3 notes x 2 channels x 2 pitches on ticks 0..8, steps {2,3,4}
        import itertools
        slots = [(c, p, on, d) for c in (0, 1) for p in (60, 61) for on in range(0, 8) for d in (1, 2, 3)]
        n = 0
        for k in (1, 2):
            for combo in itertools.combinations(slots, k):
                ns = [(c, p, on, d, 64) for (c, p, on, d) in combo]
                if any(x[0] == y[0] and x[1] == y[1] and not (x[2] + x[3] <= y[2] or y[2] + y[3] <= x[2])
                       for x in ns for y in ns if x is not y):
                    continue
                n += 1
                if n % 7:
                    continue
                a = G.notes_to_abs(ns)
                for steps in ([2], [3], [4], [2, 3]):
                    ctx.case((a, steps), True)
                    ctx.check("quantise", {"abs": a, "steps": steps})
                    ctx.corr("quantise", P.op_quantise(steps, a))
        ctx.count("small-scope", n)
