"""Histories for state that survives between calls (seed round 9: C17, C19, C20).

Three things live here:
  * the harness's OWN music-theory tables (plain data; nothing is read from scoda): tonic pitch class of the fifteen keys, the major scale
    pattern, the position of every pitch class on the circle of fifths (C = 0, clockwise positive, F# = +6, Db = -5);
  * an alphabet of public library calls that READ the library's music-theory tables, as plain data (`gen_theory_history`), the function that
    performs one of them on the real code (`run_theory_op`) and the exhaustive table check of C20 against the harness's own tables
    (`table_failures`);
  * `eval_fresh`: judge one oracle input in a NEW interpreter.  A change that corrupts module-level state (a table sorted or rotated in place)
    leaves the searching process disturbed for good: every later evaluation there — in particular every candidate of the shrinker — would fail
    whatever its history says.  The history oracles therefore look at the state BEFORE they enact their history (`position_state_ok`,
    `table_failures(light=True)`); when it is already disturbed they restore nothing and hand the input to a fresh interpreter, so that the
    verdict of an input depends on the input alone and the replay file reproduces under `./check Cxx --replay file`.
"""
import json
import os
import subprocess
import sys

HARNESS = os.path.dirname(os.path.abspath(__file__))
IN_CHILD = bool(os.environ.get("H9_CHILD"))

# ----------------------------------------------------------------------------- the harness's own tables
KEY_NAMES = ["C", "G", "D", "A", "E", "B", "F#", "C#", "F", "Bb", "Eb", "Ab", "Db", "Gb", "Cb"]
TONIC = {"C": 0, "G": 7, "D": 2, "A": 9, "E": 4, "B": 11, "F#": 6, "C#": 1, "F": 5, "Bb": 10, "Eb": 3, "Ab": 8, "Db": 1, "Gb": 6, "Cb": 11}
MAJOR = (0, 2, 4, 5, 7, 9, 11)
COF_POS = {(7 * k) % 12: k for k in range(-5, 7)}          # pitch class -> position; C 0, G 1, ..., F# 6, Db -5, ..., F -1


def exp_distance(a, b):
    r = (COF_POS[b % 12] - COF_POS[a % 12]) % 12
    return r if r <= 6 else r - 12


def exp_from_distance(a, d):
    return (a + 7 * d) % 12


def exp_scale(name):
    return [(TONIC[name] + s) % 12 for s in MAJOR]


# ----------------------------------------------------------------------------- library calls that read the tables
def _theory():
    from scoda.misc.music_theory import CircleOfFifths, Key, MusicMapping
    return CircleOfFifths, Key, MusicMapping


def _note_seq(pitches, lead_key=None, step=12):
    """a real Sequence: an optional leading key signature, then the pitches one after the other (relative view)"""
    from scoda.elements.message import Message
    from scoda.enumerations.message_type import MessageType
    from scoda.misc.music_theory import Key
    from scoda.sequences.sequence import Sequence
    s = Sequence()
    if lead_key is not None:
        s.add_relative_message(Message(message_type=MessageType.KEY_SIGNATURE, channel=0, key=Key(lead_key)))
    for p in pitches:
        s.add_relative_message(Message(message_type=MessageType.NOTE_ON, channel=0, note=p, velocity=64))
        s.add_relative_message(Message(message_type=MessageType.WAIT, time=step))
        s.add_relative_message(Message(message_type=MessageType.NOTE_OFF, channel=0, note=p))
    return s


_TK = {}


def _default_tokeniser():
    if "tk" not in _TK:
        from scoda.tokenisation.notelike_tokenisation import MultiTrackLargeVocabularyNotelikeTokeniser
        _TK["tk"] = MultiTrackLargeVocabularyNotelikeTokeniser(num_tracks=1)
    return _TK["tk"]


def _ok_pitches(x):
    return isinstance(x, list) and all(isinstance(p, int) and not isinstance(p, bool) and 0 <= p <= 127 for p in x)


def _is_int(x):
    return isinstance(x, int) and not isinstance(x, bool)


def run_theory_op(op):
    """perform ONE public call on the real code.  Returns the clause failures of the calls C20 speaks about (their results are compared with
    the harness's own tables); calls C20 does not speak about (key guess, get_info) are only made.  An operation the shrinker has cut into
    something that is no operation is not made."""
    CircleOfFifths, Key, MusicMapping = _theory()
    fails = []
    kind = op.get("op") if isinstance(op, dict) else None
    try:
        if kind == "distance" and _is_int(op.get("a")) and _is_int(op.get("b")):
            a, b = op["a"], op["b"]
            d = CircleOfFifths.get_distance(a, b)
            if d != exp_distance(a, b):
                fails.append(("history:cof-distance", f"get_distance({a},{b}) = {d!r}, expected {exp_distance(a, b)}"))
        elif kind == "from_distance" and _is_int(op.get("a")) and _is_int(op.get("d")):
            a, d = op["a"], op["d"]
            r = CircleOfFifths.from_distance(a, d)
            if r != exp_from_distance(a, d):
                fails.append(("history:cof-from", f"from_distance({a},{d}) = {r!r}, expected {exp_from_distance(a, d)}"))
        elif kind == "position" and _is_int(op.get("a")):
            CircleOfFifths.get_position(op["a"])
        elif kind == "transpose_key" and op.get("key") in TONIC and _is_int(op.get("by")):
            r = Key.transpose_key(Key(op["key"]), op["by"])
            want = (TONIC[op["key"]] + op["by"]) % 12
            if not isinstance(r, Key) or TONIC.get(r.value) != want:
                fails.append(("history:tonic", f"transpose_key({op['key']},{op['by']}) = {getattr(r, 'value', r)!r}, expected a key on pitch class {want}"))
        elif kind == "guess" and _ok_pitches(op.get("pitches")) and (op.get("lead") is None or op.get("lead") in TONIC):
            _note_seq(op["pitches"], op.get("lead")).rel.get_key_signature_guess()
        elif kind == "seq_transpose" and _ok_pitches(op.get("pitches")) and op.get("key") in TONIC and _is_int(op.get("by")):
            s = _note_seq(op["pitches"], op["key"])
            s.transpose(op["by"])
            keys = [m.key for m in s.rel._messages if m.message_type.value == "key_signature"]
            want = (TONIC[op["key"]] + op["by"]) % 12
            if len(keys) != 1 or not isinstance(keys[0], Key) or TONIC.get(keys[0].value) != want:
                fails.append(("history:tonic", f"Sequence.transpose({op['by']}) of a sequence in {op['key']}: key signatures {[getattr(k, 'value', k) for k in keys]}, "
                                                f"expected one on pitch class {want}"))
        elif kind == "bar_transpose" and _ok_pitches(op.get("pitches")) and op.get("key") in TONIC and _is_int(op.get("by")):
            from scoda.elements.bar import Bar
            bar = Bar(_note_seq(op["pitches"][:4]), 4, 4, key=Key(op["key"]))
            bar.transpose(op["by"])
            want = (TONIC[op["key"]] + op["by"]) % 12
            if not isinstance(bar.key_signature, Key) or TONIC.get(bar.key_signature.value) != want:
                fails.append(("history:tonic", f"Bar.transpose({op['by']}) of a bar in {op['key']}: key {getattr(bar.key_signature, 'value', bar.key_signature)!r}, "
                                                f"expected one on pitch class {want}"))
        elif kind == "get_info" and _ok_pitches(op.get("pitches")):
            tk = _default_tokeniser()
            toks = [f"trk_00-pit_{p:03d}-val_24-vel_127" for p in op["pitches"] if 21 <= p <= 108]
            tk.get_info([t for t in toks if t in tk.dictionary])
    except Exception as e:      # "returns a key, never nothing": an exception of the library on these arguments is a failure, not a crash of the harness
        fails.append(("history:raises", f"{kind} {json.dumps(op, sort_keys=True)} raised {type(e).__name__}: {e}"))
    return fails


def gen_theory_op(rng):
    pcs = rng.sample(range(12), rng.randint(1, 5))
    pitches = [rng.choice([48, 60, 72]) + pc for pc in pcs for _ in range(rng.randint(1, 2))]
    r = rng.random()
    if r < 0.22:
        # mostly WITHOUT a leading key signature (the guessing code is reached), sometimes with one (answered from the message)
        return {"op": "guess", "pitches": pitches, "lead": rng.choice(KEY_NAMES) if rng.random() < 0.2 else None}
    if r < 0.47:
        # references that are no C, in every octave; sometimes a C (which a rotating table would be turned back by)
        a = rng.randrange(128) if rng.random() < 0.85 else 12 * rng.randrange(10)
        return {"op": "distance", "a": a, "b": rng.randrange(128)}
    if r < 0.57:
        return {"op": "from_distance", "a": rng.randrange(128), "d": rng.randint(-12, 12)}
    if r < 0.64:
        return {"op": "position", "a": rng.randrange(128)}
    if r < 0.76:
        return {"op": "transpose_key", "key": rng.choice(KEY_NAMES), "by": rng.choice([1, -1, 5, 7, -7, 12, -13, 25, 3, 6, 11, -36])}
    if r < 0.86:
        return {"op": "seq_transpose", "pitches": pitches, "key": rng.choice(KEY_NAMES), "by": rng.choice([1, -1, 2, 7, -5, 12, 13])}
    if r < 0.93:
        return {"op": "bar_transpose", "pitches": pitches, "key": rng.choice(KEY_NAMES), "by": rng.choice([1, -2, 7, 12, -11])}
    return {"op": "get_info", "pitches": pitches}


def gen_theory_history(rng, lo=1, hi=6):
    return [gen_theory_op(rng) for _ in range(rng.randint(lo, hi))]


def describe_history(hist):
    return sorted({op["op"] for op in hist})


# ----------------------------------------------------------------------------- the table check of C20, against the harness's own tables
def position_state_ok():
    """the circle-of-fifths positions of the twelve pitch classes as the library answers them NOW are the harness's own (read-only question)"""
    CircleOfFifths, _, _ = _theory()
    try:
        return all(CircleOfFifths.get_position(p) == COF_POS[p] for p in range(12))
    except Exception:
        return False


def table_failures(light=False, limit=4):
    """C20's statement over its complete finite domains, judged with the harness's own tables: 15 keys x intervals -36..36 (total, tonic, scale,
    multiples of twelve, additivity), every key's note set, 128 x 128 pitch pairs (distance, positions, from_distance).  `light`: one
    representative per residue (15 keys x 1..11, 12 x 12 pitch classes) — used to ask whether the process state is still untouched."""
    CircleOfFifths, Key, MusicMapping = _theory()
    fails = []

    def add(clause, detail):
        if sum(1 for c, _ in fails if c == clause) < limit:
            fails.append((clause, detail))

    def scale_of(k):
        return [n.value for n in MusicMapping.KeyNoteMapping[k][0]]

    for name in KEY_NAMES:
        try:
            k = Key(name)
            if scale_of(k) != exp_scale(name):
                add("major", f"notes of {name} are {scale_of(k)}, the major scale on its tonic is {exp_scale(name)}")
        except Exception as e:
            add("major", f"{name}: {type(e).__name__}: {e}")
            continue
        for n in (range(1, 12) if light else range(-36, 37)):
            try:
                r = Key.transpose_key(k, n)
            except Exception as e:
                add("total", f"transpose_key({name},{n}) raised {type(e).__name__}: {e}")
                continue
            if not isinstance(r, Key):
                add("total", f"transpose_key({name},{n}) returned {r!r}")
                continue
            want = (TONIC[name] + n) % 12
            if TONIC.get(r.value) != want:
                add("tonic", f"transpose_key({name},{n}) = {r.value}: tonic {TONIC.get(r.value)}, expected pitch class {want}"
                    + (" (a multiple of 12 is the identity)" if n % 12 == 0 else ""))
            elif sorted(scale_of(r)) != sorted((x + n) % 12 for x in exp_scale(name)):
                add("scale", f"scale of transpose_key({name},{n}) = {r.value} is {scale_of(r)}, not the scale of {name} shifted by {n}")
            if not light:
                m = ((n * 7 + TONIC[name]) % 25) - 12
                try:
                    two = Key.transpose_key(r, m)
                    if not isinstance(two, Key) or TONIC.get(two.value) != (TONIC[name] + n + m) % 12:
                        add("compose", f"{name} by {n} then by {m} = {getattr(two, 'value', two)!r}, expected pitch class {(TONIC[name] + n + m) % 12}")
                except Exception as e:
                    add("compose", f"{name} by {n} then by {m} raised {type(e).__name__}: {e}")
    pitches = range(12) if light else range(128)
    for a in pitches:
        for b in pitches:
            try:
                d = CircleOfFifths.get_distance(a, b)
                pa, pb = CircleOfFifths.get_position(a), CircleOfFifths.get_position(b)
                f = CircleOfFifths.from_distance(a, d)
            except Exception as e:
                add("cof-total", f"raised {type(e).__name__}: {e} for ({a},{b})")
                continue
            if not (_is_int(d) and -5 <= d <= 6):
                add("cof-range", f"get_distance({a},{b}) = {d!r}")
            elif d != exp_distance(a, b):
                add("cof-distance", f"get_distance({a},{b}) = {d}, expected {exp_distance(a, b)}")
            elif (d - (pb - pa)) % 12 != 0:
                add("cof-mod", f"distance {d} from {a} to {b} against positions {pa}, {pb}")
            if f != b % 12:
                add("cof-from", f"from_distance({a},{d!r}) = {f!r}, expected {b % 12}")
    return fails


# ----------------------------------------------------------------------------- a fresh interpreter
class _Ctx:
    """what `setup(ctx)` of a property module needs"""

    def __init__(self):
        self.oracles = {}
        self.kf_predicates = {}
        self.notes = []
        self.thorough = False

    def oracle(self, name, fn):
        self.oracles[name] = fn

    def count(self, *a, **k):
        pass


def eval_fresh(prop, oracle, inp, timeout=300):
    """the clause failures of `oracle` of property `prop` on `inp`, judged in a new interpreter (same source tree)"""
    code = f"import sys; sys.path.insert(0, {HARNESS!r}); import h9_util; h9_util._child({prop!r}, {oracle!r})"
    env = dict(os.environ, H9_CHILD="1", SCODA_VERIF="1")
    p = subprocess.run([sys.executable or "/venv/bin/python", "-c", code], input=json.dumps(inp, default=str), capture_output=True, text=True,
                       timeout=timeout, env=env, cwd=os.path.dirname(HARNESS))
    for line in reversed(p.stdout.split("\n")):
        if line.startswith("H9RESULT "):
            return [(c, d) for c, d in json.loads(line[len("H9RESULT "):])]
    raise RuntimeError(f"fresh interpreter gave no verdict for {prop}/{oracle}: exit {p.returncode}: {p.stderr[-800:]}")


_FRESH_OK = {}


def fresh_ok(what):
    """is the state question `what` ("position": position_state_ok, "tables": no light table failure) answered with yes in a NEW interpreter?  Asked
    once per process, when the question fails here: if a new interpreter fails it too, the source tree is wrong from the start (no history is
    needed, nothing was disturbed) and inputs are judged in this process as usual."""
    if what not in _FRESH_OK:
        code = (f"import sys; sys.path.insert(0, {HARNESS!r}); import protocol, h9_util as U; "
                f"print('H9STATE', int(U.position_state_ok() if {what!r} == 'position' else not U.table_failures(light=True)))")
        try:
            p = subprocess.run([sys.executable or "/venv/bin/python", "-c", code], capture_output=True, text=True, timeout=120,
                               env=dict(os.environ, H9_CHILD="1", SCODA_VERIF="1"), cwd=os.path.dirname(HARNESS))
            _FRESH_OK[what] = "H9STATE 1" in p.stdout
        except Exception:
            _FRESH_OK[what] = False
    return _FRESH_OK[what]


def _child(prop, oracle):
    import importlib
    import logging
    logging.disable(logging.CRITICAL)
    inp = json.loads(sys.stdin.read())
    mod = importlib.import_module(f"props.{prop}")
    ctx = _Ctx()
    mod.setup(ctx)
    fails = ctx.oracles[oracle](inp) or []
    print("H9RESULT " + json.dumps([[c, d] for c, d in fails], default=str))


# ----------------------------------------------------------------------------- in-place edits of the messages of a live sequence (C17)
# Plain data of a sequence as in props/C17.py: notes (channel, pitch, onset, duration, velocity), sigs (kind "ts"/"ks", tick, value) with value
# (numerator, denominator) or the index of a key.  An edit {"what", "i", "to"} changes ONE attribute of one note / signature (for "channel" on a
# single-channel sequence: the uniform relabelling of every message).  It is applied to the plain data (`apply_edit_plain`) and, identically, to
# the message objects a live Sequence holds (`live_edit`), through Sequence.messages_abs() or by attribute assignment on seq.abs._messages.
EDIT_KINDS = ["pitch", "onset", "duration", "velocity", "channel", "ts-value", "ts-tick", "ks-value", "ks-tick"]


def norm_side(side):
    notes = [tuple(x) for x in side["notes"]]
    sigs = [(k, t, tuple(v) if isinstance(v, (list, tuple)) else v) for (k, t, v) in side["sigs"]]
    return notes, sigs


def _wf(notes):
    """positive durations, times not negative, no two notes of one channel and pitch that overlap or touch the same tick twice"""
    for i, n in enumerate(notes):
        if not (len(n) == 5 and all(_is_int(x) for x in n) and n[3] >= 1 and n[2] >= 0 and 0 <= n[1] <= 127 and 1 <= n[4] <= 127 and 0 <= n[0] <= 15):
            return False
        for x in notes[:i]:
            if x[0] == n[0] and x[1] == n[1] and not (n[2] + n[3] <= x[2] or x[2] + x[3] <= n[2]):
                return False
    return True


def _sigs_ok(sigs):
    seen = set()
    for (k, t, v) in sigs:
        if k not in ("ts", "ks") or not _is_int(t) or t < 0 or (k, t) in seen:
            return False            # two signatures of a kind on one tick: the order of entry decides (D27's class), not judged by histories
        seen.add((k, t))
        if k == "ts" and not (isinstance(v, tuple) and len(v) == 2 and all(_is_int(x) and x >= 1 for x in v)):
            return False
        if k == "ks" and not (_is_int(v) and 0 <= v < 15):
            return False
    return True


def plain_ok(notes, sigs):
    return _wf(notes) and _sigs_ok(sigs)


def apply_edit_plain(notes, sigs, e):
    """the plain data after the edit, or None when the edit does not apply to this data (index out of range, result not well-formed)"""
    try:
        what, i, to = e["what"], e.get("i", 0), e["to"]
    except Exception:
        return None
    notes, sigs = list(notes), list(sigs)
    if what in ("pitch", "onset", "duration", "velocity", "channel"):
        if not (_is_int(i) and 0 <= i < len(notes) and _is_int(to)):
            return None
        c, p, on, dur, v = notes[i]
        if what == "pitch":
            notes[i] = (c, to, on, dur, v)
        elif what == "onset":
            notes[i] = (c, p, to, dur, v)
        elif what == "duration":
            notes[i] = (c, p, on, to, v)
        elif what == "velocity":
            notes[i] = (c, p, on, dur, to)
        else:
            chans = {n[0] for n in notes}
            if len(chans) == 1:
                notes = [(to,) + n[1:] for n in notes]          # uniform relabelling (the signatures go with the notes, see C17.build)
            else:
                notes[i] = (to, p, on, dur, v)
                if len({n[0] for n in notes}) < 2:
                    return None                                 # would turn a multi-channel sequence into a single-channel one: where its signatures sit changes
    elif what in ("ts-value", "ts-tick", "ks-value", "ks-tick"):
        if not (_is_int(i) and 0 <= i < len(sigs)) or sigs[i][0] != what[:2]:
            return None
        k, t, v = sigs[i]
        if what.endswith("tick"):
            if not _is_int(to):
                return None
            sigs[i] = (k, to, v)
        else:
            sigs[i] = (k, t, tuple(to) if isinstance(to, (list, tuple)) else to)
    else:
        return None
    return (notes, sigs) if plain_ok(notes, sigs) else None


def inverse_edit(notes, sigs, e):
    """the edit that takes the edited data back (same place, the old value)"""
    what, i = e["what"], e.get("i", 0)
    if what in ("pitch", "onset", "duration", "velocity", "channel"):
        old = notes[i][{"channel": 0, "pitch": 1, "onset": 2, "duration": 3, "velocity": 4}[what]]
    elif what.endswith("tick"):
        old = sigs[i][1]
    else:
        old = sigs[i][2]
        old = list(old) if isinstance(old, tuple) else old
    return {"what": what, "i": i, "to": old}


def gen_edit(rng, notes, sigs, what):
    """one edit of the given kind for this data, or None"""
    for _ in range(8):
        e = None
        if what in ("pitch", "onset", "duration", "velocity", "channel") and notes:
            i = rng.randrange(len(notes))
            c, p, on, dur, v = notes[i]
            to = {"pitch": lambda: p + rng.choice([1, -1, 12, 7]), "onset": lambda: max(0, on + rng.choice([1, 6, -1, 300, 24])),
                  "duration": lambda: max(1, dur + rng.choice([1, -1, 12, 100])), "velocity": lambda: (v % 127) + 1 if rng.random() < 0.5 else rng.randint(1, 127),
                  "channel": lambda: rng.choice([x for x in range(6) if x != c])}[what]()
            e = {"what": what, "i": i, "to": to}
        elif what[:2] in ("ts", "ks"):
            js = [j for j, s in enumerate(sigs) if s[0] == what[:2]]
            if js:
                j = rng.choice(js)
                k, t, v = sigs[j]
                if what == "ts-value":
                    to = list(rng.choice([x for x in [(4, 4), (3, 4), (6, 8), (2, 2), (8, 8), (v[0] + 1, v[1]), (v[0], v[1] * 2)] if x != v]))
                elif what == "ks-value":
                    to = rng.choice([x for x in range(15) if x != v])
                else:
                    to = max(0, t + rng.choice([1, 24, 48, 500, -24]))
                e = {"what": what, "i": j, "to": to}
        if e is None:
            return None
        new = apply_edit_plain(notes, sigs, e)
        if new is not None and new != (list(notes), list(sigs)):
            return e
    return None


def live_edit(seq, via, notes, sigs, e):
    """apply the edit to the message objects `seq` holds (found by the OLD plain data).  via "messages_abs": while iterating the public
    generator Sequence.messages_abs(); via "direct": attribute assignment on the messages of seq.abs.  True when every message was found."""
    from protocol import KEYS
    what, i, to = e["what"], e.get("i", 0), e["to"]
    todo = []           # [type name, match(m), change(m), found]

    def note_msgs(c, p, on, dur, on_change, off_change):
        todo.append(["note_on", lambda m: (m.channel, m.note, m.time) == (c, p, on), on_change, False])
        todo.append(["note_off", lambda m: (m.channel, m.note, m.time) == (c, p, on + dur), off_change, False])

    everything = None
    if what in ("pitch", "onset", "duration", "velocity", "channel"):
        c, p, on, dur, v = notes[i]
        if what == "pitch":
            note_msgs(c, p, on, dur, lambda m: setattr(m, "note", to), lambda m: setattr(m, "note", to))
        elif what == "onset":
            note_msgs(c, p, on, dur, lambda m: setattr(m, "time", to), lambda m: setattr(m, "time", to + dur))
        elif what == "duration":
            note_msgs(c, p, on, dur, lambda m: None, lambda m: setattr(m, "time", on + to))
        elif what == "velocity":
            note_msgs(c, p, on, dur, lambda m: setattr(m, "velocity", to), lambda m: None)
        elif len({n[0] for n in notes}) == 1:
            everything = lambda m: setattr(m, "channel", to)      # noqa: E731
        else:
            note_msgs(c, p, on, dur, lambda m: setattr(m, "channel", to), lambda m: setattr(m, "channel", to))
    else:
        k, t, v = sigs[i]
        if k == "ts":
            match = lambda m: m.time == t and (m.numerator, m.denominator) == tuple(v)      # noqa: E731
            change = (lambda m: setattr(m, "time", to)) if what == "ts-tick" else (lambda m: (setattr(m, "numerator", to[0]), setattr(m, "denominator", to[1])))
            todo.append(["time_signature", match, change, False])
        else:
            match = lambda m: m.time == t and m.key is KEYS[v]      # noqa: E731
            change = (lambda m: setattr(m, "time", to)) if what == "ks-tick" else (lambda m: setattr(m, "key", KEYS[to]))
            todo.append(["key_signature", match, change, False])

    def visit(m):
        if everything is not None:
            everything(m)
            return
        for entry in todo:
            if not entry[3] and m.message_type.value == entry[0] and entry[1](m):
                entry[3] = True
                entry[2](m)
                return

    if via == "messages_abs":
        for m in seq.messages_abs():
            visit(m)
    else:
        for m in list(seq.abs._messages):
            visit(m)
    return all(entry[3] for entry in todo)
