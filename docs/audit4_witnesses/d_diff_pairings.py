"""differential old (1462441 reverted) vs new: get_interleaved_message_pairings and equals on arbitrary (ill-formed) absolute lists"""
import sys, os, json, random, subprocess
sys.path.insert(0, "/root/work/audit4/verif_D/harness")
os.environ.setdefault("SCODA_REPO", "/root/work/audit4/src/d_new")
from protocol import pm, ON, OFF, CC, PC, KEYSIG, TIMESIG, INTERNAL
W = os.path.join(os.path.dirname(os.path.abspath(__file__)), "d_worker.py")
OLD, NEW = "/root/work/audit4/src/d2_1462441", "/root/work/audit4/src/d_new"
def run(src, op, ins):
    r = subprocess.run(["/venv/bin/python", W, op], input=json.dumps(ins), capture_output=True, text=True, env=dict(os.environ, SCODA_REPO=src))
    if r.returncode: raise SystemExit(r.stderr[-3000:])
    return json.loads(r.stdout)
rng = random.Random(int(sys.argv[1]) if len(sys.argv) > 1 else 1)
N = int(sys.argv[2]) if len(sys.argv) > 2 else 4000
def rand_abs():
    n = rng.randint(0, 8); chans = rng.choice([(0,), (0, 1), (3,), (0, 1, 2)]); out = []
    mode = rng.random()
    for _ in range(n):
        ty = rng.choice([ON, OFF, OFF, CC, TIMESIG, KEYSIG]) if mode > 0.3 else rng.choice([OFF, OFF, CC, TIMESIG])
        c = rng.choice(chans); t = rng.randrange(0, 60)
        if ty in (ON, OFF): out.append(pm(ty, c, t, note=rng.choice([60, 62]), vel=64 if ty == ON else None))
        elif ty == CC: out.append(pm(CC, c, t, vel=1, ctl=7))
        elif ty == TIMESIG: out.append(pm(TIMESIG, c, t, num=4, den=4))
        else: out.append(pm(KEYSIG, c, t, key=rng.randrange(15)))
    out.sort(key=lambda m: m[2])
    return [list(m) for m in out]
KW = [{}, {}, {"impute_notes": False}, {"standard_length": 5}]
MT = [None, None, [ON, OFF], [OFF], [ON], [CC, OFF], [TIMESIG, KEYSIG]]
c1, c2 = [], []
for i in range(N):
    a = rand_abs(); c1.append({"abs": a, "kw": dict(rng.choice(KW))})
    b = rng.choice([a, rand_abs(), a[:-1]])
    fl = {k: rng.random() < .3 for k in ("ignore_channel", "ignore_time_signature", "ignore_key_signature", "ignore_velocity")}
    c2.append({"a": a, "b": b, "kw": fl})
# message_types needs enum objects: handled by passing indices? keep default message_types for the worker (None); vary via kw only
for name, cases in (("interleaved", c1), ("equals", c2)):
    o = run(OLD, name, cases); n = run(NEW, name, cases)
    stats = {}; first = None
    for c, x, y in zip(cases, o, n):
        k = "same" if x == y else ("old-raised-IndexError,new-returns" if x == {"err": "IndexError"} and "out" in y else "OTHER-DIFF")
        stats[k] = stats.get(k, 0) + 1
        if k == "OTHER-DIFF" and first is None: first = (c, x, y)
        if k.startswith("old-raised") and name == "interleaved":
            assert y["out"] == [], y
    print(name, stats, "old errors:", sum(1 for x in o if "err" in x), "new errors:", sum(1 for y in n if "err" in y))
    if first: print(" FIRST OTHER-DIFF", json.dumps(first))
