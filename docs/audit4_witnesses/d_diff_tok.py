"""differential old (71016ec reverted) vs new tokeniser on duplicate-free user lists (sorted and unsorted) and defaults"""
import sys, os, json, random, subprocess
sys.path.insert(0, "/root/work/audit4/verif_D/harness")
os.environ.setdefault("SCODA_REPO", "/root/work/audit4/src/d_new")
import gens as G
import h1tok_util as H
W = os.path.join(os.path.dirname(os.path.abspath(__file__)), "d_worker.py")
OLD, NEW = "/root/work/audit4/src/d2_71016ec", "/root/work/audit4/src/d_new"
def run(src, op, ins):
    r = subprocess.run(["/venv/bin/python", W, op], input=json.dumps(ins), capture_output=True, text=True, env=dict(os.environ, SCODA_REPO=src))
    if r.returncode: raise SystemExit(r.stderr[-3000:])
    return json.loads(r.stdout)
rng = random.Random(int(sys.argv[1]) if len(sys.argv) > 1 else 1)
N = int(sys.argv[2]) if len(sys.argv) > 2 else 600
cases = []
for i in range(N):
    ppqn = rng.choice([24, 24, 12, 48])
    unit = rng.choice([1, 2, 3])
    kw = dict(num_tracks=rng.choice([1, 1, 2]), velocity_bins=rng.choice([1, 2, 3]), pitch_range=[60, 64],
              flag_running_values=rng.random() < .5, flag_fuse_track=rng.random() < .5, flag_fuse_value=rng.random() < .5, flag_fuse_velocity=rng.random() < .5)
    if ppqn != 24: kw["ppqn"] = ppqn
    r = rng.random()
    if r < 0.8:
        pool = [unit * k for k in (1, 2, 3, 4, 6, 8, 12, 16, 24, 48)]
        steps = rng.sample(pool, rng.randint(1, 6))
        if unit not in steps and rng.random() < .8: steps.append(unit)
        m = rng.random()
        if m < .3: steps.sort()
        elif m < .6: steps.sort(reverse=True)
        kw["step_sizes"] = steps
    if rng.random() < 0.6:
        pool = [unit * k for k in (1, 2, 3, 4, 6, 8, 12, 16, 24, 36, 48, 100)]
        vals = rng.sample(pool, rng.randint(1, 6))
        m = rng.random()
        if m < .3: vals.sort()
        elif m < .6: vals.sort(reverse=True)
        kw["note_values"] = vals
    pieces = []
    for _ in range(3):
        try:
            pc = H.gen_piece_p(rng, ppqn=ppqn, steps=kw.get("step_sizes"), values=kw.get("note_values"), n_tracks=kw["num_tracks"], pitch_range=(60, 64),
                               max_notes_per_bar=rng.choice([1, 2, 3]))
            pieces.append([[list(m) for m in t] for t in pc["tracks"]])
        except Exception as e:
            pass
    cases.append({"cfg": kw, "pieces": pieces})
o = run(OLD, "tok", cases); n = run(NEW, "tok", cases)
stats = {}; shown = set()
def strip(x, ks): return {k: v for k, v in x.items() if k not in ks}
ALIAS = ("user_steps_after", "user_values_after", "steps_is_user", "values_is_user")
ok_pieces = sum(1 for x in o for p in x.get("pieces", []) if "toks" in p)
for c, x, y in zip(cases, o, n):
    k1 = "same" if strip(x, ALIAS) == strip(y, ALIAS) else "DIFF-vocab/tokens"
    k2 = "alias-same" if {k: x.get(k) for k in ALIAS} == {k: y.get(k) for k in ALIAS} else "ALIAS-DIFF"
    for k in (k1, k2):
        stats[k] = stats.get(k, 0) + 1
        if k.isupper() or "DIFF" in k:
            if k not in shown:
                shown.add(k); print("FIRST", k, json.dumps(c["cfg"])); print(" old", json.dumps({kk: x.get(kk) for kk in ("size", "n", "steps", "values", "dict_sha") + ALIAS})); print(" new", json.dumps({kk: y.get(kk) for kk in ("size", "n", "steps", "values", "dict_sha") + ALIAS}))
print(stats, "pieces tokenised ok (old):", ok_pieces, "of", sum(len(c["pieces"]) for c in cases))
