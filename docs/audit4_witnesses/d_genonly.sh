#!/bin/bash
# generator-only detection: isolated framework copy /root/work/audit4/src/d_verif2 with the planted regression inputs commented out and corpus/<Cxx> moved away;
# oracles only (--no-build), reverted scratch sources.  usage: d_genonly.sh <tier> <seed...>
V=/root/work/audit4/src/d_verif2; SRC=/root/work/audit4/src; tier=$1; shift
declare -A MAP=( [1462441]="C17" [f9ef398]="C10 C16" [71016ec]="C02" [f7c79e5]="C05" )
for seed in "$@"; do for c in 1462441 f9ef398 71016ec f7c79e5; do for p in ${MAP[$c]}; do
  t0=$(date +%s)
  full=$(cd $V && VERIF_SEED=$seed SCODA_REPO=$SRC/d2_$c ./check $p --tier $tier --no-build 2>&1)
  out=$(echo "$full" | grep -E "^VIOLATION" | head -1)
  echo "seed=$seed tier=$tier $c $p -> ${out:-MISSED} [$(( $(date +%s) - t0 )) s]"
done; done; done
