"""Audit round 4, C7: replay on the real library (/repo, /venv/bin/python) of the witnesses of the eight `_statement_false`
theorems that had no replay note on the theorem.  One block per theorem: the input, what the real code does, what Lean evaluates.
Prints `MATCH` / `MISMATCH` per witness; a mismatch would be a finding."""
import logging
logging.disable(logging.CRITICAL)
from scoda.sequences.absolute_sequence import AbsoluteSequence
from scoda.sequences.sequence import Sequence
from scoda.elements.message import Message
from scoda.enumerations.message_type import MessageType as T
from scoda.misc import util
from scoda.tokenisation.notelike_tokenisation import MultiTrackLargeVocabularyNotelikeTokeniser as Tok

results = []
def report(name, inp, real, lean, ok):
    results.append((name, inp, real, lean, ok))
    print(f"{name}\n   input: {inp}\n   real : {real}\n   lean : {lean}\n   {'MATCH' if ok else 'MISMATCH'}")

def quantise(evts, steps):
    a = AbsoluteSequence()
    for ty, t, v in evts:
        a.add_message(Message(message_type=ty, time=t, note=60, velocity=v))
    a.quantise(steps)
    return [(m.message_type.name, m.time, m.velocity) for m in a._messages]

# 1. C05s.survives_statement_false -- cxS, steps [6, 4]
#    Lean (C05s.lean:151): quantiseS [6,4] cxS = cxS; the isolated pair (on v64 @100, off vel None @100) has room (102 > 100),
#    the statement would need a note-off {vel None} at some t > 100 in the result: the only later note-off is the one with vel 0 @200.
cxS = [(T.NOTE_ON, 0, 50), (T.NOTE_OFF, 100, None), (T.NOTE_ON, 100, 64), (T.NOTE_OFF, 200, 0)]
real = quantise(cxS, [6, 4])
lean = [("NOTE_ON", 0, 50), ("NOTE_OFF", 100, None), ("NOTE_ON", 100, 64), ("NOTE_OFF", 200, 0)]
later_off_same_obj = [m for m in real if m[0] == "NOTE_OFF" and m[1] > 100 and m[2] is None]
report("C05s.survives_statement_false", "cxS=[on60 v50@0, off60@100, on60 v64@100, off60 vel0@200], steps [6,4]",
       f"{real}; note-offs with velocity None after tick 100: {later_off_same_obj}", f"quantiseS = {lean}; none", real == lean and later_off_same_obj == [])

# 2. C05s.dropped_statement_false -- cxD, steps [6]
#    Lean (C05s.lean:161): quantiseS [6] cxD = [on v50@0, off@30, on v64@30, off vel0@60]; the pair (on v64@29, off@29) has no room
#    (positions of 29 are 24, 30; quantised onset 30), the statement would forbid any note event of the key within 6 ticks: off@30 is there.
cxD = [(T.NOTE_ON, 0, 50), (T.NOTE_OFF, 29, None), (T.NOTE_ON, 29, 64), (T.NOTE_OFF, 60, 0)]
real = quantise(cxD, [6])
lean = [("NOTE_ON", 0, 50), ("NOTE_OFF", 30, None), ("NOTE_ON", 30, 64), ("NOTE_OFF", 60, 0)]
report("C05s.dropped_statement_false", "cxD=[on60 v50@0, off60@29, on60 v64@29, off60 vel0@60], steps [6]", real, f"quantiseS = {lean}", real == lean)

# 3. UtilTie.binVelocity_eq_statement_false -- v = 3, bins = [10, 5]
#    Lean: Gen.Util.binVelocity 3 [10,5] = 2, hand model binIndex [10,5] 3 = 0; and [1,5,2] raises ValueError
real = util.bin_velocity(3, [10, 5])
try:
    real2 = util.bin_velocity(3, [1, 5, 2])
except Exception as e:
    real2 = type(e).__name__
report("UtilTie.binVelocity_eq_statement_false", "bin_velocity(3, [10, 5]); bin_velocity(3, [1, 5, 2])", (real, real2),
       "generated 2 (hand model binIndex 0); generated ValueError", real == 2 and real2 == "ValueError")

# 4. UtilTie.minmax_spec_statement_false -- lo = 5, hi = 3, v = 10
#    Lean: Gen.Util.minmax 5 3 10 = 3, the clamp max 5 (min 3 10) = 5
real = util.minmax(5, 3, 10)
report("UtilTie.minmax_spec_statement_false", "minmax(5, 3, 10)", real, "generated 3 (clamp reading 5)", real == 3)

def small(**kw):
    a = dict(num_tracks=1, pitch_range=(60, 60), step_sizes=[2], note_values=[4], velocity_bins=1, time_signature_range=(4, 4))
    a.update(kw)
    return Tok(**a)

# 5. Defs.constructDictionary_anyObject_statement_false -- usedObj = the object __init__ returns; second _construct_dictionary()
#    Lean (Defs.constructDictionary_second_call): size 14, pad..bar keep 0..3, rst_02 -> 11, note -> 12, tsg_04_08 -> 13,
#    inverse dictionary {0,1,2,3,11,12,13}; the closed form of the refuted statement would give pad the id 7.
t = small()
first = (dict(t.dictionary), t.dictionary_size)
t._construct_dictionary()
real = (t.dictionary, t.dictionary_size, sorted(t.inverse_dictionary))
lean = ({"pad": 0, "sta": 1, "sto": 2, "bar": 3, "rst_02": 11, "trk_00-pit_060-val_04-vel_127": 12, "tsg_04_08": 13}, 14, [0, 1, 2, 3, 11, 12, 13])
lean_first = ({"pad": 0, "sta": 1, "sto": 2, "bar": 3, "rst_02": 4, "trk_00-pit_060-val_04-vel_127": 5, "tsg_04_08": 6}, 7)
report("Defs.constructDictionary_anyObject_statement_false", "small tokeniser (usedObj), second _construct_dictionary()",
       f"after __init__ {first}; after 2nd call {real}", f"usedObj {lean_first}; constructDictionary usedObj {lean}",
       first == lean_first and real == lean)

def dump(seqs):
    return [[(m.message_type.name, m.time, m.note, m.velocity) for m in q.abs._messages] for q in seqs]

# 6. Defs.detokenise_anystring_statement_false -- ["rst_+5", "pit_060"]
#    Lean: model parser rejects "rst_+5" (ValueError); generated detokenise = model on [.rest 5, .note none 60 none none]
#          = [[on 60 vel 127 @5, off 60 @29]]
try:
    real = dump(small().detokenise(["rst_+5", "pit_060"]))
except Exception as e:
    real = type(e).__name__
lean = [[("NOTE_ON", 5, 60, 127), ("NOTE_OFF", 29, 60, None)]]
report("Defs.detokenise_anystring_statement_false", 'detokenise(["rst_+5", "pit_060"])', real,
       f"generated code accepts: {lean} (only the model parser parseTok rejects the string)", real == lean)

# 7. Defs.tokenise_negative_ppqn_statement_false -- ppqn = -1, state {"cur_time_signature_numerator": 3}, one empty sequence
#    Lean: generated code leaves cur_bar_capacity_remaining = -1 (hand model -2), tokens []
sd = {"cur_time_signature_numerator": 3}
try:
    toks = small(ppqn=-1).tokenise([Sequence()], state_dict=sd)
    real = (toks, sd)
except Exception as e:
    real = type(e).__name__
lean = ([], {"cur_time_signature_numerator": 3, "cur_time": 0, "cur_time_bar": 0, "cur_time_signature_denominator": 8,
             "cur_bar_capacity_remaining": -1, "prv_track": -1, "prv_value": -1, "prv_velocity": -1})
report("Defs.tokenise_negative_ppqn_statement_false", 'Tokeniser(ppqn=-1).tokenise([Sequence()], state_dict={"cur_time_signature_numerator": 3})',
       real, f"generated {lean} (hand model: capacity -2)", real == lean)

# 8. Defs.tokenise_event_denominator_zero_statement_false -- one TIME_SIGNATURE 4/0 message
#    Lean: generated code ZeroDivisionError (hand model TokenisationException)
s = Sequence()
s.add_relative_message(Message(message_type=T.TIME_SIGNATURE, numerator=4, denominator=0))
try:
    real = small().tokenise([s], state_dict={})
except Exception as e:
    real = type(e).__name__
report("Defs.tokenise_event_denominator_zero_statement_false", "tokenise([Sequence with TIME_SIGNATURE 4/0]), state_dict={}", real,
       "generated ZeroDivisionError (hand model TokenisationException)", real == "ZeroDivisionError")

print("\nSUMMARY:", sum(1 for r in results if r[4]), "of", len(results), "match")
