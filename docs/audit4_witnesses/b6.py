import scoda, sys
print(scoda.__file__)
from scoda.sequences.sequence import Sequence
from scoda.elements.message import Message
from scoda.enumerations.message_type import MessageType as T
from scoda.misc.music_theory import Key
s = Sequence()
# as given: G on channel 1, then D on channel 0, both on tick 0 (the later one, D, is in force); one note of 3 bars
ks = list(Key)
for m in [Message(message_type=T.KEY_SIGNATURE, channel=1, key=Key.G, time=0), Message(message_type=T.KEY_SIGNATURE, channel=0, key=Key.D, time=0),
          Message(message_type=T.NOTE_ON, channel=0, note=60, velocity=90, time=0), Message(message_type=T.NOTE_OFF, channel=0, note=60, time=288)]:
    s.add_absolute_message(m)
bars = Sequence.sequences_split_bars([s], 0, quantise_note_lengths=False)[0]
print("bar keys:", [b.key_signature for b in bars])
