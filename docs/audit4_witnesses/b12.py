import mido, tempfile, os
from scoda.sequences.sequence import Sequence
mf = mido.MidiFile(ticks_per_beat=24)
t0 = mido.MidiTrack([mido.Message('note_on', note=60, velocity=64, time=0), mido.Message('note_off', note=60, time=24)])
t1 = mido.MidiTrack([mido.Message('note_on', note=72, velocity=64, time=0), mido.Message('note_off', note=72, time=24)])
mf.tracks.extend([t0, t1])
p = tempfile.mktemp(suffix='.mid'); mf.save(p)
# track 0 is listed in both groups
seqs = Sequence.sequences_load(file_path=p, track_indices=[[0], [0, 1]], meta_track_indices=[0], target_meta_track_index=0)
for i, s in enumerate(seqs):
    print("group", i, [(m.message_type.name, m.note, m.time) for m in s.abs._messages if m.note is not None])
os.unlink(p)
