"""C04e.history_readable_illegal_strict: hypotheses hold (no empty step list, no equals) but the real code raises."""
from scoda.elements.message import Message
from scoda.enumerations.message_type import MessageType as T
from scoda.sequences.sequence import Sequence
def r0():
    s = Sequence()
    for m in [Message(message_type=T.NOTE_ON, channel=0, note=60, velocity=64), Message(message_type=T.WAIT, channel=0, time=10),
              Message(message_type=T.NOTE_OFF, channel=0, note=60), Message(message_type=T.WAIT, channel=0, time=14),
              Message(message_type=T.NOTE_ON, channel=0, note=62, velocity=64), Message(message_type=T.WAIT, channel=0, time=25),
              Message(message_type=T.NOTE_OFF, channel=0, note=62)]:
        s.add_relative_message(m)
    return s
def run(name, f):
    s = r0()
    try:
        f(s); a = s.abs; r = s.rel
        print(name, "-> ok, flags", s._abs_stale, s._rel_stale)
    except Exception as e:
        print(name, "-> raised", type(e).__name__, e, "| flags", s._abs_stale, s._rel_stale)
        for v in ("abs", "rel"):
            try: getattr(s, v); print("   read", v, "ok")
            except Exception as e2: print("   read", v, "raised", type(e2).__name__)
run("scale(0)", lambda s: s.scale(0))
run("quantise([0])", lambda s: s.quantise([0]))
run("add_absolute_message(WAIT t=5); pad(0); .abs", lambda s: (s.add_absolute_message(Message(message_type=T.WAIT, channel=0, time=5)), s.pad(0), s.abs))
