"""'a copy of a bar equals its original' for a bar WITH A PAST. usage: SCODA_REPO=<src> python d_bar_copy_after_history.py
1. the library's own workflow: tokenise() calls set_channel(i) IN PLACE on every bar sequence it is given, so after tokenising two tracks the bars of track 1 carry
   their leading time signature on channel 1; bar.default_channel is still 0 -> copy() re-inserts it on channel 0.
2. regression of f9ef398: Bar(seq, 4, 4, None, default_channel=3); bar.sequence.set_channel(0): the old copy() (channel 0 always) EQUALLED the bar, the new one does not."""
import sys, os
sys.path.insert(0, os.environ["SCODA_REPO"]); sys.path.insert(0, "/root/work/audit4/verif_D/harness")
from scoda.elements.bar import Bar
from scoda.elements.track import Track
from scoda.elements.composition import Composition
from scoda.sequences.sequence import Sequence
from scoda.elements.message import Message
from scoda.enumerations.message_type import MessageType as T
from scoda.tokenisation.notelike_tokenisation import MultiTrackLargeVocabularyNotelikeTokeniser as Tk
import scoda.elements.bar as bm
print("source:", bm.__file__)
def timed(seq):
    """timed events of the relative view, wait channels ignored"""
    t, out = 0, []
    for m in seq.rel._messages:
        if m.message_type == T.WAIT: t += m.time
        else: out.append((t, m.message_type.value, m.channel, m.note, m.velocity, m.numerator, m.denominator))
    return sorted(out, key=repr), t
def track_seq(ch, pitch):
    s = Sequence()
    s.add_relative_message(Message(message_type=T.TIME_SIGNATURE, channel=ch, numerator=4, denominator=4))
    s.add_relative_message(Message(message_type=T.NOTE_ON, channel=ch, note=pitch, velocity=64))
    s.add_relative_message(Message(message_type=T.WAIT, channel=ch, time=24))
    s.add_relative_message(Message(message_type=T.NOTE_OFF, channel=ch, note=pitch))
    s.add_relative_message(Message(message_type=T.WAIT, channel=ch, time=72))
    return s
bars = Sequence.sequences_split_bars([track_seq(0, 60), track_seq(0, 64)], 0)
comp = Composition([Track(bars[0], "a"), Track(bars[1], "b")])
tk = Tk(num_tracks=2)
toks = tk.tokenise([bars[0][0].sequence, bars[1][0].sequence])
b = comp.tracks[1].bars[0]
c = b.copy()
print("1. after tokenise(): bar of track 1 == its copy (timed events)?", timed(b.sequence) == timed(c.sequence), "| library ==:", b.sequence == c.sequence)
print("   bar :", [e for e in timed(b.sequence)[0] if e[1] == "time_signature"]); print("   copy:", [e for e in timed(c.sequence)[0] if e[1] == "time_signature"])
cc = comp.copy().tracks[1].bars[0]
print("   Composition.copy(): same?", timed(cc.sequence) == timed(b.sequence))
s = Sequence()
for m in track_seq(3, 60).rel._messages[1:]: s.add_relative_message(m)
b3 = Bar(s, 4, 4, None, default_channel=3); b3.sequence.set_channel(0)
c3 = b3.copy()
print("2. Bar(default_channel=3); sequence.set_channel(0): bar == copy?", timed(b3.sequence) == timed(c3.sequence), "| library ==:", b3.sequence == c3.sequence)
print("   bar :", [e for e in timed(b3.sequence)[0] if e[1] == "time_signature"]); print("   copy:", [e for e in timed(c3.sequence)[0] if e[1] == "time_signature"])
