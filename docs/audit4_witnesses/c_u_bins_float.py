# Gen.Util.getVelocityBins in exact rationals (as the Lean PyNum tower does) vs the real code, large velocity_max
from fractions import Fraction as F
import math
from scoda.misc import util as U
def rhe(q):  # round half even on exact rational
    fl=math.floor(q); r=q-fl
    if r>F(1,2) or (r==F(1,2) and fl%2==1): return fl+1
    return fl
def model(vmax,n):
    bs=rhe(F(vmax,n))
    out=[]
    for i in range(n):
        c=F((i+1)*bs)+F(bs,2)
        out.append(int(vmax) if not (c<vmax) else math.floor(c) if c>=0 else -math.floor(-c))
    return out
bad=[]
for vmax in [127,1000,2**53+1,2**53+3,10**17+1,10**18+7,3*2**60+5]:
    for n in [1,2,3,4,7,8]:
        r=U.get_velocity_bins(vmax,n); m=model(vmax,n)
        if r!=m: bad.append((vmax,n,r[:2],m[:2]))
for b in bad[:6]: print("DIFF vmax=%d n=%d real=%s exact=%s"%b)
print(len(bad),"diffs")
# in-domain sanity: vmax=127, n=1..300
print("n=1..300 at vmax=127 agree:", all(U.get_velocity_bins(127,n)==model(127,n) for n in range(1,301)))
