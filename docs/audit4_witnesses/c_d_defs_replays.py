"""Replays of Defs.lean witnesses on the real library."""
import traceback
from scoda.tokenisation.notelike_tokenisation import MultiTrackLargeVocabularyNotelikeTokeniser as Tok
from scoda.sequences.sequence import Sequence
from scoda.elements.message import Message
from scoda.enumerations.message_type import MessageType as T

def small(**kw):
    a = dict(num_tracks=1, pitch_range=(60, 60), step_sizes=[2], note_values=[4], velocity_bins=1, time_signature_range=(4, 4))
    a.update(kw); return Tok(**a)

print("== 1. constructDictionary_second_call")
t = small()
print("after __init__:", t.dictionary, t.dictionary_size, t.inverse_dictionary)
t._construct_dictionary()
print("after 2nd call:", t.dictionary, t.dictionary_size, t.inverse_dictionary)
t._construct_dictionary()
print("after 3rd call:", t.dictionary, t.dictionary_size)

print("== 2. tokenise_negative_ppqn")
t = small(ppqn=-1)
sd = {"cur_time_signature_numerator": 3}
try:
    out = t.tokenise([Sequence()], state_dict=sd)
    print("tokens", out, "state", sd)
except Exception as e:
    print("raised", type(e).__name__, e)

print("== 3. tokenise_event_denominator_zero")
t = small()
s = Sequence(); s.add_relative_message(Message(message_type=T.TIME_SIGNATURE, numerator=4, denominator=0))
sd = {}
try:
    print(t.tokenise([s], state_dict=sd), sd)
except Exception as e:
    print("raised", type(e).__name__, e)

print("== 4. detokenise_strings: tsg_04_00, rst_+5, 'rst_ 5', rst_5 reorder")
for toks in (["tsg_04_00"], ["rst_+5", "pit_060"], ["rst_ 5", "pit_060"], ["rst_05", "pit_060"], ["rst_5", "val_12-pit_060-trk_00"], ["rst_٥", "pit_060"], ["rst_-5","pit_060"]):
    t = small()
    try:
        seqs = t.detokenise(toks)
        print(toks, "->", [[(m.message_type.value, m.time, m.channel, m.note, m.velocity, m.numerator, m.denominator) for m in q.abs._messages] for q in seqs])
    except Exception as e:
        print(toks, "raised", type(e).__name__, e)

print("== 5. dupObj raw state (step_sizes=[-5,2,2] set after init), decode")
t = Tok(num_tracks=1, pitch_range=(60, 60), step_sizes=[2, -5, 2], note_values=[4], velocity_bins=1, time_signature_range=(4, 4))
print("init stores", t.step_sizes, t.dictionary_size, len(t.dictionary))
t.step_sizes = [-5, 2, 2]; t.dictionary = {}; t.inverse_dictionary = {}; t._dictionary_size = 0
t._construct_dictionary()
print(t.dictionary, t.dictionary_size)
for ids in ([5], [4, 6]):
    try: print("decode", ids, t.decode(ids))
    except Exception as e: print("decode", ids, "raised", type(e).__name__, e)
