"""odd argument types for step_sizes / note_values: old (71016ec reverted) vs new. usage: SCODA_REPO=<src> python d_tok_types.py"""
import sys, os
sys.path.insert(0, os.environ["SCODA_REPO"])
import numpy as np
from scoda.tokenisation.notelike_tokenisation import MultiTrackLargeVocabularyNotelikeTokeniser as Tk
import scoda.tokenisation.notelike_tokenisation as m
print("source:", m.__file__)
def show(label, **kw):
    try:
        tk = Tk(num_tracks=1, pitch_range=(60, 60), **kw)
        d = tk.dictionary
        ok = sorted(d.values()) == list(range(len(d))) and tk.dictionary_size == len(d)
        rst = [k for k in d if k.startswith("rst")]
        val = sorted({k.split("val_")[1].split("-")[0] for k in d if "val_" in k})
        acc = []
        for k in rst:
            try: tk.detokenise([k]); acc.append("ok")
            except Exception as e: acc.append(type(e).__name__)
        print(f"{label:38} steps={tk.step_sizes!r:32} size={tk.dictionary_size} n={len(d)} bij={ok} rst={rst} detok={acc}" + (f" vals={val}" if "note_values" in kw else ""))
    except Exception as e:
        print(f"{label:38} RAISES {type(e).__name__}: {e}")
show("list [4,8] (control)", step_sizes=[4, 8])
show("floats [4, 4.0, 8]", step_sizes=[4, 4.0, 8])
show("floats [4.0, 4, 8]", step_sizes=[4.0, 4, 8])
show("[4.5]", step_sizes=[4.5])
show("tuple (8,4)", step_sizes=(8, 4))
show("set {8,4}", step_sizes={8, 4})
show("generator", step_sizes=(x for x in [8, 4]))
show("range(4,12,4)", step_sizes=range(4, 12, 4))
show("numpy int array [8,4]", step_sizes=np.array([8, 4]))
show("numpy int array [4,4,8]", step_sizes=np.array([4, 4, 8]))
show("list of np.int64", step_sizes=[np.int64(8), np.int64(4)])
show("[4, None]", step_sizes=[4, None])
show("[True, 1, 4]", step_sizes=[True, 1, 4])
show("[1, True, 4]", step_sizes=[1, True, 4])
show("empty []", step_sizes=[])
show("note_values tuple", note_values=(24, 12))
show("note_values [12, 12.0]", note_values=[12, 12.0])
show("note_values [12.0, 12]", note_values=[12.0, 12])
# aliasing
u = [8, 4]; tk = Tk(num_tracks=1, pitch_range=(60, 60), step_sizes=u); print("caller list after:", u, "aliased:", tk.step_sizes is u)
u.append(2); print("after caller appends 2: tk.step_sizes =", tk.step_sizes)
