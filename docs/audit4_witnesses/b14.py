import gens as G
from oracle_util import *
from protocol import from_real, to_real
from scoda.sequences.sequence import Sequence
from scoda.sequences.relative_sequence import RelativeSequence
mk = lambda t: Sequence(relative_sequence=RelativeSequence(messages=[to_real(p) for p in t]))
# C09 (requant off): real note 60 [0,10), zero-length note 60 on the bar line 96
t = [G.pm(ON,0,None,note=60,vel=64), G.pm(WAIT,0,10), G.pm(OFF,0,None,note=60), G.pm(WAIT,0,86), G.pm(ON,0,None,note=60,vel=64), G.pm(OFF,0,None,note=60), G.pm(WAIT,0,20)]
bars = Sequence.sequences_split_bars([mk(t)], 0, quantise_note_lengths=False)[0]
laid, off = [], 0
for b in bars:
    tp, d = rel_timed([from_real(m) for m in b.sequence.rel._messages]); laid.extend((x + off, m) for x, m in tp); off += d
print("C09 track notes", notes_of(rel_timed(t)[0]), "-> bar notes", notes_of(laid))
# C15: merge of A = note 60 [0,4) and B = zero-length note 60 at tick 10
a = mk([G.pm(ON,0,None,note=60,vel=64), G.pm(WAIT,0,4), G.pm(OFF,0,None,note=60), G.pm(WAIT,0,10)])
b = mk([G.pm(WAIT,0,10), G.pm(ON,0,None,note=60,vel=64), G.pm(OFF,0,None,note=60), G.pm(WAIT,0,4)])
a.merge([b])
print("C15 merged notes", notes_of(rel_timed([from_real(m) for m in a.rel._messages])[0]))
