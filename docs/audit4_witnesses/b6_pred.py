import sys, os, importlib
os.environ.setdefault("SCODA_VERIF", "1")
from checklib import Ctx
mod = importlib.import_module("props.C09")
ctx = Ctx("C09", "quick", 0); mod.setup(ctx)
inp = mod.R6_INSORT_EXAMPLE
for c, d in ctx.oracles["split_bars"](inp):
    if not c.startswith("~"):
        f = {"oracle": "split_bars", "clause": c, "detail": d, "input": inp}
        print(c, "|", str(d)[:120], "-> D23:", ctx.kf_predicates["D23"](f), "D36:", ctx.kf_predicates["D36"](f))
ctx.close()
