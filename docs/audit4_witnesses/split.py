import gens as G
from oracle_util import *
from protocol import from_real, to_real
from scoda.sequences.sequence import Sequence
from scoda.sequences.relative_sequence import RelativeSequence
mk = lambda t: Sequence(relative_sequence=RelativeSequence(messages=[to_real(p) for p in t]))
def show(label, t, caps):
    ps = mk(t).split(list(caps))
    laid, off = [], 0
    for p in ps:
        tp, d = rel_timed([from_real(m) for m in p.rel._messages]); laid.extend((x + off, m) for x, m in tp); off += d
    print(label, "notes", notes_of(rel_timed(t)[0]), "->", notes_of(laid), "| non-note", non_note(laid))
# D8's class: a time signature on the final tick, which is a capacity boundary
show("D8 :", [G.pm(ON,0,None,note=60,vel=64), G.pm(WAIT,0,24), G.pm(OFF,0,None,note=60), G.pm(TIMESIG,0,None,num=3,den=4)], [24])
# D18's class: real note 60 [0,10), zero-length note 60 on boundary 24
show("D18:", [G.pm(ON,0,None,note=60,vel=64), G.pm(WAIT,0,10), G.pm(OFF,0,None,note=60), G.pm(WAIT,0,14), G.pm(ON,0,None,note=60,vel=64), G.pm(OFF,0,None,note=60), G.pm(WAIT,0,6)], [24])
