import sys, json
sys.argv = sys.argv[:1]
import gens as G
from oracle_util import *
from protocol import from_real, to_real
from scoda.sequences.sequence import Sequence
from scoda.sequences.relative_sequence import RelativeSequence
def run(track, requant, label):
    s = Sequence(relative_sequence=RelativeSequence(messages=[to_real(p) for p in track]))
    try:
        bars = Sequence.sequences_split_bars([s], 0, quantise_note_lengths=requant)[0]
    except Exception as e:
        print(label, "raises", type(e).__name__, e); return
    laid, off = [], 0
    for b in bars:
        rel = [from_real(m) for m in b.sequence.rel._messages]
        tp, d = rel_timed(rel)
        laid.extend((x + off, m) for x, m in tp); off += d
    print(label, "track notes", notes_of(rel_timed(track)[0]), "-> bar notes", notes_of(laid))
# zero-length note of key 60 at tick 10, real note 60 [20,32), real note 60 [40,52)
t = [G.pm(WAIT,0,10), G.pm(ON,0,None,note=60,vel=64), G.pm(OFF,0,None,note=60), G.pm(WAIT,0,10), G.pm(ON,0,None,note=60,vel=64), G.pm(WAIT,0,12), G.pm(OFF,0,None,note=60),
     G.pm(WAIT,0,8), G.pm(ON,0,None,note=60,vel=64), G.pm(WAIT,0,12), G.pm(OFF,0,None,note=60), G.pm(WAIT,0,44)]
run(t, True, "requant on:")
# zero-length note alone at tick 10
t2 = [G.pm(WAIT,0,10), G.pm(ON,0,None,note=60,vel=64), G.pm(OFF,0,None,note=60), G.pm(WAIT,0,86)]
run(t2, True, "requant on, lone zero-length:")
# zero-length note ON the bar line 96, then real notes of that key [106,118) and [130,142)
t3 = [G.pm(WAIT,0,96), G.pm(ON,0,None,note=60,vel=64), G.pm(OFF,0,None,note=60), G.pm(WAIT,0,10), G.pm(ON,0,None,note=60,vel=64), G.pm(WAIT,0,12), G.pm(OFF,0,None,note=60),
      G.pm(WAIT,0,12), G.pm(ON,0,None,note=60,vel=64), G.pm(WAIT,0,12), G.pm(OFF,0,None,note=60), G.pm(WAIT,0,50)]
run(t3, False, "requant off, zero-length on bar line:")
