import sys, os, importlib, json
os.environ.setdefault("SCODA_VERIF", "1")
sys.path.insert(0, "/root/work/audit4/verif_B/harness")
from checklib import Ctx
prop = sys.argv[1]
mod = importlib.import_module("props." + prop)
ctx = Ctx(prop, "quick", 0); mod.setup(ctx)
mod.generate(ctx)
import collections
c = collections.Counter()
for f in ctx.failures:
    for fid, pred in ctx.kf_predicates.items():
        try:
            ok = pred(f)
        except Exception as e:
            ok = "EXC " + type(e).__name__
        if ok:
            extra = ""
            if prop == "C16":
                d = f.get("detail") or ""
                if mod.OBS in d:
                    obs = json.loads(d.split(mod.OBS, 1)[1]); extra = "predicted=None" if obs.get("predicted") is None else "predicted=list"
            c[(fid, f["clause"], extra)] += 1
for k, v in sorted(c.items()): print(k, v)
print("failures", len(ctx.failures))
ctx.close()
