import sys, os, re
sys.path.insert(0, "/root/work/audit4/verif_B/harness"); sys.path.insert(0, "/repo")
os.environ.setdefault("SCODA_VERIF", "1")
import importlib
from checklib import Ctx
mod = importlib.import_module("props.C03")
ctx = Ctx("C03", "quick", 0)
mod.setup(ctx)
kf = ctx.kf_predicates["D19"]
inp = mod.D19_EXAMPLE
fails = [x for x in ctx.oracles["chunked"](inp) if not x[0].startswith("~")]
for c, d in fails:
    print("REAL   ", c, "|", d[:300], "-> kf_d19:", kf({"oracle": "chunked", "clause": c, "detail": d, "input": inp}))
c, d = [x for x in fails if x[0] == "notes"][0]
lists = re.findall(r"\[(?:[^\[\]])*\]", d)
print("lists", lists[:2])
import ast
ref, got = ast.literal_eval(lists[0]), ast.literal_eval(lists[1])
# forged outcome 1: same ticks, every pitch / duration / velocity of the chunked result different
forged = [(p + 7, on, 1, 1) for (p, on, du, v) in got]
d1 = d.replace(lists[1], str(forged))
print("FORGED pitch+7, dur 1, vel 1:", d1[:300], "-> kf_d19:", kf({"oracle": "chunked", "clause": c, "detail": d1, "input": inp}))
# forged outcome 2: a note is missing from the chunked result
d2 = d.replace(lists[1], str(got[:-1]))
print("FORGED last note missing:", d2[:300], "-> kf_d19:", kf({"oracle": "chunked", "clause": c, "detail": d2, "input": inp}))
ctx.close()
