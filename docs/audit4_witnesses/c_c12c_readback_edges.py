"""C12c.save_then_load ASSUMES ReadBack (mido returns what was written) and "mido's constructors accept the fields"
(docstring: they raise outside data bytes 0..127, numerator 0..255, denominator a power of two).
SavedX / KeysOk / VelOk put NO bound on numerator, denominator, pitch, velocity, delta time.  Real code at those points:"""
import logging, tempfile, os
logging.disable(logging.CRITICAL)
from scoda.sequences.sequence import Sequence
from scoda.sequences.relative_sequence import RelativeSequence
from scoda.elements.message import Message, MessageType as T
def rel(evts):
    r = RelativeSequence()
    for e in evts: r.add_message(e)
    return Sequence(relative_sequence=r)
def roundtrip(seq):
    p = os.path.join(tempfile.mkdtemp(), "x.mid")
    Sequence.sequences_save([seq], p)
    out = Sequence.sequences_load(p)[0]
    return [(m.message_type.name, m.time, m.note, m.velocity, m.numerator, m.denominator) for m in out.abs._messages]
def case(name, evts):
    try: print(f"{name:34s}", roundtrip(rel(evts)))
    except Exception as e: print(f"{name:34s} RAISES {type(e).__name__}: {e}")
N = lambda p, v, d: [Message(message_type=T.NOTE_ON, note=p, velocity=v), Message(message_type=T.WAIT, time=d), Message(message_type=T.NOTE_OFF, note=p)]
TS = lambda n, d: [Message(message_type=T.TIME_SIGNATURE, numerator=n, denominator=d)]
case("TS 5/6", TS(5, 6) + N(60, 64, 24))
case("TS 3/3", TS(3, 3) + N(60, 64, 24))
case("TS 4/1", TS(4, 1) + N(60, 64, 24))
case("TS 4/256", TS(4, 256) + N(60, 64, 24))
case("TS 300/4", TS(300, 4) + N(60, 64, 24))
case("TS 0/4", TS(0, 4) + N(60, 64, 24))
case("pitch 128", N(128, 64, 24))
case("velocity 128", N(60, 128, 24))
case("delta 2**28", N(60, 64, 2**28))
case("delta 2**28-1", N(60, 64, 2**28 - 1))
case("TS at tick 10 (3/8)", N(60, 64, 10) + TS(3, 8) + N(62, 64, 24))
