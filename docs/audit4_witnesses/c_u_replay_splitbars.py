from scoda.sequences.sequence import Sequence
from scoda.sequences.relative_sequence import RelativeSequence
from scoda.elements.message import Message
from scoda.enumerations.message_type import MessageType as T
from scoda.misc.music_theory import Key
def keys(tb): return [[(b.key_signature.name if b.key_signature else None) for b in t] for t in tb]
# witAbs: KEY_SIG G ch1 @0, KEY_SIG D ch0 @0, NOTE_ON 60 ch0 @0, NOTE_OFF 60 ch0 @288
s = Sequence()
s.add_absolute_message(Message(message_type=T.KEY_SIGNATURE, channel=1, time=0, key=Key.G))
s.add_absolute_message(Message(message_type=T.KEY_SIGNATURE, channel=0, time=0, key=Key.D))
s.add_absolute_message(Message(message_type=T.NOTE_ON, channel=0, time=0, note=60, velocity=90))
s.add_absolute_message(Message(message_type=T.NOTE_OFF, channel=0, time=288, note=60))
print("abs order:", [(m.message_type.name, m.channel, m.time, getattr(m.key,'name',None)) for m in s.abs._messages])
print("stale flags abs/rel:", s._abs_stale, s._rel_stale)
tb = Sequence.sequences_split_bars([s], 0, quantise_note_lengths=False)
print("wrapper built through abs view  -> bar keys", keys(tb))
# the same content as a relative view
s2 = Sequence()
s2.add_absolute_message(Message(message_type=T.KEY_SIGNATURE, channel=1, time=0, key=Key.G))
s2.add_absolute_message(Message(message_type=T.KEY_SIGNATURE, channel=0, time=0, key=Key.D))
s2.add_absolute_message(Message(message_type=T.NOTE_ON, channel=0, time=0, note=60, velocity=90))
s2.add_absolute_message(Message(message_type=T.NOTE_OFF, channel=0, time=288, note=60))
rel = s2.rel
print("rel view:", [(m.message_type.name, m.channel, m.time, getattr(m.key,'name',None)) for m in rel._messages])
s3 = Sequence(relative_sequence=rel.copy())
tb3 = Sequence.sequences_split_bars([s3], 0, quantise_note_lengths=False)
print("Sequence(relative_sequence=same) -> bar keys", keys(tb3))
# after reading .rel, s2 has both views fresh: which is used?
tb2 = Sequence.sequences_split_bars([s2], 0, quantise_note_lengths=False)
print("both views fresh (rel read once)  -> bar keys", keys(tb2))
