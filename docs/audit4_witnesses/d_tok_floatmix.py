"""mixed int/float duplicates: sorted(set(...)) keeps the FIRST of 12.0 / 12, old code kept both. usage: SCODA_REPO=<src> python d_tok_floatmix.py"""
import sys, os
sys.path.insert(0, os.environ["SCODA_REPO"])
from scoda.tokenisation.notelike_tokenisation import MultiTrackLargeVocabularyNotelikeTokeniser as Tk
from scoda.sequences.sequence import Sequence
from scoda.elements.message import Message
from scoda.enumerations.message_type import MessageType as T
def piece():
    s = Sequence()
    s.add_relative_message(Message(message_type=T.TIME_SIGNATURE, numerator=4, denominator=4))
    s.add_relative_message(Message(message_type=T.WAIT, time=4))
    s.add_relative_message(Message(message_type=T.NOTE_ON, channel=0, note=60, velocity=64))
    s.add_relative_message(Message(message_type=T.WAIT, time=12))
    s.add_relative_message(Message(message_type=T.NOTE_OFF, channel=0, note=60))
    return s
for label, kw in [("note_values=[12.0, 12]", dict(note_values=[12.0, 12])), ("step_sizes=[4.0, 4, 8]", dict(step_sizes=[4.0, 4, 8], note_values=[12]))]:
    tk = Tk(num_tracks=1, pitch_range=(60, 60), **kw)
    toks = tk.tokenise([piece()])
    missing = [t for t in toks if t not in tk.dictionary]
    try: tk.encode(toks); enc = "ok"
    except Exception as e: enc = f"{type(e).__name__}: {e}"
    try: tk.detokenise(toks); det = "ok"
    except Exception as e: det = f"{type(e).__name__}: {e}"
    print(label, "| tokens", toks, "| not in vocabulary:", missing, "| encode:", enc, "| detokenise:", det)
