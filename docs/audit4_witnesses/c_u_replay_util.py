import numpy as np, scoda
from scoda.misc import util as U
def t(f,*a):
    try: r=f(*a); return (type(r).__name__, r)
    except Exception as e: return ('!'+type(e).__name__, str(e)[:80])
print("numpy", np.__version__)
print("bin_velocity(3,[10,5])", t(U.bin_velocity,3,[10,5]), " model binIndex=0")
print("bin_velocity(3,[1,5,2])", t(U.bin_velocity,3,[1,5,2]))
print("minmax(5,3,10)", t(U.minmax,5,3,10), " clamp max(5,min(3,10))=", max(5,min(3,10)))
# digitize model
def mono(b):
    pairs=list(zip(b,b[1:]))
    if all(x<=y for x,y in pairs): return 1
    if all(x>=y for x,y in pairs): return -1
    return 0
def model(x,b):
    m=mono(b)
    if m==0: return '!ValueError'
    if m==-1: return sum(1 for y in b if y>=x)
    return sum(1 for y in b if y<x)
import itertools, random
random.seed(1)
bad=0; n=0
cases=[[],[5],[5,5],[5,5,5],[1,1,2],[2,1,1],[2,2,1],[1,2,2,1],[3,1,2],[1.5,1.5,0.5],[0.5,1.5,1.5],[10,5],[1,5,2],[5,5,4,4,3],[3,4,4,5,5],[5,4,5],[1,2,1]]
for _ in range(3000):
    k=random.randint(0,5); cases.append([random.choice([0,1,2,3,2.5,-1]) for _ in range(k)])
for b in cases:
    for x in [-2,0,1,2,2.5,3,5,6,1.5]:
        try: r=int(np.digitize(x,b,right=True).item(-1))
        except ValueError: r='!ValueError'
        except Exception as e: r='!'+type(e).__name__
        n+=1
        if r!=model(x,b):
            bad+=1
            if bad<10: print("DIFF",x,b,r,model(x,b))
print("digitize cases",n,"diffs",bad)
# large ints / floats
for v in [2**62, 2**63, 2**64, 2**70, -2**70, 10**400]:
    print("bin_velocity(big)", v.bit_length(), t(U.bin_velocity, v, [1,5,10]), t(U.bin_velocity, v))
for bins in [[1,2**63],[1,2**64],[1,2**70],[2**53,2**53+1]]:
    print("bins big", [b.bit_length() for b in bins], t(U.bin_velocity, 2**53+1, bins), "model", model(2**53+1,bins))
print("digitise_velocity(2**70)", t(U.digitise_velocity, 2**70))
print("velocity_from_bin(10**400)", t(U.velocity_from_bin, 10**400)[0])
