import SCoda.Props.TokTie
open SCoda SCoda.Gen.Tok SCoda.TokLib
#eval (tokInit none 1 (60, 62) (some [4]) (some [12]) 65 (2, 16) true true true true true).toOption.isSome
#eval (tokInit none 1 (60, 62) (some [4]) (some [12]) 64 (2, 16) true true true true true).toOption.isSome
#eval (tokInit none 1 (60, 62) (some [4]) (some [12]) (-1) (2, 16) true true true true true).toOption.isSome
#eval match tokInit none 1 (60, 62) (some [4]) (some [12]) 100 (2, 16) true true true true true with | .ok _ => "ok" | .error e => s!"{repr e}"
