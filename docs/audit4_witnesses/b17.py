import sys, os, importlib
os.environ.setdefault("SCODA_VERIF", "1")
from checklib import Ctx
mod = importlib.import_module("props.C03")
ctx = Ctx("C03", "quick", 0); mod.setup(ctx)
kf = ctx.kf_predicates["D19"]
inp = mod.D19_EXAMPLE
for c, d in ctx.oracles["chunked"](inp):
    if not c.startswith("~"):
        print(c, "|", d[:200], "-> kf_d19:", kf({"oracle": "chunked", "clause": c, "detail": d, "input": inp}))
ctx.close()
