"""f7c79e5 changes quantise OUTSIDE D41's class (two abutting notes): a zero-length note (note-on and note-off of one key on one tick, stored on-then-off as
a MIDI file or add_*_message gives it).  old: walked on, off -> the note is stretched to one grid step.  new: sort puts NOTE_OFF before NOTE_ON on the tick ->
the off is dropped as unopened, the on stays OPEN: the result holds an unpaired note-on (get_message_pairings then imputes a 24-tick note).
usage: SCODA_REPO=<src> python d_quantise_zero_length.py"""
import sys, os
sys.path.insert(0, os.environ["SCODA_REPO"])
from scoda.sequences.sequence import Sequence
from scoda.elements.message import Message
from scoda.enumerations.message_type import MessageType as T
import scoda.sequences.absolute_sequence as m
print("source:", m.__file__)
s = Sequence()
s.add_absolute_message(Message(message_type=T.NOTE_ON, channel=0, note=60, velocity=64, time=7))
s.add_absolute_message(Message(message_type=T.NOTE_OFF, channel=0, note=60, time=7))
s.add_absolute_message(Message(message_type=T.NOTE_ON, channel=0, note=64, velocity=64, time=48))
s.add_absolute_message(Message(message_type=T.NOTE_OFF, channel=0, note=64, time=96))
s.quantise([2])
out = [(x.message_type.value, x.note, x.time) for x in s.abs._messages]
print("quantise([2]) ->", out)
ons = [x for x in out if x[0] == "note_on"]; offs = [x for x in out if x[0] == "note_off"]
print("note-ons", len(ons), "note-offs", len(offs), "-> paired one-to-one:", len(ons) == len(offs))
print("pairings:", [[(p.message_type.value, p.note, p.time) for p in pr] for pr in s.get_message_pairings()[0]])
