"""Audit round 4, reviewer C: replays of Lean `_statement_false` witnesses on the real library (scoda from /repo)."""
import logging, tempfile, os
logging.disable(logging.CRITICAL)
from scoda.sequences.sequence import Sequence
from scoda.sequences.relative_sequence import RelativeSequence
from scoda.elements.message import Message, MessageType as T
from scoda.elements.bar import Bar
from scoda.misc.music_theory import Key
from scoda.tokenisation.notelike_tokenisation import MultiTrackLargeVocabularyNotelikeTokeniser as Tok

def rel(evts):
    r = RelativeSequence()
    for e in evts:
        r.add_message(e)
    return Sequence(relative_sequence=r)
def on(n, v=64, ch=0): return Message(message_type=T.NOTE_ON, channel=ch, note=n, velocity=v)
def off(n, ch=0): return Message(message_type=T.NOTE_OFF, channel=ch, note=n)
def wait(t): return Message(message_type=T.WAIT, time=t)
def ts(n, d): return Message(message_type=T.TIME_SIGNATURE, numerator=n, denominator=d)
def notes(seq):
    op, out = {}, []
    for m in seq.abs._messages:
        if m.message_type == T.NOTE_ON: op[(m.channel, m.note)] = (m.time, m.velocity)
        elif m.message_type == T.NOTE_OFF and (m.channel, m.note) in op:
            t, v = op.pop((m.channel, m.note)); out.append((m.channel, m.note, t, m.time, v))
    return out

print("=== 1. C01n.duration_pieceEnd_statement_false: note [0,48), rest 48, KEY_SIGNATURE at 96; Lean: detokenised duration 48, lastBarEnd 96")
steps = [2, 3, 4, 6, 8, 12, 16, 24]; vals = [4, 6, 8, 9, 12, 16, 18, 24, 36, 48, 96]
tk = Tok(num_tracks=1, step_sizes=steps, note_values=vals, velocity_bins=1)
s = rel([on(60), wait(48), off(60), wait(48), Message(message_type=T.KEY_SIGNATURE, key=Key.D)])
toks = tk.tokenise([s])
out = tk.detokenise(toks)
print("   tokens", toks); print("   durations", [q.get_sequence_duration() for q in out])
print("=== 1b. C01n.duration_each_statement_false: two tracks [0,96) / [0,24); Lean: durations [96, 24]")
tk2 = Tok(num_tracks=2, step_sizes=steps, note_values=vals, velocity_bins=1)
out = tk2.detokenise(tk2.tokenise([rel([on(60), wait(96), off(60)]), rel([on(62, ch=1), wait(24), off(62, ch=1)])]))
print("   durations", [q.get_sequence_duration() for q in out])

print("=== 2. C03e.extract_wholebars_statement_false / d18_facts: zTrack = TS4/4, on60, off60, wait96, on60, wait24, off60, wait72")
z = rel([ts(4, 4), on(60), off(60), wait(96), on(60), wait(24), off(60), wait(72)])
tb = Sequence.sequences_split_bars([z], meta_track_index=0, quantise_note_lengths=False)
print("   bars:", [[(m.message_type.name, m.time, m.note) for m in b.sequence.rel._messages] for b in tb[0]])
tk3 = Tok(num_tracks=1, step_sizes=steps, note_values=[4, 6, 8, 9, 12, 16, 18, 24, 36], velocity_bins=1)
def toks_of(lo, hi):
    sq = Bar.to_sequence([b.copy() for b in tb[0][lo:hi]])
    return tk3.tokenise([sq])
print("   bar 1 alone :", toks_of(1, 2), " (Lean: the note 60 [0,24) is extracted)")
print("   bars 0..1   :", toks_of(0, 2), " (Lean: NO note at all is extracted)")

print("=== 3. C12n.touch_on_first_fuses: ch0 60 [0,12) v64, ch1 60 [12,24) v70, note-on listed BEFORE note-off on tick 12; Lean: one note [0,24) v64")
def save_load(seq):
    d = tempfile.mkdtemp(); p = os.path.join(d, "x.mid")
    Sequence.sequences_save([seq], p)
    return Sequence.sequences_load(p)
s1 = rel([on(60, 64, 0), wait(12), on(60, 70, 1), off(60, 0), wait(12), off(60, 1)])
print("   on first :", notes(save_load(s1)[0]))
s2 = rel([on(60, 64, 0), wait(12), off(60, 0), on(60, 70, 1), wait(12), off(60, 1)])
print("   off first:", notes(save_load(s2)[0]), " (Lean exTouch: two notes [0,12) v64, [12,24) v70)")

print("=== 4. HeapTie.messageCopy_eq_statement_false: message with channel None; Lean: translated copy has channel 0, hand model None")
m = on(60); m.channel = None
print("   copy().channel =", m.copy().channel)

print("=== 5. TokTie.tokenise_eq_statement_false: state_dict denominator 0; Lean: ZeroDivisionError")
try:
    Tok(num_tracks=1, velocity_bins=1).tokenise([rel([])], state_dict={"cur_time_signature_denominator": 0})
    print("   no exception")
except Exception as e:
    print("  ", type(e).__name__, e)
